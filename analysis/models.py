"""Trusted models of external (std / bytes / byteorder / ...) callees for the abstract interpreter.

Each model says: may the call panic (and under which precondition), how it changes tracked terms
(len / pos / integer results), and what its result tag implies.  A callee that matches no model and is not a
local (workspace) function is recorded as `unmodelled` and produces an open obligation (fail closed).
"""
import re

from .absint import INF, LEN_MAX, TYPE_RANGE, _len_term, int_type
from .facts import callee_names

OKN = frozenset(["Ok"])
SOMEN = frozenset(["Some"])

# external callees that never panic and whose result needs no facts (reviewed list; regex on display name)
PURE = re.compile("|".join([
    r"std::clone::Clone::clone", r"std::default::Default::default", r"std::convert::(From::from|Into::into|AsRef::as_ref|AsMut::as_mut)",
    r"std::ops::(Deref::deref|DerefMut::deref_mut|Fn::call|FnMut::call_mut|FnOnce::call_once|Not::not|BitAnd::bitand|BitOr::bitor|Try::from_output|FromResidual::from_residual)",
    r"std::cmp::(PartialEq::(eq|ne)|PartialOrd::(lt|le|gt|ge|partial_cmp)|Ord::(cmp|min|max)|Ordering::.*|min|max)",
    r"std::iter::(Iterator|IntoIterator|DoubleEndedIterator|ExactSizeIterator|FromIterator|Extend)::\w+", r"std::iter::(zip|once|repeat|empty).*",
    r"std::option::Option::<T>::(map|map_or|map_or_else|and_then|or|or_else|ok_or|ok_or_else|filter|as_ref|as_mut|as_deref|as_deref_mut|is_some|is_none|is_some_and|is_none_or|take|replace|cloned|copied|unwrap_or|unwrap_or_else|unwrap_or_default|iter|into_iter|zip|flatten|insert|get_or_insert_with|then_some)",
    r"std::option::Option::<&T>::(cloned|copied)", r"std::option::Option::<&mut T>::(cloned|copied)",
    r"std::result::Result::<T, E>::(map|map_err|and_then|ok|err|is_ok|is_err|is_ok_and|unwrap_or|unwrap_or_else|unwrap_or_default|or_else|as_ref|iter|transpose)",
    r"core::bool::<impl bool>::(then|then_some)",
    r"core::num::<impl \w+>::(from_be_bytes|to_be_bytes|from_le_bytes|to_le_bytes|from_ne_bytes|to_ne_bytes|is_multiple_of|leading_zeros|trailing_zeros|trailing_ones|leading_ones|count_ones|count_zeros|wrapping_\w+|saturating_\w+|checked_\w+|overflowing_\w+|min|max|pow|is_power_of_two|abs_diff|swap_bytes|to_be|from_be|rotate_left|rotate_right|unsigned_abs|signum)",
    r"core::slice::<impl \[T\]>::(iter|iter_mut|first|last|get|get_mut|is_empty|len|to_vec|chunks_exact|contains|starts_with|ends_with|as_ptr|fill|reverse|concat|join|split_first|split_last|first_chunk|windows|sort\w*|binary_search\w*|partition_point|to_owned|into_vec|as_slice|as_mut_slice|iter)",
    r"std::slice::<impl \[T\]>::(to_vec|into_vec|concat|join|to_owned|sort\w*)", r"std::slice::from_ref", r"core::slice::<impl \[u8\]>::\w+",
    r"std::vec::Vec::<T(, A)?>::(new|with_capacity|push|len|is_empty|clear|extend_from_slice|as_slice|as_mut_slice|iter|iter_mut|reserve|pop|last|first|retain|retain_mut|dedup\w*|append|capacity|shrink_to_fit|into_boxed_slice|as_ptr|as_mut_ptr|extend|resize|contains|get|get_mut|into_iter|truncate|sort\w*|first_mut|last_mut)",
    r"std::vec::from_elem", r"std::boxed::Box::<T(, A)?>::\w+", r"std::boxed::box_\w+", r"std::boxed::Box::<\[T\](, A)?>::\w+", r"std::boxed::Box::<std::mem::MaybeUninit<T>(, A)?>::\w+",
    r"std::string::String::(new|from_utf8|from_utf8_lossy|len|is_empty|push|push_str|as_str|as_bytes|into_bytes|with_capacity|clear|from_utf8_unchecked)", r"std::string::ToString::to_string", r"std::borrow::ToOwned::to_owned",
    r"core::str::<impl str>::(len|is_empty|as_bytes|to_string|parse|trim\w*|starts_with|ends_with|contains|to_owned|chars|bytes|find|split\w*|eq_ignore_ascii_case|to_lowercase|to_uppercase)", r"std::str::(from_utf8|FromStr::from_str)", r"core::str::<impl str>::parse",
    r"std::fmt::.*", r"core::fmt::.*", r"std::hint::\w+", r"std::mem::(take|replace|swap|size_of|discriminant|drop|forget)", r"std::mem::MaybeUninit::<T>::\w+",
    r"std::sync::Arc::<T(, A)?>::(new|clone|ptr_eq|as_ptr|make_mut|get_mut|strong_count|try_unwrap|into_inner)", r"std::rc::Rc::<T(, A)?>::\w+", r"std::sync::Arc::<\[T\](, A)?>::\w+",
    r"std::io::Error::(new|other|kind|from)", r"std::io::Cursor::<T>::(get_ref|get_mut|into_inner)", r"std::io::ErrorKind::\w+",
    r"std::net::(Ipv4Addr|Ipv6Addr|IpAddr|SocketAddr)::\w+", r"std::net::\w+::<impl .*>::\w+",
    r"std::collections::(HashMap|HashSet|BTreeMap|BTreeSet|VecDeque)::<.*>::(new|default|with_capacity\w*|insert|get|get_mut|contains|contains_key|remove|len|is_empty|iter|iter_mut|keys|values|values_mut|entry|clear|retain|extend|drain|into_iter|with_hasher|with_capacity_and_hasher|difference|intersection|union|is_subset|take|get_or_insert_with|reserve|first_key_value|last_key_value|range|pop_front|pop_back|push_back|push_front|front|back)",
    r"std::collections::hash_map::(Entry|OccupiedEntry|VacantEntry)::<.*>::\w+", r"std::collections::btree_map::\w+::<.*>::\w+", r"std::hash::\w+::\w+", r"fnv::.*",
    r"std::ops::(Range|RangeInclusive|RangeFrom|RangeTo)::<Idx>::(contains|is_empty|start|end|new)", r"std::ops::RangeInclusive::<Idx>::\w+",
    r"bytes::(BufMut|BytesMut|Bytes)::(new|with_capacity|len|is_empty|freeze|reserve|clear|capacity|extend_from_slice|put\w*|as_ref|as_mut|remaining_mut|chunk_mut|copy_from_slice|from|resize|truncate|clone|to_vec|remaining|chunk|has_remaining|as_mut_slice)", r"bytes::buf::\w+::\w+", r"<bytes::\w+ as .*>::\w+",
    r"byteorder::ByteOrder::(read|write)_\w+", r"byteorder::WriteBytesExt::\w+", r"std::io::(Write|Read)::(write_all|write|flush|by_ref)", r"std::io::Write::write_fmt",
    r"std::time::.*", r"std::any::.*", r"std::borrow::Cow::<.*>::\w+", r"std::marker::.*", r"std::ptr::.*", r"std::alloc::.*", r"std::panic::Location::.*",
    r"std::array::<impl .*>::\w+", r"core::array::<impl .*>::\w+", r"std::convert::TryFrom::try_from", r"std::convert::TryInto::try_into", r"core::char::.*", r"std::char::.*", r"core::unicode::.*",
    r"std::sync::atomic::Atomic::<\w+>::\w+", r"std::sync::atomic::AtomicBool::\w+", r"std::cell::(Cell|OnceCell)::<T>::\w+", r"std::sync::(OnceLock|LazyLock)::<.*>::\w+", r"std::ops::Drop::drop",
    r"regex::.*", r"once_cell::.*", r"core::intrinsics::.*", r"std::intrinsics::.*", r"core::num::<impl \w+>::\w+", r"std::process::.*abort",
    r"patricia_tree::.*", r".*treebitmap::.*", r"arc_swap::.*", r"std::sync::(Mutex|RwLock)::<T>::(new|lock|read|write|get_mut)", r"std::sync::poison::.*", r"log::.*", r"tokio::.*", r"tokio_util::.*", r"std::future::.*", r"std::task::.*", r"std::pin::.*",
    r"std::ops::(Add|Sub|Mul|Shl|Shr|BitXor|AddAssign|SubAssign)::\w+", r"prost::.*", r"prost_types::.*", r"std::ops::Index::index|std::ops::IndexMut::index_mut",
    r"tonic::Status::\w+", r"tonic::Code::\w+", r"core::f(32|64)::<impl f(32|64)>::\w+", r"core::str::<impl str>::\w+", r"std::array::from_fn",
    r"std::error::.*", r"std::ops::ControlFlow::.*", r"std::ops::Bound::.*", r"std::ops::RangeBounds::.*", r"std::ascii::.*", r"core::ascii::.*", r"std::env::.*", r"std::num::.*", r"std::option::Option::<T>::(xor|and|get_or_insert|is_some_and|inspect|unzip|ok_or|as_slice)",
]))

PANICS = re.compile(r"core::panicking::\w+|std::rt::(begin_panic|panic_fmt).*|std::panicking::\w+|core::option::(expect_failed|unwrap_failed)|core::result::unwrap_failed|core::slice::index::\w+fail\w*|std::process::exit|core::panicking::assert_failed.*|std::rt::panic_\w+")


def _is_ro_cursor(interp, place):
    m = re.fullmatch(r"L(\d+)", place or "")
    return bool(m and re.match(r"std::io::Cursor<&", interp.lty(int(m.group(1)))))


def havoc_place(interp, st, tgt):
    """A callee may have mutated the object at `tgt`."""
    if _is_ro_cursor(interp, tgt):
        # reads move the position; the underlying immutable slice keeps its length
        p = "pos(%s)" % tgt
        lo = st.z.lo(p)
        st.z.kill(p)
        if lo != -INF:
            st.z.set_range(p, lo, None)      # positions only grow through Read
        return
    st.z.kill_prefix(tgt)
    for k in [k for k in st.tags if k == tgt or k.startswith(tgt + ".")]:
        del st.tags[k]
    for k in [k for k in st.vals if k == tgt or k.startswith(tgt + ".")]:
        del st.vals[k]


_SIZES = {"u8": 1, "i8": 1, "bool": 1, "u16": 2, "i16": 2, "u32": 4, "i32": 4, "f32": 4, "char": 4, "u64": 8, "i64": 8, "usize": 8, "isize": 8, "f64": 8, "u128": 16}


def _split_top(s):
    depth, cur, out = 0, "", []
    for ch in s:
        if ch in "([<":
            depth += 1
        elif ch in ")]>":
            depth -= 1
        if ch == "," and depth == 0:
            out.append(cur.strip())
            cur = ""
        else:
            cur += ch
    if cur.strip():
        out.append(cur.strip())
    return out


def type_size_lb(prog, t, depth=0):
    """Lower bound of size_of for a rendered type: scalars exactly, Vec/String 24, tuples/structs the sum of their
    fields' bounds, enums and Option the largest variant (a lower bound whatever the layout optimiser does)."""
    t = t.strip()
    if t in _SIZES:
        return _SIZES[t]
    if depth > 5:
        return 0
    if t.startswith(("std::vec::Vec<", "std::string::String")):
        return 24
    if t.startswith(("&", "*const", "*mut", "std::boxed::Box<", "std::sync::Arc<")):
        return 8
    mt = re.fullmatch(r"\((.*)\)", t)
    if mt:
        return sum(type_size_lb(prog, x, depth + 1) for x in _split_top(mt.group(1)))
    ma = re.fullmatch(r"\[(.+); (\d+)(_usize)?\]", t)
    if ma:
        return type_size_lb(prog, ma.group(1), depth + 1) * int(ma.group(2))
    mo = re.fullmatch(r"std::option::Option<(.*)>", t)
    if mo:
        return type_size_lb(prog, mo.group(1), depth + 1)
    if prog is None or "<" in t:
        return 0
    byname = prog.__dict__.get("_adt_by_name")
    if byname is None:
        byname = prog.__dict__["_adt_by_name"] = {a["name"]: a for a in prog.adts.values()}
    a = byname.get(t)
    if not a or a["kind"] == "union":
        return 0
    return max([sum(type_size_lb(prog, f["ty"], depth + 1) for f in v["fields"]) for v in a["variants"]] or [0])


def _elem_size(ga, prog=None):
    """Lower bound of size_of::<T>() for the element type named first in the generic args (1 if unknown)."""
    if prog is not None:
        m0 = re.match(r"\[(.*)\]$", ga or "")
        if m0:
            parts = _split_top(m0.group(1))
            if parts:
                return max(1, type_size_lb(prog, parts[0]))
    m = re.match(r"\[(.*)\]$", ga or "")
    if not m:
        return 1
    first = m.group(1)
    # first generic argument up to a top-level comma
    depth, cut = 0, len(first)
    for i, ch in enumerate(first):
        if ch in "([<":
            depth += 1
        elif ch in ")]>":
            depth -= 1
        elif ch == "," and depth == 0:
            cut = i
            break
    t = first[:cut].strip()
    if t in _SIZES:
        return _SIZES[t]
    mt = re.fullmatch(r"\((.*)\)", t)
    if mt:
        parts = [x.strip() for x in mt.group(1).split(",")]
        if parts and all(x in _SIZES for x in parts):
            return max(1, sum(_SIZES[x] for x in parts))
    ma = re.fullmatch(r"\[(\w+); (\d+)(_usize)?\]", t)
    if ma and ma.group(1) in _SIZES:
        return max(1, _SIZES[ma.group(1)] * int(ma.group(2)))
    if t.startswith("std::vec::Vec<") or t.startswith("std::string::String"):
        return 24
    return 1


def referent(interp, st, o):
    """Canonical place an operand refers to (following a reference held in a temporary)."""
    p = o.get("c") or o.get("m")
    if p is None:
        return None
    if not p.get("p") and p["l"] in st.refs:
        r = st.refs[p["l"]]
        # a reference to a local that itself holds a reference to a tracked buffer (`&mut &[u8]`)
        for _ in range(3):
            m = re.fullmatch(r"L(\d+)", r)
            if m and int(m.group(1)) in st.refs and interp.lty(int(m.group(1))).startswith("&") and not st.refs[int(m.group(1))].startswith(("iter:", "chunks:", "enum:")):
                r = st.refs[int(m.group(1))]
            else:
                break
        return r
    return interp.canon(st, p)


def operand_local(o):
    p = o.get("c") or o.get("m")
    if p is not None and not p.get("p"):
        return p["l"]
    return None


def set_dest_int(interp, st, dest, lo=None, hi=None):
    return interp.assign_fresh(st, dest, lo, hi)


def apply_model(interp, st, t, b, record):
    names = callee_names(t)
    f = t.get("f", {})
    dest = t.get("dest")
    args = t.get("args", [])
    name = f.get("name") or ""
    rname = f.get("rname") or name
    nm = name
    ga = f.get("ga", "")

    def ob(kind, desc, ok, by):
        interp.oblige(b, record, kind, desc, ok, by, t)

    def havoc_mut_args():
        for a in args:
            l = operand_local(a)
            if l is not None and re.match(r"&mut \[|&mut str", interp.lty(l)):
                continue        # a slice's length cannot change through a reference to it
            if l is not None and l in st.refs and interp.lty(l).startswith("&mut"):
                havoc_place(interp, st, st.refs[l])
            elif l is not None and interp.lty(l).startswith("&mut"):
                havoc_place(interp, st, "L%d.*" % l)

    def fresh_dest(lo=None, hi=None):
        if dest is not None:
            return interp.assign_fresh(st, dest, lo, hi)
        return None

    # ---------------------------------------------------------------- explicit panics
    if any(PANICS.fullmatch(n) for n in names):
        msg = ""
        for a in args:
            k = a.get("k")
            if k and k.get("s"):
                msg = k["s"]
        ob("panic", "explicit panic/unreachable/assert: %s" % (t.get("sn") or msg)[:80], False, "block is reachable in the abstract state")
        return

    # ---------------------------------------------------------------- unwrap / expect
    m = re.fullmatch(r"std::(option::Option|result::Result)::<T(, E)?>::(unwrap|expect|unwrap_err|expect_err)", nm)
    if m:
        src = referent(interp, st, args[0])
        want = SOMEN if "Option" in m.group(1) else OKN
        if m.group(3).endswith("_err"):
            want = frozenset(["Err"])
        tag = st.tags.get(src)
        ok = tag is not None and tag <= want
        ob("unwrap", (t.get("sn") or nm)[:90], ok, "tag of %s is %s" % (interp.pretty(src), sorted(tag) if tag else "unknown"))
        if src is not None:
            st.tags[src] = want
            interp.on_tag(st, src, want)
        fresh_dest()
        _bind_payload(interp, st, src, dest)
        return

    # ---------------------------------------------------------------- lengths
    if re.fullmatch(r"(core::slice::<impl \[T\]>|std::vec::Vec::<T(, A)?>|bytes::BytesMut|bytes::Bytes|std::string::String|core::str::<impl str>|std::collections::VecDeque::<T(, A)?>)::len", nm) or nm.endswith("bytes::Buf::remaining"):
        r = referent(interp, st, args[0])
        # a Vec<T>/[T] holds at most isize::MAX bytes: len <= isize::MAX / size_of::<T>()
        esz = _elem_size(ga, interp.prog)
        dt = fresh_dest(0, LEN_MAX // esz)
        if r and dt:
            lt = _len_term(r)
            st.z.eq(dt, lt, 0)
            st.z.set_range(lt, 0, LEN_MAX // esz)
        return
    if re.fullmatch(r"(core::slice::<impl \[T\]>|std::vec::Vec::<T(, A)?>|bytes::BytesMut|bytes::Bytes|std::string::String|core::str::<impl str>)::is_empty", nm):
        r = referent(interp, st, args[0])
        fresh_dest(0, 1)
        l = dest["l"] if dest and not dest.get("p") else None
        if r and l is not None:
            st.boolx[l] = ("lenzero", _len_term(r))
        return

    # ---------------------------------------------------------------- views of the same buffer
    if nm in ("std::ops::Deref::deref", "std::ops::DerefMut::deref_mut", "std::convert::AsRef::as_ref", "std::convert::AsMut::as_mut", "std::borrow::Borrow::borrow") or \
            re.fullmatch(r"std::vec::Vec::<T(, A)?>::(as_slice|as_mut_slice)|core::slice::<impl \[T\]>::(as_ref|as_slice)|std::string::String::(as_bytes|as_str)|core::str::<impl str>::as_bytes|bytes::\w+::(as_ref|as_mut)", nm):
        r = referent(interp, st, args[0])
        fresh_dest()
        if r and dest and not dest.get("p"):
            st.refs[dest["l"]] = r
        return
    if nm in ("core::slice::<impl [T]>::iter", "core::slice::<impl [T]>::iter_mut", "std::vec::Vec::<T>::iter", "std::vec::Vec::<T, A>::iter"):
        r = referent(interp, st, args[0])
        fresh_dest()
        if r and dest and not dest.get("p"):
            st.refs[dest["l"]] = "iter:" + r
        return
    if nm == "std::iter::Iterator::enumerate":
        al = operand_local(args[0])
        keep = st.refs.get(al) if al is not None else None
        fresh_dest()
        if keep and keep.startswith("iter:") and dest and not dest.get("p"):
            st.refs[dest["l"]] = "enum:" + keep[5:]
        return
    if nm in ("core::slice::<impl [T]>::chunks_exact", "core::slice::<impl [T]>::chunks"):
        n = interp.range_of(st, args[1])
        fresh_dest()
        if dest and not dest.get("p") and n[0] == n[1] and nm.endswith("chunks_exact"):
            st.refs[dest["l"]] = "chunks:%d" % n[0]
        return
    if nm == "std::iter::Iterator::position":
        r = referent(interp, st, args[0])
        src = None
        mm = re.fullmatch(r"L(\d+)", r or "")
        if mm and st.refs.get(int(mm.group(1)), "").startswith("iter:"):
            src = st.refs[int(mm.group(1))][5:]
        fresh_dest()
        if src and dest and not dest.get("p"):
            pay = "L%d.v1.f0" % dest["l"]
            st.z.kill(pay)
            st.z.set_range(pay, 0, None)
            st.z.add(pay, _len_term(src), -1)
        return

    # ---------------------------------------------------------------- Cursor
    if nm == "std::io::Cursor::<T>::new":
        r = referent(interp, st, args[0])
        dt = fresh_dest()
        if dt:
            st.z.set_range("pos(%s)" % dt, 0, 0)
            if r:
                st.z.eq(_len_term(dt), _len_term(r), 0)
            st.z.set_range(_len_term(dt), 0, LEN_MAX)
        return
    if nm == "std::io::Cursor::<T>::position":
        r = referent(interp, st, args[0])
        dt = fresh_dest(0, 2 ** 64 - 1)
        if r and dt:
            st.z.eq(dt, "pos(%s)" % r, 0)
            st.z.set_range("pos(%s)" % r, 0, None)
        return
    if nm == "std::io::Cursor::<T>::set_position":
        r = referent(interp, st, args[0])
        v = interp.term_of_operand(st, args[1])
        if r and v and record:
            pt = "pos(%s)" % r
            if (v[0] != "0" and st.z.implies(pt, v[0], -1)) or (v[0] == "0" and st.z.hi(pt) < v[1]):
                interp.progress.add(b)
        if r:
            st.z.kill("pos(%s)" % r)
            if v:
                if v[0] == "0":
                    st.z.set_range("pos(%s)" % r, v[1], v[1])
                else:
                    st.z.eq("pos(%s)" % r, v[0], 0)
        fresh_dest()
        return
    if nm in ("std::io::Cursor::<T>::get_ref", "std::io::Cursor::<T>::into_inner", "std::io::Cursor::<T>::get_mut"):
        r = referent(interp, st, args[0])
        fresh_dest()
        if r and dest and not dest.get("p"):
            st.refs[dest["l"]] = "inner(%s)" % r
            st.z.eq("len(inner(%s))" % r, _len_term(r), 0)
        return
    m = re.fullmatch(r"byteorder::ReadBytesExt::read_(u8|i8|u16|i16|u24|u32|i32|u64|i64|u128)", nm)
    if m or nm == "std::io::Read::read_exact":
        r = referent(interp, st, args[0])
        n = {"u8": 1, "i8": 1, "u16": 2, "i16": 2, "u24": 3, "u32": 4, "i32": 4, "u64": 8, "i64": 8, "u128": 16}.get(m.group(1)) if m else None
        is_cursor = "std::io::Cursor<" in ga.split(",")[0] if ga else False
        if r and n and re.match(r"\[&'?\S* ?\[u8\](,|\])", ga):
            # `&[u8]` as Read: succeeds iff at least n bytes are left in the slice
            lt0 = _len_term(r)
            fresh_dest()
            if st.z.lo(lt0) >= n and dest and not dest.get("p"):
                st.tags["L%d" % dest["l"]] = OKN
            st.z.kill(lt0)
            return
        havoc_buf = None
        if not m:
            # read_exact(&mut r, buf): buf contents change, not its length
            pass
        fresh_dest()
        if record and (n or not m):
            interp.progress.add(b)       # a successful read consumes >= 1 byte (read_exact: see buffer length rule)
        dl = dest["l"] if dest and not dest.get("p") else None
        if r and is_cursor:
            pos_t, len_t = "pos(%s)" % r, _len_term(r)
            st.z.set_range(len_t, 0, LEN_MAX)
            st.z.set_range(pos_t, 0, None)
            if n is None:
                nb = referent(interp, st, args[1])
                nt = _len_term(nb) if nb else None
                fits = nt is not None and st.z.hi(nt) != INF and st.z.implies(pos_t, len_t, -st.z.hi(nt)) and False
                g = "g%d" % b
                st.z.kill(g)
                st.z.eq(g, pos_t, 0)
                st.z.kill(pos_t)
                st.z.add(g, pos_t, 0)
                if dl is not None:
                    st.ghost[dl] = ("fact", ((pos_t, len_t, 0),))
            else:
                fits = st.z.implies(pos_t, len_t, -n)
                if fits:
                    st.z.shift(pos_t, n)
                    if dl is not None:
                        st.tags["L%d" % dl] = OKN
                else:
                    g = "g%d" % b
                    st.z.kill(g)
                    st.z.eq(g, pos_t, 0)
                    st.z.kill(pos_t)
                    st.z.add(g, pos_t, 0)           # pos' >= old pos
                    if dl is not None:
                        st.ghost[dl] = ("advance", pos_t, g, n, len_t)
        else:
            havoc_mut_args()
        return

    # ---------------------------------------------------------------- infallible writers (Vec<u8> / Cursor<Vec<u8>> / BytesMut never fail)
    if re.fullmatch(r"byteorder::WriteBytesExt::write_\w+|std::io::Write::(write_all|flush)", nm):
        V = r"std::vec::Vec<u8(, std::alloc::Global)?>"
        infallible = bool(re.match(r"\[(&mut )?(std::io::Cursor<(&mut )?%s>|%s|bytes::BytesMut|bytes::buf::Writer<.*>)(,|\])" % (V, V), ga or ""))
        r = referent(interp, st, args[0])
        if r:
            for tt in ("pos(%s)" % r, _len_term(r), "len(inner(%s))" % r):
                lo_ = st.z.lo(tt)
                st.z.kill(tt)
                st.z.set_range(tt, max(lo_, 0) if lo_ != -INF else 0, None)
        dt = fresh_dest()
        if dt and infallible:
            st.tags[dt] = OKN
        return

    # ---------------------------------------------------------------- tag-preserving wrappers
    if nm in ("std::ops::Try::branch", "std::result::Result::<T, E>::map_err", "std::result::Result::<T, E>::map", "std::option::Option::<T>::map",
              "std::result::Result::<T, E>::ok", "std::option::Option::<T>::ok_or", "std::option::Option::<T>::ok_or_else", "std::option::Option::<T>::copied", "std::option::Option::<T>::cloned",
              "std::option::Option::<&T>::copied", "std::option::Option::<&T>::cloned", "std::result::Result::<T, E>::as_ref", "std::option::Option::<T>::as_ref"):
        src = referent(interp, st, args[0])
        stag = st.tags.get(src) if src else None
        fresh_dest()
        if dest and not dest.get("p") and src:
            dl = dest["l"]
            st.ghost[dl] = ("chain", src)
            # the success payload is the same value (Result::Ok = variant 0, Option::Some = variant 1,
            # ControlFlow::Continue = variant 0); closures in map/map_err change it, so only for the identity wrappers
            if nm in ("std::ops::Try::branch", "std::result::Result::<T, E>::ok", "std::option::Option::<T>::ok_or", "std::option::Option::<T>::ok_or_else",
                      "std::result::Result::<T, E>::map_err", "std::option::Option::<T>::copied", "std::option::Option::<T>::cloned"):
                src_opt = "Option" in nm.split("::<")[0] or "option::Option" in interp.lty(operand_local(args[0]) or 0)
                sp = src + (".v1.f0" if src_opt else ".v0.f0")
                dst_is_opt = nm.endswith("::ok") or nm.endswith("copied") or nm.endswith("cloned")
                dp = "L%d" % dl + (".v1.f0" if dst_is_opt else ".v0.f0")
                if any(_rooted_t(x, sp) for x in st.z.terms()):
                    interp.copy_subterms(st, sp, dp)
                    if sp in st.z.terms():
                        st.z.eq(dp, sp, 0)
                    if sp in st.vals:
                        st.vals[dp] = st.vals[sp]
            if stag is not None:
                if stag <= frozenset(["Ok", "Some"]):
                    st.tags["L%d" % dl] = frozenset(["Continue"]) if nm.endswith("Try::branch") else frozenset(["Ok", "Some"]) & _succ_names(nm)
                elif stag <= frozenset(["Err", "None"]):
                    st.tags["L%d" % dl] = frozenset(["Break"]) if nm.endswith("Try::branch") else _fail_names(nm)
        return
    if nm == "std::ops::FromResidual::from_residual":
        # `?` on the failure side: the value built is the failure variant of the function's return type
        dt = fresh_dest()
        if dt and dest is not None:
            ty = interp.place_ty(dest) or ""
            if "result::Result<" in ty or ty.startswith("Result<") or "::Result<" in ty:
                st.tags[dt] = frozenset(["Err"])
            elif "option::Option<" in ty or ty.startswith("Option<"):
                st.tags[dt] = frozenset(["None"])
        return
    if nm in ("std::option::Option::<T>::is_some", "std::option::Option::<T>::is_none", "std::result::Result::<T, E>::is_ok", "std::result::Result::<T, E>::is_err"):
        src = referent(interp, st, args[0])
        fresh_dest(0, 1)
        if dest and not dest.get("p") and src:
            opt = "Option" in nm
            pos = nm.endswith("is_some") or nm.endswith("is_ok")
            var = ("Some" if opt else "Ok") if pos else ("None" if opt else "Err")
            st.boolx[dest["l"]] = ("tagis", src, var, ("Some", "None") if opt else ("Ok", "Err"))
        return

    # ---------------------------------------------------------------- indexing
    if nm in ("std::ops::Index::index", "std::ops::IndexMut::index_mut"):
        base = referent(interp, st, args[0])
        self_ty = ga
        is_seq = bool(re.match(r"\[(\[|std::vec::Vec<|\[?u8|bytes::|std::string::String|str)", ga)) or ga.startswith("[[") or ga.startswith("[std::vec::Vec<")
        idx = args[1]
        idx_ty = ga.split(", ")[-1].rstrip("]") if ga else ""
        il = operand_local(idx)
        ity = interp.lty(il) if il is not None else (idx.get("k", {}).get("ty", ""))
        if not is_seq:
            ob("index", (t.get("sn") or nm)[:90], False, "indexing a map/other container panics when the key is absent (%s)" % ga[:60])
            fresh_dest()
            return
        lt = _len_term(base) if base else None
        desc = (t.get("sn") or nm)[:90]
        if ity in ("usize",):
            ti = interp.term_of_operand(st, idx)
            ok = False
            if ti and lt:
                if ti[0] == "0":
                    ok = st.z.lo(lt) > ti[1]
                else:
                    ok = st.z.implies(ti[0], lt, -1)
            ob("index", desc, ok, "index %s < %s ∈ [%s, %s]" % (interp._show_term(st, ti) if ti else "?", interp.pretty(lt or "?"), st.z.lo(lt) if lt else "?", st.z.hi(lt) if lt else "?"))
            if ti and lt and ti[0] != "0":
                st.z.add(ti[0], lt, -1)
            elif ti and lt:
                st.z.set_range(lt, ti[1] + 1, None)
            fresh_dest()
            if ti and ti[0] == "0" and base and dest and not dest.get("p"):
                st.refs[dest["l"]] = "%s[%d]" % (base, ti[1])      # the same element every time it is indexed
            return
        rng = "L%d" % il if il is not None else None
        start = end = None
        ok = False
        by = ""
        if "RangeFull" in ity:
            ok, by = True, "full range"
        elif rng and lt:
            if re.search(r"ops::Range<", ity):
                start, end = rng + ".f0", rng + ".f1"
            elif "RangeFrom<" in ity:
                start = rng + ".f0"
            elif "RangeTo<" in ity:
                end = rng + ".f0"
            elif "RangeInclusive<" in ity or "RangeToInclusive<" in ity:
                start = end = None
            if start and end:
                ok = (st.z.implies(start, end, 0) or (_lin_diff(interp, st, end, start) or -1) >= 0) and st.z.implies(end, lt, 0)
                by = "%s..%s within %s" % (_rng(interp, st, start), _rng(interp, st, end), _rng(interp, st, lt))
            elif start:
                ok = st.z.implies(start, lt, 0)
                by = "%s.. within %s" % (_rng(interp, st, start), _rng(interp, st, lt))
            elif end:
                ok = st.z.implies(end, lt, 0)
                by = "..%s within %s" % (_rng(interp, st, end), _rng(interp, st, lt))
        ob("index", desc, ok, by or "range bounds not tracked")
        dt = fresh_dest()
        if dest and not dest.get("p") and lt:
            nb = "sub%d" % b
            st.refs[dest["l"]] = nb
            nl = _len_term(nb)
            st.z.kill(nl)
            st.z.set_range(nl, 0, LEN_MAX)
            st.z.add(nl, lt, 0)
            if start and end:
                # len = end - start when expressible
                le, ls_ = st.lin.get(end), st.lin.get(start) or ((interp.rep(st, start),), 0)
                if le:
                    ve, vs = list(le[0]), list(ls_[0])
                    okd = True
                    for v in vs:
                        if v in ve:
                            ve.remove(v)
                        else:
                            okd = False
                    if okd and len(ve) == 1:
                        st.z.eq(nl, ve[0], le[1] - ls_[1])
                    elif okd and not ve and le[1] - ls_[1] >= 0:
                        st.z.set_range(nl, le[1] - ls_[1], le[1] - ls_[1])
                d1 = st.z.dist(end, start)
                d2 = st.z.dist(start, end)
                if d1 != INF:
                    st.z.set_range(nl, None, d1)
                if d2 != INF:
                    st.z.set_range(nl, -d2, None)
                st.z.add(start, end, 0)
                st.z.add(end, lt, 0)
            elif start:
                # len = lt - start
                st.z.add(nl, lt, -st.z.lo(start) if st.z.lo(start) != -INF else 0)
                if st.z.hi(start) != INF:
                    st.z.add(lt, nl, st.z.hi(start))
                st.z.add(start, lt, 0)
            elif end:
                st.z.eq(nl, end, 0)
                st.z.add(end, lt, 0)
            elif "RangeFull" in ity:
                st.z.eq(nl, lt, 0)
        return

    # ---------------------------------------------------------------- Vec / slices
    if nm in ("std::vec::Vec::<T>::new", "std::vec::Vec::<T, A>::new", "std::vec::Vec::<T>::with_capacity", "std::vec::Vec::<T, A>::with_capacity", "bytes::BytesMut::new", "bytes::BytesMut::with_capacity", "std::string::String::new"):
        dt = fresh_dest()
        if dt:
            st.z.set_range(_len_term(dt), 0, 0)
        return
    if nm == "std::vec::from_elem":
        n = interp.term_of_operand(st, args[1])
        dt = fresh_dest()
        if dt:
            lt = _len_term(dt)
            st.z.set_range(lt, 0, LEN_MAX)
            if n:
                if n[0] == "0":
                    st.z.set_range(lt, n[1], n[1])
                else:
                    st.z.eq(lt, n[0], 0)
        return
    if re.fullmatch(r"(core|std)::slice::<impl \[T\]>::(to_vec|to_owned|into_vec)|std::clone::Clone::clone|std::borrow::ToOwned::to_owned", nm):
        r = referent(interp, st, args[0])
        dt = fresh_dest()
        if dt and r and (_len_term(r) in st.z.terms()):
            st.z.eq(_len_term(dt), _len_term(r), 0)
        if dt and r:
            interp.copy_subterms(st, r, dt)
            if r in st.tags:
                st.tags[dt] = st.tags[r]
        return
    if re.fullmatch(r"std::vec::Vec::<T(, A)?>::push", nm):
        r = referent(interp, st, args[0])
        if r:
            lt = _len_term(r)
            if lt in st.z.terms():
                st.z.shift(lt, 1)
            else:
                st.z.set_range(lt, 1, LEN_MAX)
        fresh_dest()
        return
    if re.fullmatch(r"std::vec::Vec::<T(, A)?>::(clear)", nm):
        r = referent(interp, st, args[0])
        if r:
            st.z.kill(_len_term(r))
            st.z.set_range(_len_term(r), 0, 0)
        fresh_dest()
        return
    if nm in ("bytes::BytesMut::split_to", "bytes::Bytes::split_to", "bytes::BytesMut::split_off", "bytes::Bytes::split_off", "bytes::Buf::advance", "bytes::BytesMut::advance"):
        r = referent(interp, st, args[0])
        n = interp.term_of_operand(st, args[1])
        lt = _len_term(r) if r else None
        ok = bool(n and lt and ((n[0] == "0" and st.z.lo(lt) >= n[1]) or (n[0] != "0" and st.z.implies(n[0], lt, 0))))
        ob("split_to", (t.get("sn") or nm)[:90], ok, "n %s <= len %s" % (interp._show_term(st, n) if n else "?", _rng(interp, st, lt) if lt else "?"))
        if record and n:
            interp.consumed[b] = n[1] if n[0] == "0" else st.z.lo(n[0])
            if interp.consumed[b] != -INF and interp.consumed[b] >= 1 and not nm.endswith("split_off"):
                interp.progress.add(b)      # at least one byte leaves the input buffer: a loop around this makes progress
        dt = fresh_dest()
        if lt:
            if n and n[0] != "0" and dt and nm.endswith("split_to"):
                st.z.eq(_len_term(dt), n[0], 0)
            lo_n = n[1] if n and n[0] == "0" else (st.z.lo(n[0]) if n else 0)
            st.z.kill(lt)
            st.z.set_range(lt, 0, LEN_MAX)
        return
    mput = re.fullmatch(r"bytes::(?:buf::)?BufMut::(put_\w+|put)", nm)
    if mput:
        # appending to a growable buffer: len += k (fixed-width puts), += len(src) (put_slice / put), += n (put_bytes)
        from .bytecount import PUT_FIXED
        meth = mput.group(1)
        r = referent(interp, st, args[0])
        if r:
            lt = _len_term(r)
            lo, hi = st.z.lo(lt), st.z.hi(lt)
            if meth in PUT_FIXED:
                alo = ahi = PUT_FIXED[meth]
            elif meth in ("put_slice", "put") and len(args) > 1:
                a = referent(interp, st, args[1])
                alo, ahi = (max(st.z.lo(_len_term(a)), 0), st.z.hi(_len_term(a))) if a else (0, INF)
                if alo == -INF:
                    alo = 0
            elif meth == "put_bytes" and len(args) > 2:
                alo, ahi = interp.range_of(st, args[2])
                alo = max(alo, 0) if alo != -INF else 0
            else:
                alo, ahi = 0, INF
            if alo == ahi and lt in st.z.terms():
                st.z.shift(lt, alo)
            elif lt in st.z.terms():
                st.z.shift_range(lt, alo, ahi)       # keeps `len >= pos recorded earlier`
                st.z.set_range(lt, 0, LEN_MAX)
            else:
                st.z.set_range(lt, alo, LEN_MAX)
        fresh_dest()
        return
    if re.fullmatch(r"std::vec::Vec::<T(, A)?>::extend_from_slice", nm):
        r, a = referent(interp, st, args[0]), referent(interp, st, args[1])
        if r:
            lt = _len_term(r)
            lo, hi = st.z.lo(lt), st.z.hi(lt)
            alo, ahi = (st.z.lo(_len_term(a)), st.z.hi(_len_term(a))) if a else (0, INF)
            st.z.kill(lt)
            nlo = max(lo, 0) + max(alo, 0) if lo != -INF else max(alo, 0)
            nhi = hi + ahi if (hi != INF and ahi != INF) else LEN_MAX
            st.z.set_range(lt, nlo, min(nhi, LEN_MAX))
        fresh_dest()
        return
    if re.fullmatch(r"std::vec::Vec::<T(, A)?>::(extend_from_slice|append|extend|resize|reserve|retain|retain_mut|dedup\w*|truncate|pop|sort\w*)", nm) or re.fullmatch(r"bytes::(BytesMut|BufMut)::\w+", nm):
        r = referent(interp, st, args[0])
        if r:
            lt = _len_term(r)
            lo = st.z.lo(lt)
            st.z.kill(lt)
            grow = re.search(r"(extend_from_slice|append|extend|reserve|put\w*)$", nm)
            st.z.set_range(lt, max(lo, 0) if grow and lo != -INF else 0, LEN_MAX)
        fresh_dest()
        return
    if re.fullmatch(r"std::vec::Vec::<T(, A)?>::(remove|swap_remove)", nm):
        r = referent(interp, st, args[0])
        ti = interp.term_of_operand(st, args[1])
        lt = _len_term(r) if r else None
        ok = bool(ti and lt and ((ti[0] == "0" and st.z.lo(lt) > ti[1]) or (ti[0] != "0" and st.z.implies(ti[0], lt, -1))))
        ob("vec-remove", (t.get("sn") or nm)[:90], ok, "index %s < %s" % (interp._show_term(st, ti) if ti else "?", _rng(interp, st, lt) if lt else "?"))
        if lt and lt in st.z.terms():
            st.z.shift(lt, -1)
            st.z.set_range(lt, 0, None)
        fresh_dest()
        return
    if re.fullmatch(r"std::vec::Vec::<T(, A)?>::insert", nm):
        r = referent(interp, st, args[0])
        ti = interp.term_of_operand(st, args[1])
        lt = _len_term(r) if r else None
        ok = bool(ti and lt and ((ti[0] == "0" and st.z.lo(lt) >= ti[1]) or (ti[0] != "0" and st.z.implies(ti[0], lt, 0))))
        ob("vec-insert", (t.get("sn") or nm)[:90], ok, "index %s <= %s" % (interp._show_term(st, ti) if ti else "?", _rng(interp, st, lt) if lt else "?"))
        if lt and lt in st.z.terms():
            st.z.shift(lt, 1)
        fresh_dest()
        return
    if re.fullmatch(r"std::vec::Vec::<T(, A)?>::(drain|split_off)|core::slice::<impl \[T\]>::(split_at|split_at_mut|copy_within|swap|chunks|chunks_mut|rchunks|array_chunks|rotate_left|rotate_right|select_nth_unstable\w*)", nm):
        ob("range-op", (t.get("sn") or nm)[:90], False, "range/index argument of %s is not tracked" % nm.split("::")[-1])
        havoc_mut_args()
        fresh_dest()
        return
    if re.fullmatch(r"core::slice::<impl \[T\]>::(copy_from_slice|clone_from_slice)", nm):
        a, c = referent(interp, st, args[0]), referent(interp, st, args[1])
        ok = bool(a and c and st.z.implies(_len_term(a), _len_term(c), 0) and st.z.implies(_len_term(c), _len_term(a), 0))
        ob("copy_from_slice", (t.get("sn") or nm)[:90], ok, "len %s == len %s" % (_rng(interp, st, _len_term(a)) if a else "?", _rng(interp, st, _len_term(c)) if c else "?"))
        fresh_dest()
        return
    if re.fullmatch(r"bytes::Buf::get_\w+", nm):
        ob("buf-get", (t.get("sn") or nm)[:90], False, "bytes::Buf::get_* panics when fewer bytes remain")
        havoc_mut_args()
        fresh_dest()
        return

    # ---------------------------------------------------------------- numeric helpers
    m = re.fullmatch(r"core::num::<impl (\w+)>::div_ceil", nm)
    if m:
        ra, rc = interp.range_of(st, args[0]), interp.range_of(st, args[1])
        ok = rc[0] > 0
        ob("div", (t.get("sn") or nm)[:90], ok, "divisor in [%s, %s]" % (rc[0], rc[1]))
        lo = hi = None
        if ok and ra[0] >= 0:
            lo = -(-ra[0] // rc[1]) if rc[1] != INF else 0
            hi = -(-ra[1] // rc[0]) if ra[1] != INF else None
        fresh_dest(lo, hi)
        return
    if nm in ("std::cmp::min", "std::cmp::Ord::min", "std::cmp::max", "std::cmp::Ord::max") or re.fullmatch(r"core::num::<impl \w+>::(min|max)", nm):
        ta, tc = interp.term_of_operand(st, args[0]), interp.term_of_operand(st, args[1])
        ra, rc = interp.range_of(st, args[0]), interp.range_of(st, args[1])
        is_min = nm.endswith("min")
        dt = fresh_dest(min(ra[0], rc[0]) if is_min else max(ra[0], rc[0]), min(ra[1], rc[1]) if is_min else max(ra[1], rc[1]))
        if dt:
            for tt in (ta, tc):
                if tt and tt[0] != "0":
                    if is_min:
                        st.z.add(dt, tt[0], 0)
                    else:
                        st.z.add(tt[0], dt, 0)
        return
    if nm == "std::cmp::Ord::clamp":
        # clamp(self, min, max) panics iff min > max
        rl, rh = interp.range_of(st, args[1]), interp.range_of(st, args[2])
        ok = rl[1] <= rh[0]
        ob("clamp", (t.get("sn") or nm)[:90], ok, "min in [%s, %s] <= max in [%s, %s]" % (_f(rl[0]), _f(rl[1]), _f(rh[0]), _f(rh[1])))
        fresh_dest(rl[0] if rl[0] != -INF else None, rh[1] if rh[1] != INF else None)
        return
    if nm in ("std::convert::From::from", "std::convert::Into::into"):
        ra = interp.range_of(st, args[0])
        ta = interp.term_of_operand(st, args[0])
        dty = int_type(interp.place_ty(dest) or "") if dest else None
        dt = fresh_dest()
        if dt and dty and ta and ra[0] != -INF and ra[1] != INF and ra[0] >= TYPE_RANGE[dty][0] and ra[1] <= TYPE_RANGE[dty][1]:
            if ta[0] == "0":
                st.z.set_range(dt, ta[1], ta[1])
            else:
                st.z.eq(dt, ta[0], 0)
        return
    if nm in ("std::convert::TryInto::try_into", "std::convert::TryFrom::try_from"):
        # slice -> array: Ok iff len == N
        r = referent(interp, st, args[0])
        mm = re.search(r"\[u8; (\d+)(_usize)?\]", ga)
        # integer -> integer: Ok whenever the value range of the source fits the target type (usize/u64 from u8/u16/u32 always)
        mi = re.fullmatch(r"\[(u8|u16|u32|u64|usize|i32|i64|isize), (u8|u16|u32|u64|usize|i32|i64|isize)\]", ga or "")
        if mi and dest and not dest.get("p"):
            tgt_ty, src_ty = mi.group(1), mi.group(2)
            lo_, hi_ = interp.range_of(st, args[0])
            dt_ = fresh_dest()
            if lo_ != -INF and hi_ != INF and lo_ >= TYPE_RANGE[tgt_ty][0] and hi_ <= TYPE_RANGE[tgt_ty][1]:
                st.tags["L%d" % dest["l"]] = OKN
                if dt_:
                    st.z.set_range(dt_ + ".v0.f0", lo_, hi_)
                    ta_ = interp.term_of_operand(st, args[0])
                    if ta_ and ta_[0] != "0":
                        st.z.eq(dt_ + ".v0.f0", ta_[0], 0)
            return
        fresh_dest()
        if r and mm and dest and not dest.get("p"):
            n = int(mm.group(1))
            lt = _len_term(r)
            if st.z.lo(lt) == n and st.z.hi(lt) == n:
                st.tags["L%d" % dest["l"]] = OKN
        return
    if re.fullmatch(r"core::num::<impl \w+>::(checked_sub|checked_add|checked_mul)", nm):
        ta, tc = interp.term_of_operand(st, args[0]), interp.term_of_operand(st, args[1])
        fresh_dest()
        if dest and not dest.get("p") and ta and tc and nm.endswith("checked_sub") and ta[0] != "0":
            # Some => b <= a
            if tc[0] == "0":
                st.ghost[dest["l"]] = ("fact", (("0", ta[0], -tc[1]),))
            else:
                st.ghost[dest["l"]] = ("fact", ((tc[0], ta[0], 0),))
        return
    if nm == "core::slice::<impl [T]>::get" or nm == "core::slice::<impl [T]>::get_mut":
        r = referent(interp, st, args[0])
        ti = interp.term_of_operand(st, args[1])
        fresh_dest()
        if dest and not dest.get("p") and r and ti and ti[0] != "0" and "usize" == (interp.lty(operand_local(args[1])) if operand_local(args[1]) is not None else "usize"):
            st.ghost[dest["l"]] = ("fact", ((ti[0], _len_term(r), -1),))
        return
    if nm in ("core::slice::<impl [T]>::first", "core::slice::<impl [T]>::last", "core::slice::<impl [T]>::split_first", "core::slice::<impl [T]>::split_last"):
        r = referent(interp, st, args[0])
        fresh_dest()
        if dest and not dest.get("p") and r:
            st.ghost[dest["l"]] = ("fact", (("0", _len_term(r), -1),))
        return

    # ---------------------------------------------------------------- iteration over integer ranges
    if nm == "std::iter::IntoIterator::into_iter":
        r = referent(interp, st, args[0])
        al = operand_local(args[0])
        keep_ref = st.refs.get(al) if al is not None else None
        dt = fresh_dest()
        if keep_ref and keep_ref.startswith(("chunks:", "iter:", "enum:")) and dest and not dest.get("p"):
            st.refs[dest["l"]] = keep_ref
        if r and dt:
            interp.copy_subterms(st, r, dt)
            for sfx in (".f0", ".f1"):
                if (r + sfx) in st.z.terms():
                    st.z.eq(dt + sfx, r + sfx, 0)
        return
    if nm == "std::iter::Iterator::next":
        r = referent(interp, st, args[0])
        dt = fresh_dest()
        mm = re.fullmatch(r"L(\d+)", r or "")
        if mm and dt and st.refs.get(int(mm.group(1)), "").startswith("enum:"):
            # Enumerate<slice::Iter>: the index of a yielded element is below the slice's length
            src = st.refs[int(mm.group(1))][5:]
            pay = dt + ".v1.f0.f0"
            st.z.kill(pay)
            st.z.set_range(pay, 0, LEN_MAX)
            st.z.add(pay, _len_term(src), -1)
        if mm and dt and st.refs.get(int(mm.group(1)), "").startswith("chunks:"):
            n = int(st.refs[int(mm.group(1))][7:])
            st.z.set_range("len(%s.v1.f0)" % dt, n, n)
        if r and dt and re.search(r"ops::Range<(usize|u8|u16|u32|u64|i32)>", ga):
            start, end = r + ".f0", r + ".f1"
            pay = dt + ".v1.f0"
            st.z.kill(pay)
            lo = st.z.lo(start)
            if lo != -INF:
                st.z.set_range(pay, lo, None)
            st.z.add(pay, end, -1)
            # start advances
            st.z.kill(start)
            if lo != -INF:
                st.z.set_range(start, lo, None)
            st.z.add(start, end, 0)
        return

    # ---------------------------------------------------------------- local (workspace) callees
    key = f.get("rkey") or f.get("key")
    if key and key in interp.prog.ix:
        _local_call(interp, st, t, b, record, key)
        return
    if f.get("key") and interp.prog.impls_of_trait_item.get(f["key"]):
        # trait method on a generic/dyn receiver with local impls: havoc, result fresh
        havoc_mut_args()
        fresh_dest()
        return
    if "ptr" in f:
        havoc_mut_args()
        fresh_dest()
        return
    # ---------------------------------------------------------------- reviewed non-panicking externals
    if any(PURE.fullmatch(n) for n in names):
        havoc_mut_args()
        fresh_dest()
        return
    interp.unmodelled.add(nm)
    ob("unmodelled", nm[:90], False, "external callee has no model (fail closed)")
    havoc_mut_args()
    fresh_dest()


def _lin_diff(interp, st, a, b):
    """a - b when both have linear forms over the same variables (None otherwise)."""
    la = st.lin.get(a) or ((interp.rep(st, a),), 0)
    lb = st.lin.get(b) or ((interp.rep(st, b),), 0)
    if sorted(la[0]) != sorted(lb[0]):
        return None
    return la[1] - lb[1]


def _rooted_t(term, prefix):
    from .absint import _rooted
    return _rooted(term, prefix)


def _succ_names(nm):
    if nm.endswith("::ok") or nm.endswith("Option::<T>::map") or "Option" in nm and not nm.endswith(("ok_or", "ok_or_else")):
        return frozenset(["Some"])
    return frozenset(["Ok"])


def _fail_names(nm):
    if nm.endswith("::ok") or ("Option" in nm and not nm.endswith(("ok_or", "ok_or_else"))):
        return frozenset(["None"])
    return frozenset(["Err"])


def _rng(interp, st, term):
    return "%s∈[%s,%s]" % (interp.pretty(term), _f(st.z.lo(term)), _f(st.z.hi(term)))


def _f(x):
    if x == INF:
        return "+inf"
    if x == -INF:
        return "-inf"
    return str(int(x))


def _bind_payload(interp, st, src, dest):
    """After unwrap: facts recorded on the payload place (src.v1.f0 / src.v0.f0) carry to dest."""
    if not src or dest is None:
        return
    dt = interp.canon(st, dest)
    for v in (".v1.f0", ".v0.f0"):
        if (src + v) in st.z.terms():
            st.z.eq(dt, src + v, 0)
            interp.copy_subterms(st, src + v, dt)


def _local_call(interp, st, t, b, record, key):
    """Calls into the workspace: havoc what the callee may mutate, use summaries for integer results, check
    lifted preconditions, re-establish struct invariants the callee maintains."""
    f = t["f"]
    args = t["args"]
    dest = t.get("dest")
    prog = interp.prog
    summ = getattr(prog, "_absint_summaries", {})
    if record and (summ.get(key) or {}).get("consuming"):
        interp.progress.add(b)
    pre = getattr(prog, "_absint_requires", {}).get(key)
    if pre:
        for (desc, cons) in pre:
            ok = True
            for (a, bb, c) in cons:
                ta = _subst(interp, st, a, args)
                tb = _subst(interp, st, bb, args)
                if ta is None or tb is None or not st.z.implies(ta, tb, c):
                    ok = False
            interp.oblige(b, record, "precondition", "%s requires %s" % (prog.name(key).split("::")[-1], desc), ok, "checked at the call site")
    for a in args:
        p = a.get("c") or a.get("m")
        if p is None or p.get("p"):
            continue
        l = p["l"]
        ty = interp.lty(l)
        if ty.startswith("&mut"):
            tgt = st.refs.get(l, "L%d.*" % l)
            if re.match(r"&mut \[", ty):
                continue
            # a byte buffer handed to a workspace encoder grows by at most that encoder's own byte bound
            grow = None
            bc = prog.__dict__.get("_bytecount")
            if bc is not None and re.match(r"&mut (std::vec::Vec<u8(, std::alloc::Global)?>|bytes::BytesMut|[A-Z]\w*)$", ty):
                old_lo, old_hi = st.z.lo(_len_term(tgt)), st.z.hi(_len_term(tgt))
                g = bc.bound(key, args.index(a) + 1)
                if g != INF and old_hi != INF:
                    grow = (max(old_lo, 0) if old_lo != -INF else 0, old_hi + g)
            lt_keep = None
            if bc is not None and re.match(r"&mut (std::vec::Vec<u8(, std::alloc::Global)?>|bytes::BytesMut|[A-Z]\w*)$", ty) and _len_term(tgt) in st.z.terms() and g != INF:
                # an encoder with a byte bound only appends (the byte-count analysis rejects every other buffer method)
                z2 = st.z.copy()
                z2.shift_range(_len_term(tgt), 0, g)
                lt_keep = {k: v for k, v in z2.e.items() if _len_term(tgt) in k}
            havoc_place(interp, st, tgt)
            if lt_keep:
                for (a_, b_), w_ in lt_keep.items():
                    st.z.add(a_, b_, w_)
            if grow:
                st.z.set_range(_len_term(tgt), grow[0], grow[1])
            if "BgpReader<" in ty:
                st.z.add(tgt + ".f1", "len(%s.f0)" % tgt, 0)
                st.z.set_range(tgt + ".f1", 0, LEN_MAX)
    lo = hi = None
    s = summ.get(key) or {}
    sp = _specialised(interp, st, key, args)
    if sp is not None:
        s = sp
    if "" in s.get("ranges", {}):
        lo, hi, _ = s["ranges"][""]
    dt = None
    if dest is not None:
        dt = interp.assign_fresh(st, dest, lo, hi)
    if dt and s.get("tags"):
        st.tags[dt] = frozenset(s["tags"])
    if dt:
        for sfx, (l2, h2, vs) in s.get("ranges", {}).items():
            if sfx == "":
                if vs:
                    st.vals[dt] = vs
                continue
            st.z.set_range(dt + sfx, l2, h2)
            if vs:
                st.vals[dt + sfx] = vs
        post = []
        for (a, b2, c) in s.get("post_ok", []):
            ta, tb = _subst(interp, st, a, args), _subst(interp, st, b2, args)
            if ta and tb:
                post.append((ta, tb, c))
        if post and dest is not None and not dest.get("p"):
            st.ghost[dest["l"]] = ("fact", tuple(post))


def _specialised(interp, st, key, args):
    """Summary of a small workspace callee re-analysed with its constant integer arguments bound (one level of
    context sensitivity: `Attribute::new_with_value(Attribute::ORIGIN, 0)` is Some because canonical_flags(1) is)."""
    prog = interp.prog
    consts = []
    for i, a in enumerate(args):
        tt = interp.term_of_operand(st, a)
        kk = a.get("k") or {}
        if kk.get("v") is not None and not int_type(kk.get("ty", "")) and kk.get("ty") not in ("bool", "char"):
            # a constant of a newtype over an integer (`Family::IPV4`): the wrapped field is known
            consts.append((i + 1, kk["v"], ".f0"))
            continue
        if tt and tt[0] == "0" and isinstance(tt[1], int):
            consts.append((i + 1, tt[1]))
        else:
            l = operand_local(a)
            if l is not None and interp.lty(l).startswith("&"):
                rr = referent(interp, st, a)
                if rr:
                    lo, hi = st.z.lo(rr + ".f0"), st.z.hi(rr + ".f0")
                    if lo == hi and lo not in (INF, -INF):
                        consts.append((i + 1, int(lo), ".*.f0"))
                        continue
            if l is not None:
                lo, hi = st.z.lo("L%d" % l), st.z.hi("L%d" % l)
                if lo == hi and lo not in (INF, -INF):
                    consts.append((i + 1, int(lo)))
    if not consts:
        return None
    bk = prog.body_key(key) if hasattr(prog, "body_key") else key
    f = prog.ix.get(key)
    if f is None or f.get("nblocks", 0) > 120 or f.get("kind") == "coroutine":
        return None
    depth = getattr(prog, "_absint_spec_depth", 0)
    if depth >= 3:
        return None
    cache = prog.__dict__.setdefault("_absint_spec", {})
    ck = (key, tuple(consts), interp.profile)
    if ck in cache:
        return cache[ck]
    cache[ck] = None            # recursion guard
    from .absint import Interp, summarise
    prog._absint_spec_depth = depth + 1
    try:
        assume = []
        for c_ in consts:
            i, v = c_[0], c_[1]
            sfx = c_[2] if len(c_) > 2 else ""
            assume += [("L%d%s" % (i, sfx), "0", v), ("0", "L%d%s" % (i, sfx), -v)]
        it = Interp(prog, key, interp.profile, assume=assume)
        if len(it.fv.blocks) > 120:
            return None
        it.run()
        cache[ck] = summarise(it) if it.converged else None
    except Exception:
        cache[ck] = None
    finally:
        prog._absint_spec_depth = depth
    return cache[ck]


def _subst(interp, st, term, args):
    """Map a callee-side term over parameters (P1, len(P1), P1.*.f1 ...) to the caller's term."""
    if term == "0":
        return "0"
    m = re.match(r"(len\(|pos\()?P(\d+)(.*?)(\))?$", term)
    if not m:
        return None
    i = int(m.group(2)) - 1
    if i >= len(args):
        return None
    a = args[i]
    k = a.get("k")
    if k is not None:
        return None
    p = a.get("c") or a.get("m")
    base = interp.canon(st, p)
    rest = m.group(3)
    if rest.startswith(".*") and not p.get("p") and p["l"] in st.refs:
        base = st.refs[p["l"]]
        rest = rest[2:]
    t = base + rest
    if m.group(1) == "len(":
        return _len_term(t)
    if m.group(1) == "pos(":
        return "pos(%s)" % t
    return t
