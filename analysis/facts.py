"""Program model over the extracted facts: functions (MIR bodies), ADTs, call graph."""
import json
import os
import re
from collections import defaultdict


class Program:
    def __init__(self, dirs, inline=True):
        self.dirs = dirs
        self.transparent = set()   # keys of helpers spliced into their callers (analysis/inline.py)
        self.adopted = defaultdict(list)   # caller key -> closures of helpers spliced into it
        self.host_of = {}          # transparent helper key -> one caller key (for attribution)
        self.async_helpers = defaultdict(list)   # root fn key -> new async fns it calls (adopted, not spliced)
        self.ix = {}            # key -> index record
        self.by_name = defaultdict(list)  # display name -> [key]
        self.adts = {}          # key -> adt record
        self.adt_by_name = {}
        self._fn_cache = {}
        self._files = {}
        self.crate_of = {}
        self.impls_of_trait_item = defaultdict(list)  # trait item key -> [impl fn key]
        self.children = defaultdict(list)  # root fn key -> closure/coroutine keys
        for crate, d in dirs.items():
            meta = os.path.join(d, crate + ".meta.jsonl")
            self._files[crate] = os.path.join(d, crate + ".fns.jsonl")
            with open(meta) as fh:
                for line in fh:
                    r = json.loads(line)
                    t = r.get("t")
                    if t == "ix":
                        self.ix[r["key"]] = r
                        self.by_name[r["name"]].append(r["key"])
                        self.crate_of[r["key"]] = crate
                        if r.get("trait_item"):
                            self.impls_of_trait_item[r["trait_item"]].append(r["key"])
                        if r.get("root"):
                            self.children[r["root"]].append(r["key"])
                    elif t == "adt":
                        # first writer wins (same ADT may be dumped by several crates)
                        if r["key"] not in self.adts or self._is_local_dump(r, crate):
                            self.adts[r["key"]] = r
                            self.adt_by_name[r["name"]] = r
        self._callers = None
        # canonical display names: the defining crate's own rendering of the path
        self.canon = {k: r["name"] for k, r in self.ix.items()}
        self.canon_adt = {k: r["name"] for k, r in self.adts.items() if k.split("::")[0] in dirs}
        self.adt_by_name = {r["name"]: r for r in self.adts.values()}
        for r in self.ix.values():
            for c in r["calls"]:
                self._canon_callee(c["f"])
        if inline:
            self._setup_transparent()

    def _setup_transparent(self):
        """Functions that are not in the reviewed baseline are analysed as part of their callers."""
        from . import inline as _inl
        base = _inl.load_baseline()
        if base is None:
            return
        newfns = {k for k, r in self.ix.items() if r["kind"] in ("fn", "method") and r["name"] not in base and "::tests::" not in r["name"]}
        # a function that was *moved* (free function -> method of the type it inspects, other module, other crate) is still the
        # reviewed function: a new name whose last segment is that of exactly one baseline function that no longer exists (and
        # is the only new function of that name) keeps the baseline name, so the rules that are anchored on it keep their subject
        current = {r["name"] for r in self.ix.values()}
        gone = defaultdict(list)
        for b in base:
            if b not in current and "::tests::" not in b and "{closure" not in b:
                gone[b.split("::")[-1]].append(b)
        fresh = defaultdict(list)
        for k in newfns:
            fresh[self.ix[k]["name"].split("::")[-1]].append(k)
        self.moved = {}
        for last, ks in fresh.items():
            if len(ks) == 1 and len(gone.get(last, [])) == 1 and len(last) >= 6:
                k, b = ks[0], gone[last][0]
                old = self.ix[k]["name"]
                self.moved[b] = old
                for kk, r in self.ix.items():
                    if r["name"] == old or r["name"].startswith(old + "::"):
                        nn = b + r["name"][len(old):]
                        if kk in self.by_name.get(r["name"], []):
                            self.by_name[r["name"]].remove(kk)
                        r["name"] = nn
                        self.by_name[nn].append(kk)
                        self.canon[kk] = nn
                newfns.discard(k)
        if self.moved:
            for r in self.ix.values():
                for c in r["calls"]:
                    self._canon_callee(c["f"])
        cand = {k for k in newfns if not self.coroutine_of(k)}
        # new `async fn`s cannot be spliced (their body is a coroutine of its own); they are *adopted*: their bodies
        # count as nested bodies of every function that calls them (with_closures), so that rules which look at
        # "the body of X and everything nested in it" still see the moved statements
        self.async_helpers = defaultdict(list)
        for k, r in self.ix.items():
            for c in r["calls"]:
                ck = c["f"].get("rkey") or c["f"].get("key")
                if ck in newfns and ck != k and self.coroutine_of(ck):
                    root = r.get("root") or k
                    if ck not in self.async_helpers[root]:
                        self.async_helpers[root].append(ck)
                    bodies = [self.coroutine_of(ck)] + [c2 for c2 in self.children.get(ck, [])]
                    self.adopted[k] = sorted(set(self.adopted[k]) | set(bodies))
                    self.host_of.setdefault(ck, k)
        if not cand:
            return
        # only helpers that are actually called directly by somebody (entry points stay functions of their own)
        called = set()
        for k, r in self.ix.items():
            for c in r["calls"]:
                ck = c["f"].get("rkey") or c["f"].get("key")
                if ck in cand and ck != k:
                    called.add(ck)
        self.transparent = called
        # merge the index summaries of the helpers into their callers, innermost first (bounded rounds)
        for _ in range(_inl.MAX_DEPTH):
            changed = False
            for k, r in self.ix.items():
                hs = [c for c in r["calls"] if (c["f"].get("rkey") or c["f"].get("key")) in self.transparent and (c["f"].get("rkey") or c["f"].get("key")) != k]
                if not hs:
                    continue
                for c in hs:
                    hk = c["f"].get("rkey") or c["f"].get("key")
                    h = self.ix[hk]
                    r["calls"] = [x for x in r["calls"] if x is not c] + [x for x in h["calls"] if (x["f"].get("rkey") or x["f"].get("key")) != hk]
                    for fld in ("aggs", "fnrefs", "closures"):
                        r[fld] = sorted(set(r.get(fld, [])) | set(h.get(fld, [])))
                    self.adopted[k] = sorted(set(self.adopted[k]) | {c2 for c2 in self.children.get(hk, [])} | set(self.adopted.get(hk, [])))
                    self.host_of.setdefault(hk, k)
                    changed = True
            if not changed:
                break
        self._callers = None

    def host(self, key):
        """The function a body is analysed as part of: a transparent helper (or a closure of one) belongs to its caller."""
        seen = 0
        root = self.ix[key].get("root") or key
        while root in self.host_of and seen < 8:
            h = self.host_of[root]
            root = self.ix[h].get("root") or h
            seen += 1
        return root

    def _canon_callee(self, f):
        k = f.get("key")
        if k in self.canon:
            f["name"] = self.canon[k]
        k = f.get("rkey")
        if k in self.canon:
            f["rname"] = self.canon[k]

    def _canon_fn(self, fn):
        for b in fn["blocks"]:
            t = b["t"]
            if t["t"] in ("call", "tailcall") and "key" in t.get("f", {}):
                self._canon_callee(t["f"])
                for a in t["args"]:
                    self._canon_op(a)
            for s in b["s"]:
                rv = s.get("rv")
                if not rv:
                    continue
                if rv["r"] == "agg":
                    if rv.get("k") == "adt" and rv["adt"] in self.canon_adt:
                        rv["adtn"] = self.canon_adt[rv["adt"]]
                    for x in rv["fields"]:
                        self._canon_op(x)
                elif rv["r"] in ("use", "cast", "repeat"):
                    self._canon_op(rv["o"])

    def _canon_op(self, o):
        k = o.get("k")
        if k and k.get("fn") in self.canon:
            k["fnn"] = self.canon[k["fn"]]

    @staticmethod
    def _is_local_dump(r, crate):
        return r["key"].startswith(crate + "::")

    # ------------------------------------------------------------------ functions
    def fn_raw(self, key):
        f = self._fn_cache.get(key)
        if f is None:
            r = self.ix[key]
            with open(self._files[self.crate_of[key]], "rb") as fh:
                fh.seek(r["off"])
                f = json.loads(fh.read(r["len"]))
            self._canon_fn(f)
            self._fn_cache[key] = f
        return f

    def fn(self, key, _stack=(), _depth=0):
        """The MIR body of `key`, with transparent helpers spliced in."""
        if not self.transparent:
            return self.fn_raw(key)
        if not _stack:
            f = self._spliced.get(key) if hasattr(self, "_spliced") else None
            if f is None:
                if not hasattr(self, "_spliced"):
                    self._spliced = {}
                from . import inline as _inl
                f = _inl.splice(self, self.fn_raw(key))
                self._spliced[key] = f
            return f
        from . import inline as _inl
        return _inl.splice(self, self.fn_raw(key), _stack, _depth)

    def find(self, pattern, kind=None):
        """Keys of functions whose display name matches the regex `pattern` (fullmatch)."""
        rx = re.compile(pattern)
        out = []
        for name, keys in self.by_name.items():
            if rx.fullmatch(name):
                for k in keys:
                    if kind is None or self.ix[k]["kind"] == kind:
                        out.append(k)
        return sorted(out)

    def one(self, pattern, kind=None):
        ks = self.find(pattern, kind)
        if len(ks) != 1:
            raise AnchorError("anchor %r matched %d functions%s" % (pattern, len(ks), (": " + ", ".join(self.ix[k]["name"] for k in ks[:5])) if ks else ""))
        return ks[0]

    def name(self, key):
        r = self.ix.get(key)
        return r["name"] if r else key

    def with_closures(self, key):
        """key plus every closure/coroutine body nested in it (transitively by `root`)."""
        root = self.ix[key].get("root") or key
        out = [key]
        for a in self.adopted.get(key, []):
            if a not in out:
                out.append(a)
        # children are registered by root; select those whose parent chain passes through key
        for c in self.children.get(root, []):
            if c == key:
                continue
            p = self.ix[c].get("parent")
            seen = 0
            ok = False
            while p and seen < 16:
                if p == key:
                    ok = True
                    break
                p = self.ix.get(p, {}).get("parent")
                seen += 1
            if ok:
                out.append(c)
        for k2 in list(out):
            for a in self.adopted.get(k2, []):
                if a not in out:
                    out.append(a)
        return out

    def coroutine_of(self, key):
        """For an `async fn` key: the key of its coroutine body, else None."""
        for c in self.children.get(key, []):
            if self.ix[c]["kind"] == "coroutine" and self.ix[c].get("parent") == key:
                return c
        return None

    def body_key(self, key):
        """The body that carries the logic: the coroutine for async fns, else the fn itself."""
        return self.coroutine_of(key) or key

    # ------------------------------------------------------------------ call graph
    def callees(self, key, include_closures=True):
        """Resolved callee keys of `key` (plus fn refs and closures it builds)."""
        r = self.ix[key]
        out = set()
        for c in r["calls"]:
            f = c["f"]
            k = f.get("rkey") or f.get("key")
            if k:
                out.add(k)
                if f.get("rk") == "virtual" or ("rk" not in f and f.get("trait")):
                    for imp in self.impls_of_trait_item.get(f.get("key"), []):
                        out.add(imp)
            if f.get("rkey2"):
                out.add(f["rkey2"])
        if include_closures:
            out.update(r.get("closures", []))
            out.update(r.get("fnrefs", []))
        return out

    def reachable(self, roots, stop=None):
        """Local functions reachable from roots over resolved calls, fn refs and closures."""
        seen = set()
        work = list(roots)
        while work:
            k = work.pop()
            if k in seen or k not in self.ix:
                continue
            if stop and stop(k):
                continue
            seen.add(k)
            for c in self.callees(k):
                if c not in seen and c in self.ix:
                    work.append(c)
        return seen

    def callers(self, key):
        if self._callers is None:
            cs = defaultdict(set)
            for k in self.ix:
                for c in self.callees(k):
                    cs[c].add(k)
            self._callers = cs
        return self._callers.get(key, set())

    def call_sites(self, key, callee_rx):
        """(block index, terminator) of calls in `key` whose resolved or declared name matches."""
        rx = re.compile(callee_rx)
        f = self.fn(key)
        out = []
        for bi, b in enumerate(f["blocks"]):
            t = b["t"]
            if t["t"] == "call" and "f" in t and "key" in t["f"]:
                if rx.fullmatch(t["f"].get("rname") or "") or rx.fullmatch(t["f"]["name"]):
                    out.append((bi, t))
        return out

    # ------------------------------------------------------------------ ADTs
    def adt(self, name_rx):
        rx = re.compile(name_rx)
        hits = [r for n, r in self.adt_by_name.items() if rx.fullmatch(n)]
        if len(hits) != 1:
            raise AnchorError("ADT anchor %r matched %d" % (name_rx, len(hits)))
        return hits[0]

    def variant_name(self, adt_key, discr):
        a = self.adts.get(adt_key)
        if not a:
            return None
        for v in a["variants"]:
            if v["d"] == discr:
                return v["n"]
        return None


class AnchorError(Exception):
    pass


def callee_name(t):
    """Best display name of a call terminator's callee (resolved if available)."""
    f = t.get("f", {})
    rn = f.get("rname")
    if rn and rn.startswith("rustybgp"):
        return rn
    return f.get("name") or rn or "<fnptr>"


def callee_names(t):
    f = t.get("f", {})
    return [n for n in (f.get("rname"), f.get("name")) if n]


def short(name):
    """Strip generic noise for display: keep last two path segments."""
    n = re.sub(r"<[^<>]*>", "", name)
    n = re.sub(r"<[^<>]*>", "", n)
    parts = [p for p in n.split("::") if p]
    return "::".join(parts[-2:]) if parts else name
