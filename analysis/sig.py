"""Semantic signatures of small accessor functions: which named constants, fields and callees they
(transitively) touch.  Used to recognise *what* a comparator step / accessor reads without relying on
its name."""
from .cfg import FnView


def fn_tokens(prog, key, depth=3, _seen=None):
    """Set of tokens: 'const:<def path>', 'field:<name>', 'call:<display name>' for `key` and its local
    callees down to `depth`."""
    _seen = _seen if _seen is not None else set()
    if key in _seen or key not in prog.ix:
        return set()
    _seen.add(key)
    toks = set()
    f = prog.fn(key)
    for b in f["blocks"]:
        if b["cl"]:
            continue
        for s in b["s"]:
            if "rv" in s:
                _scan(s["rv"], toks)
                _scan_place(s["p"], toks)
        t = b["t"]
        if t["t"] == "call":
            for a in t["args"]:
                _scan_op(a, toks)
            fn = t.get("f", {})
            for n in (fn.get("rname"), fn.get("name")):
                if n:
                    toks.add("call:" + n)
            if depth > 0:
                for k in (fn.get("rkey"), fn.get("key"), fn.get("rkey2")):
                    if k and k in prog.ix:
                        toks |= fn_tokens(prog, k, depth - 1, _seen)
        elif t["t"] == "switch":
            _scan_op(t["o"], toks)
    if depth > 0:
        for c in prog.ix[key].get("closures", []):
            toks |= fn_tokens(prog, c, depth - 1, _seen)
    return toks


def _scan_place(p, toks):
    for e in p.get("p") or []:
        if isinstance(e, dict) and "f" in e and e.get("n"):
            toks.add("field:" + e["n"])
        if isinstance(e, dict) and "d" in e:
            toks.add("variant:" + e["d"])


def _scan_op(o, toks):
    if "c" in o:
        _scan_place(o["c"], toks)
    elif "m" in o:
        _scan_place(o["m"], toks)
    elif "k" in o:
        k = o["k"]
        if k.get("def"):
            toks.add("const:" + k["def"])


def _scan(rv, toks):
    r = rv["r"]
    if r in ("use", "repeat", "cast"):
        _scan_op(rv["o"], toks)
    elif r in ("ref", "discr", "rawptr"):
        _scan_place(rv["p"], toks)
        if r == "discr" and rv.get("adt"):
            toks.add("discr:" + rv["adt"])
    elif r == "bin":
        _scan_op(rv["a"], toks)
        _scan_op(rv["b"], toks)
    elif r == "un":
        _scan_op(rv["a"], toks)
    elif r == "agg":
        if rv.get("k") == "adt":
            toks.add("agg:%s::%s" % (rv.get("adtn"), rv.get("v")))
        for x in rv["fields"]:
            _scan_op(x, toks)
