"""Shared helpers for rule modules."""
import re

from .cfg import FnView, Renderer, walk, show, strip
from .facts import callee_names, short

_fv_cache = {}


def view(prog, key):
    fv = _fv_cache.get((id(prog), key))
    if fv is None:
        fv = FnView(prog, key)
        _fv_cache[(id(prog), key)] = fv
    return fv


def view_deep(prog, key, only=None):
    """FnView of `key` with directly called closures and Option/Result combinators expanded in place (analysis/inline.py);
    only=("call",) expands the directly called closures and nothing else."""
    ck = (id(prog), key, "deep", only)
    fv = _fv_cache.get(ck)
    if fv is None:
        from .inline import deep_splice
        fv = FnView(prog, key, f=deep_splice(prog, prog.fn(key), only=only))
        _fv_cache[ck] = fv
    return fv


def crate_fns(prog, crate):
    """Bodies of a crate; helpers that are spliced into their callers (facts.Program.transparent) are not listed on their own."""
    pre = crate + "::"
    return sorted(k for k in prog.ix if k.startswith(pre) and k not in prog.transparent)


def root_name(prog, key):
    return prog.name(prog.host(key))


def last_field(place):
    """Name of the last field projection of a place, or None."""
    for e in reversed(place.get("p") or []):
        if isinstance(e, dict) and "f" in e:
            return e.get("n") or str(e["f"])
        if e == "*" or (isinstance(e, dict) and "d" in e):
            continue
        return None
    return None


def field_path(place):
    return [e.get("n") or str(e["f"]) for e in (place.get("p") or []) if isinstance(e, dict) and "f" in e]


def field_writes(fv, name):
    """(block, stmt index, stmt) of assignments whose destination's last field is `name`."""
    out = []
    for bi in sorted(fv.live):
        for si, s in enumerate(fv.blocks[bi]["s"]):
            if "rv" in s and last_field(s["p"]) == name and (s["p"].get("p") or [])[-1] != "*":
                out.append((bi, si, s))
    return out


def call_name_is(t, rx):
    return any(rx.fullmatch(n) for n in callee_names(t))


def calls_matching(fv, pattern):
    rx = re.compile(pattern)
    return fv.calls(rx)


def arg_expr(fv, t, i, depth=20, through_names=False):
    return Renderer(fv, depth=depth, through_names=through_names).operand(t["args"][i], depth)


def expr_calls(e):
    return [x[1] for x in walk(e) if isinstance(x, tuple) and x and x[0] == "call"]


def expr_fields(e):
    return [x[2] for x in walk(e) if isinstance(x, tuple) and x and x[0] == "field"]


def expr_vars(e):
    return [x[1] for x in walk(e) if isinstance(x, tuple) and x and x[0] == "var"]


def agg_field(s, name):
    """Operand of field `name` in an ADT aggregate statement."""
    rv = s["rv"]
    fn = rv.get("fn") or []
    if name in fn:
        return rv["fields"][fn.index(name)]
    return None


def const_of(op):
    k = op.get("k") if isinstance(op, dict) else None
    if k is not None:
        return k.get("v")
    return None


def returns_value_exprs(fv, depth=20):
    """Rendered expressions assigned to the return place."""
    rend = Renderer(fv, depth=depth)
    out = []
    for bi, si, s in fv.defs().get(0, []):
        if bi not in fv.live:
            continue
        if si == "t":
            out.append((bi, rend.call_expr(s, depth, bi)))
        else:
            out.append((bi, rend.rvalue(s["rv"], depth)))
    return out


def loops(fv):
    """Natural loops: list of (head, set(body blocks), [back-edge sources])."""
    out = {}
    for b in fv.live:
        for l, s in fv.succ[b]:
            if fv.dominates(s, b):
                # back edge b -> s
                body = {s, b}
                work = [b]
                while work:
                    x = work.pop()
                    if x == s:
                        continue
                    for _, p in fv.pred[x]:
                        if p not in body and p in fv.live:
                            body.add(p)
                            work.append(p)
                h = out.setdefault(s, (set(), []))
                h[0].update(body)
                h[1].append(b)
    return [(h, body, backs) for h, (body, backs) in sorted(out.items())]


def loop_cond_exits(fv, head, body):
    """Successors outside the body of the loop's own condition test (first branching block on the
    straight-line path from the header)."""
    b, steps = head, 0
    while steps < 12:
        ss = fv.succ[b]
        outs = [s for l, s in ss if s not in body]
        if len(ss) >= 2 or outs:
            return outs
        if not ss:
            return []
        b = ss[0][1]
        steps += 1
    return []


def remove_while_indexing(fv):
    """Sites of the idiom `while i != v.len() { if cond { v.remove(i) } else { i += 1 } }`: returns
    [(remove_block, index_local, bad_increment_block or None)].  After `v.remove(i)` the next element has moved into
    slot i, so an increment of i on a path from the remove back to the loop head skips it."""
    import re as _re
    out = []
    lps = loops(fv)
    for bi, t in fv.calls(_re.compile(r".*Vec::<T(, A)?>::(remove|swap_remove)$")):
        idx = t["args"][1].get("c") or t["args"][1].get("m")
        if not idx or idx.get("p"):
            continue
        # resolve copies: the index operand is usually a temporary copy of the loop variable
        il = idx["l"]
        src = il
        for b2, si, s in fv.defs().get(il, []):
            if si != "t" and s["rv"]["r"] == "use":
                p = s["rv"]["o"].get("c") or s["rv"]["o"].get("m")
                if p and not p.get("p"):
                    src = p["l"]
        inner = [(h, body) for h, body, backs in lps if bi in body]
        if not inner:
            continue
        h, body = min(inner, key=lambda x: len(x[1]))
        bad = None
        after = fv.reach_after(bi, [h]) & body
        for b in sorted(after):
            for s in fv.blocks[b]["s"]:
                rv = s.get("rv")
                if rv and rv["r"] == "bin" and rv["op"].startswith("Add"):
                    la = (rv["a"].get("c") or rv["a"].get("m") or {}).get("l")
                    if la == src and (rv["b"].get("k") or {}).get("v") == 1:
                        bad = b
        out.append((bi, src, bad))
    return out


def mutating_short_circuit_closures(prog, fv):
    """Closures handed to a short-circuiting iterator method (any / all / find / position / find_map) that mutate
    their argument: the method stops at the first hit, so the mutation reaches only a prefix of the elements.
    Returns [(block, method, closure key, what)]."""
    import re as _re
    out = []
    for bi, t in fv.calls(_re.compile(r".*Iterator::(any|all|find|position|find_map|rposition)$")):
        meth = t["f"]["name"].split("::")[-1]
        for a in t["args"]:
            p = a.get("m") or a.get("c")
            if not p or p.get("p") or "{closure@" not in fv.f["locals"][p["l"]]:
                continue
            ck = None
            for b2, si, s2 in fv.defs().get(p["l"], []):
                if si != "t" and s2["rv"]["r"] == "agg" and s2["rv"].get("k") == "closure":
                    ck = s2["rv"]["def"]
            if not ck or ck not in prog.ix:
                continue
            cf = prog.fn(ck)
            what = None
            # calls of `&mut self` methods on the element, or stores through the element reference
            for blk in cf["blocks"]:
                tt = blk["t"]
                if tt["t"] == "call":
                    k2 = tt["f"].get("rkey") or tt["f"].get("key")
                    if k2 in prog.ix and prog.fn(k2)["argc"] >= 1 and prog.fn(k2)["locals"][1].startswith("&mut"):
                        what = "calls %s" % prog.name(k2).split("::")[-1]
                for s3 in blk["s"]:
                    if "rv" in s3 and s3["p"].get("p") and s3["p"]["l"] <= cf["argc"] and "*" in [x for x in s3["p"]["p"] if isinstance(x, str)]:
                        what = what or "writes through its argument"
            if what:
                out.append((bi, meth, ck, what))
    return out


def var_def_expr(fv, name, depth=8, at=None):
    """Rendered definition of a named local with exactly one live definition (else None).  With `at`, several locals may
    share the name (one per scope): the definition that dominates block `at` most closely is taken."""
    ls = [l for l, n in fv.local_name.items() if n == name]
    ds = [d for l in ls for d in fv.defs().get(l, []) if d[0] in fv.live]
    if at is not None and len(ds) > 1:
        per_local = {}
        for l in ls:
            dl = [d for d in fv.defs().get(l, []) if d[0] in fv.live]
            if len(dl) == 1 and (dl[0][0] == at or fv.dominates(dl[0][0], at)):
                per_local[l] = dl[0]
        ds = list(per_local.values())
        if len(ds) > 1:
            # the closest dominating definition: the one every other candidate dominates
            best = [d for d in ds if all(d is o or fv.dominates(o[0], d[0]) for o in ds)]
            ds = best[:1]
    if len(ds) != 1:
        return None
    bi, si, st = ds[0]
    rend = Renderer(fv, depth=depth)
    return rend.call_expr(st, depth, bi) if si == "t" else rend.rvalue(st["rv"], depth)


def deep_calls(fv, e, depth=3, at=None):
    """Callee names mentioned by `e`, looking through named locals with a single definition (hoisted `let`s)."""
    out = list(expr_calls(e))
    if depth <= 0:
        return out
    for v in set(expr_vars(e)):
        d = var_def_expr(fv, v, at=at)
        if d is not None and not (isinstance(d, tuple) and d and d[0] == "var" and d[1] == v):
            out.extend(deep_calls(fv, d, depth - 1, at))
    return out


def closure_flow_blocks(fv, bi, local):
    """Blocks of calls that receive (directly or through the results of earlier such calls: map -> filter -> extend ..)
    the closure value created into `local` in block `bi`."""
    tainted = {local}
    out = []
    order = sorted(b for b in fv.live if b == bi or b in fv.reach_after(bi) or b in fv.reach(bi))
    changed = True
    while changed:
        changed = False
        for b in order:
            for s in fv.blocks[b]["s"]:
                rv = s.get("rv")
                if not rv:
                    continue
                ls = set()
                _locals_of(rv, ls)
                if ls & tainted and s["p"]["l"] not in tainted:
                    tainted.add(s["p"]["l"])
                    changed = True
            t = fv.blocks[b]["t"]
            if t["t"] == "call":
                ls = set()
                _locals_of(t.get("args", []), ls)
                if ls & tainted:
                    if b not in out:
                        out.append(b)
                    d = t.get("dest")
                    if d and d["l"] not in tainted:
                        tainted.add(d["l"])
                        changed = True
    return out


def _locals_of(x, out):
    if isinstance(x, dict):
        if "l" in x and isinstance(x["l"], int):
            out.add(x["l"])
        for v in x.values():
            _locals_of(v, out)
    elif isinstance(x, list):
        for v in x:
            _locals_of(v, out)


def emission_blocks(prog, fv, adt_rx, variant):
    """Blocks of `fv` at which a value `adt::variant` can come into being: aggregate statements in the body itself, and for
    aggregates built inside a closure of the body (iterator chains: `.map(|x| Update::Reach{..})`), the calls the closure
    value flows into."""
    out = [b for b, si, s in fv.aggregates(adt_rx, variant)]
    for ck in prog.with_closures(fv.key):
        if ck == fv.key:
            continue
        cv = view(prog, ck)
        if not cv.aggregates(adt_rx, variant):
            continue
        # the closure (or an enclosing closure) is created somewhere in fv
        chain = [ck]
        p = prog.ix[ck].get("parent")
        while p and p != fv.key and p in prog.ix:
            chain.append(p)
            p = prog.ix[p].get("parent")
        top = chain[-1]
        for b in sorted(fv.live):
            for s in fv.blocks[b]["s"]:
                rv = s.get("rv")
                if rv and rv["r"] == "agg" and rv.get("k") == "closure" and rv.get("def") == top:
                    out.append(b)
                    out.extend(closure_flow_blocks(fv, b, s["p"]["l"]))
    return sorted(set(out))


def captured_field_writes(fv, fld):
    """In a closure body: (block, stmt idx, stmt) of writes through a captured `&mut self.<fld>` (edition-2021 closures capture
    the field place itself: the write is `*_x = v` with `_x = copy (*_1).<upvar named ..__<fld>>`)."""
    if fv.f.get("kind") != "closure":
        return []
    holders = set()
    for bi in fv.live:
        for s in fv.blocks[bi]["s"]:
            rv = s.get("rv")
            if rv and rv["r"] == "use" and not s["p"].get("p"):
                q = rv["o"].get("c") or rv["o"].get("m")
                if q and q["l"] == 1:
                    for e in q.get("p") or []:
                        if isinstance(e, dict) and (e.get("n") or "").endswith("__" + fld):
                            holders.add(s["p"]["l"])
    out = []
    for bi in sorted(fv.live):
        for si, s in enumerate(fv.blocks[bi]["s"]):
            if "rv" in s and s["p"]["l"] in holders and s["p"].get("p") == ["*"]:
                out.append((bi, si, s))
            p = s.get("p", {})
            if "rv" in s and p.get("l") == 1 and p.get("p") and p["p"][-1] == "*" and any(isinstance(e, dict) and (e.get("n") or "").endswith("__" + fld) for e in p["p"]):
                out.append((bi, si, s))
    return out


def taint_flow(prog, fv, is_source, rounds=12, call_is_source=None):
    """Flow-insensitive may-flow over one body: which storage roots can hold a value derived from a source.
    A storage root is a local, or for a coroutine a named field of its state (locals that live across an await).
    `is_source(place_dict)` marks source places (e.g. the payload of an enum variant); closures whose bodies read a source
    (checked through `is_source` on their own places) are sources as values.  A call taints its destination if any argument is
    tainted, and (collections) the referent of its first `&mut` argument if another argument is."""
    def root(p):
        if p is None:
            return None
        proj = p.get("p") or []
        names = tuple(e.get("n") for e in proj if isinstance(e, dict) and "f" in e and e.get("n"))
        # a coroutine's saved locals are fields of its state behind a variant downcast (`(*_s as #3).name`), reached through
        # _1 or a copy of the pinned pointer: the storage root is the saved local, not the state as a whole
        if fv.f.get("kind") == "coroutine" and any(isinstance(e, dict) and str(e.get("d", "")).startswith("#") for e in proj):
            return ("state", names[0]) if names else None
        if p["l"] == 1 and fv.f.get("kind") == "coroutine":
            return ("state", names[0]) if names else None
        return ("L", p["l"])

    def places(x, out):
        if isinstance(x, dict):
            if "l" in x and isinstance(x["l"], int):
                out.append(x)
            for k_, v in x.items():
                if k_ != "p" or not isinstance(v, list):
                    places(v, out)
                else:
                    for e in v:
                        if isinstance(e, dict) and "i" in e:
                            out.append({"l": e["i"]})
        elif isinstance(x, list):
            for v in x:
                places(v, out)

    def closure_reads_source(ck, depth=3):
        if ck not in prog.ix or depth <= 0:
            return False
        cv = view(prog, ck)
        for b in cv.live:
            for s in cv.blocks[b]["s"]:
                ps = []
                places(s.get("rv", {}), ps)
                if any(is_source(p) for p in ps):
                    return True
                rv = s.get("rv")
                if rv and rv["r"] == "agg" and rv.get("k") == "closure" and closure_reads_source(rv.get("def"), depth - 1):
                    return True
        return False

    tainted = set()
    refs = {}          # local holding `&mut x` / `&x` -> root of x
    for b in fv.live:
        for s in fv.blocks[b]["s"]:
            rv = s.get("rv")
            if rv and rv["r"] == "ref" and not s["p"].get("p"):
                refs[s["p"]["l"]] = root(rv["p"])
    for _ in range(rounds):
        before = len(tainted)
        for b in fv.live:
            for s in fv.blocks[b]["s"]:
                rv = s.get("rv")
                if not rv:
                    continue
                ps = []
                places(rv, ps)
                hit = any(is_source(p) or root(p) in tainted for p in ps)
                if rv["r"] == "agg" and rv.get("k") == "closure" and closure_reads_source(rv.get("def")):
                    hit = True
                if hit and root(s["p"]) is not None:
                    tainted.add(root(s["p"]))
            t = fv.blocks[b]["t"]
            if t["t"] == "call":
                ps = []
                places(t.get("args", []), ps)
                arg_hit = []
                for i, a in enumerate(t.get("args", [])):
                    aps = []
                    places(a, aps)
                    if any(is_source(p) or root(p) in tainted or refs.get(p["l"]) in tainted for p in aps):
                        arg_hit.append(i)
                nm_ = (t["f"].get("name") or "")
                if call_is_source is not None and call_is_source(t) and t.get("dest") and root(t["dest"]) is not None:
                    tainted.add(root(t["dest"]))
                # values do not flow through formatting / logging / size queries / drops
                opaque = re.search(r"fmt::|log::|::is_empty$|::len$|Arguments|__private_api|mem::drop|::contains$|PartialEq|::eq$|::ne$", nm_) is not None
                if arg_hit and not opaque:
                    if t.get("dest") and root(t["dest"]) is not None:
                        tainted.add(root(t["dest"]))
                    a0 = t["args"][0] if t.get("args") else None
                    q0 = (a0.get("c") or a0.get("m")) if a0 else None
                    if q0 is not None and not q0.get("p") and q0["l"] in refs and any(i > 0 for i in arg_hit) and re.search(r"::(push|push_back|extend|extend_from_slice|insert|append)$", nm_):
                        if refs[q0["l"]] is not None:
                            tainted.add(refs[q0["l"]])
        if len(tainted) == before:
            break
    return tainted, root, refs


def body_holding(prog, key, call_rx):
    """The coroutine body of async fn `key` -- or of a new async helper it awaits (the frame loop moved into `rx_frames(..).await`)
    -- that contains a call matching call_rx; the main body when none does."""
    rx = re.compile(call_rx) if isinstance(call_rx, str) else call_rx
    main = view(prog, prog.body_key(key))
    if main.calls(rx):
        return main
    seen, work = set(), list(getattr(prog, "async_helpers", {}).get(key, []))
    while work:
        h = work.pop()
        if h in seen:
            continue
        seen.add(h)
        hv = view(prog, prog.body_key(h))
        if hv.calls(rx):
            return hv
        work += list(prog.async_helpers.get(h, []))
    return main


def bool_true_requires(fv, name, brs=None, depth=2):
    """Conditions that hold whenever the bool local `name` is true: the guards common to all of its definitions that can assign
    true (a constant false arm -- the short-circuit side of `a && b`, the initial value of a flag -- cannot).  Returned as
    flat_guards triples; used to read `let notify = !deferring && (x || y); if notify {..}` like the nested ifs it abbreviates."""
    from .cfg import flat_guards, branches
    brs = brs or branches(fv)
    ls = [l for l, n in fv.local_name.items() if n == name and l < len(fv.f["locals"]) and fv.f["locals"][l] == "bool"]
    common = None
    for l in ls:
        for bi, si, st in fv.defs().get(l, []):
            if bi not in fv.live:
                continue
            if si != "t" and st["rv"]["r"] == "use" and "k" in st["rv"]["o"] and st["rv"]["o"]["k"].get("v") == 0:
                continue
            gs = set()
            for g, lab, how in flat_guards(fv, bi, brs):
                gs.add((g, frozenset(lab), how))
                if depth > 0 and isinstance(g, tuple) and g and g[0] == "var" and set(lab) == {"true"}:
                    gs |= {(g2, frozenset(l2), h2) for g2, l2, h2 in bool_true_requires(fv, g[1], brs, depth - 1)}
            common = gs if common is None else (common & gs)
    return [(g, set(lab), how) for g, lab, how in (common or set())]


def back_slice_calls(prog, fv, start_locals, max_hops=120):
    """Names of the functions whose results can flow into the given locals: definitions are followed backwards through copies,
    aggregates, projections, several definitions (match arms) and call arguments; closures passed along contribute the functions
    they call.  Coroutine state fields are followed by field name."""
    calls, seen, work, hops = set(), set(), [("l", l) for l in start_locals], 0
    fdefs = {}
    for bi in fv.live:
        for st in fv.blocks[bi]["s"]:
            if "rv" in st:
                nm = None
                for e in st["p"].get("p") or []:
                    if isinstance(e, dict) and e.get("n"):
                        nm = e["n"]
                if nm:
                    fdefs.setdefault(nm, []).append(st)

    def scan(x, out_l, out_f):
        if isinstance(x, dict):
            if isinstance(x.get("l"), int):
                out_l.add(x["l"])
                for e in x.get("p") or []:
                    if isinstance(e, dict) and e.get("n"):
                        out_f.add(e["n"])
            if x.get("r") == "agg" and x.get("k") == "closure" and x.get("def") in prog.ix:
                for k in prog.callees(x["def"]):
                    if k in prog.ix:
                        calls.add(prog.name(k))
            for v in x.values():
                scan(v, out_l, out_f)
        elif isinstance(x, list):
            for v in x:
                scan(v, out_l, out_f)
    while work and hops < max_hops:
        hops += 1
        kind, l = work.pop()
        if (kind, l) in seen:
            continue
        seen.add((kind, l))
        sts = []
        if kind == "l":
            for bi, si, st in fv.defs().get(l, []):
                if bi not in fv.live:
                    continue
                if si == "t":
                    t = fv.blocks[bi]["t"]
                    calls.update(n for n in ([t["f"].get("name")] + [t["f"].get("rname")]) if n)
                    ol, of = set(), set()
                    scan(t.get("args", []), ol, of)
                    work += [("l", x) for x in ol] + [("f", x) for x in of]
                else:
                    sts.append(st)
        else:
            sts = fdefs.get(l, [])
        for st in sts:
            ol, of = set(), set()
            scan(st["rv"], ol, of)
            work += [("l", x) for x in ol] + [("f", x) for x in of]
    return calls
