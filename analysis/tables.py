"""Finite transition-table extraction (A6) for `match (state, input)` style pure state machines."""
import re

from .cfg import Renderer, walk, show, flat_guards, branches, strip
from .facts import callee_names, short
from .util import view, expr_calls, expr_fields, expr_vars


class Arm:
    def __init__(self):
        self.block = None
        self.conds = {}        # rendered discr subject -> frozenset(labels)
        self.raw_conds = []
        self.new_states = set()    # variant names, or "same", or "call:<fn>"
        self.must = []         # (variant, stmt, block)
        self.may = []
        self.calls = set()
        self.may_calls = set()
        self.line = 0

    def cond(self, subject_rx):
        for k, v in self.conds.items():
            if re.fullmatch(subject_rx, k):
                return v
        return None

    def describe(self):
        return ", ".join("%s∈{%s}" % (k, "|".join(sorted(v))) for k, v in sorted(self.conds.items()))


def _discr_conds(fv, bi, brs):
    out = {}
    raw = []
    for g, labels, how in flat_guards(fv, bi, brs):
        raw.append((g, labels))
        if g[0] == "discr":
            out[show(g[1], 80)] = frozenset(labels)
        elif g[0] in ("var", "field", "deref", "downcast") and labels <= {"true", "false"}:
            out[show(g, 80)] = frozenset(labels)
    return out, raw


def extract_arms(prog, fv, state_adt_rx, out_adt_rx, result_local=None):
    """Arms of a function whose result is a (new_state, outputs) tuple per match arm.

    Finds every assignment of a 2-tuple aggregate (or a call returning one) to the common result local."""
    brs = branches(fv)
    rend = Renderer(fv, depth=16)
    st_rx = re.compile(state_adt_rx)
    out_rx = re.compile(out_adt_rx)
    # result local: the local assigned tuple aggregates in >= 2 blocks, or given
    cands = {}
    for l, ds in fv.defs().items():
        n = 0
        for bi, si, s in ds:
            if bi not in fv.live:
                continue
            if si != "t" and s["rv"]["r"] == "agg" and s["rv"]["k"] == "tuple" and len(s["rv"]["fields"]) == 2 and not s["p"].get("p"):
                n += 1
            if si == "t" and not s["dest"].get("p") and fv.f["locals"][l].startswith("(") and "Vec<" in fv.f["locals"][l]:
                n += 1
        if n >= 2:
            cands[l] = n
    if result_local is None:
        if not cands:
            return None
        result_local = max(cands, key=lambda k: cands[k])
    arms = []
    out_aggs = [(bi, s) for bi, si, s in fv.aggregates(out_rx)]
    # the match may have been split into per-input (or per-state) handlers that are analysed as part of this function: each
    # handler's own (state, outputs) result is a local of the same tuple type, and their arms together are the table
    rl = [result_local] + [l for l in cands if l != result_local and fv.f["locals"][l] == fv.f["locals"][result_local]]
    # a lone tuple definition of that type counts too once there are several result locals (a handler with a single arm)
    if len(rl) > 1:
        for l, ds in fv.defs().items():
            if l not in rl and fv.f["locals"][l] == fv.f["locals"][result_local] and any(
                    d[0] in fv.live and d[1] != "t" and d[2]["rv"]["r"] == "agg" and d[2]["rv"]["k"] == "tuple" and not d[2]["p"].get("p") for d in ds):
                rl.append(l)
    all_defs = [d for l in rl for d in fv.defs().get(l, [])]
    for bi, si, s in all_defs:
        if bi not in fv.live:
            continue
        if si != "t" and s["rv"]["r"] == "use" and len(rl) > 1:
            continue        # the hand-over of a handler's result
        a = Arm()
        a.block = bi
        a.line = fv.line(bi)
        a.conds, a.raw_conds = _discr_conds(fv, bi, brs)
        if si == "t":
            a.new_states = {"call:" + callee_names(s)[0]}
            a.calls.add(callee_names(s)[0])
        else:
            rv = s["rv"]
            if not (rv["r"] == "agg" and rv["k"] == "tuple"):
                continue
            e0 = rend.operand(rv["fields"][0], 16)
            a.new_states = _state_variants(fv, e0, st_rx, bi)
        # outputs belonging to this arm
        key = set(a.conds.items())
        for ob, os_ in out_aggs:
            if bi not in fv.reach(ob) and ob != bi:
                continue
            oc, _ = _discr_conds(fv, ob, brs)
            if not key <= set(oc.items()):
                continue
            (a.must if (fv.dominates(ob, bi)) else a.may).append((os_["rv"]["v"], os_, ob))
        for cb, t in fv.calls():
            if cb != bi and (bi in fv.reach(cb)):
                cc, _ = _discr_conds(fv, cb, brs)
                if key <= set(cc.items()):
                    for n in callee_names(t):
                        a.may_calls.add(n)
                        if fv.dominates(cb, bi):
                            a.calls.add(n)
        arms.append(a)
    return arms


def _state_variants(fv, e, st_rx, at):
    e = strip(e)
    if e[0] == "agg" and st_rx.search(str(e[1])):
        return {e[2]}
    if e[0] == "var":
        # named local: collect its definitions
        out = set()
        for l, n in fv.local_name.items():
            if n != e[1]:
                continue
            ds = [d for d in fv.defs().get(l, []) if d[0] in fv.live and (at in fv.reach(d[0]) or d[0] == at)]
            if not ds:
                out.add("same")
            rend = Renderer(fv, depth=10)
            for bi, si, s in ds:
                if si == "t":
                    out.add("call:" + callee_names(s)[0])
                    continue
                ee = strip(rend.rvalue(s["rv"], 10))
                if ee[0] == "agg" and st_rx.search(str(ee[1])):
                    out.add(ee[2])
                elif ee[0] in ("var", "field", "downcast", "deref"):
                    out.add("same")
                else:
                    out.add("?" + show(ee, 30))
        return out or {"same"}
    if e[0] in ("field", "downcast", "deref"):
        return {"same"}
    return {"?" + show(e, 30)}
