"""Per-function analyses over the exported MIR: logical CFG (with coroutine stitching), dominators,
post-dominators, control dependence, edge-dominance / must-pass-through, expression rendering."""
from collections import defaultdict

from .facts import callee_name, callee_names, short


class FnView:
    """A MIR body with its logical CFG."""

    def __init__(self, prog, key, f=None):
        self.prog = prog
        self.key = key
        self.f = f if f is not None else prog.fn(key)
        self.name = self.f["name"]
        self.blocks = self.f["blocks"]
        self.n = len(self.blocks)
        self.is_coroutine = self.f["kind"] == "coroutine"
        self.stitched = False
        self.suspend_blocks = set()
        self._build_cfg()
        self._names()
        self._defs = None
        self._dom = None
        self._pdom = None

    # ------------------------------------------------------------------ CFG
    def _raw_succs(self, bi):
        t = self.blocks[bi]["t"]
        k = t["t"]
        if k == "goto":
            return [("", t["to"])]
        if k == "switch":
            out = [(v, b) for v, b in t["cases"]]
            out.append(("else", t["else"]))
            return out
        if k in ("call", "drop", "assert", "yield"):
            if t.get("to") is not None:
                return [("", t["to"])]
            return []
        return []

    def _build_cfg(self):
        self.succ = [[] for _ in range(self.n)]   # list of (label, target)
        for bi in range(self.n):
            if self.blocks[bi]["cl"]:
                continue
            self.succ[bi] = [(l, b) for l, b in self._raw_succs(bi) if not self.blocks[b]["cl"]]
        self.entry = 0
        self.exits = [bi for bi in range(self.n) if not self.blocks[bi]["cl"] and self.blocks[bi]["t"]["t"] == "ret"]
        if self.is_coroutine:
            self._stitch()
        self.pred = [[] for _ in range(self.n)]
        for bi in range(self.n):
            for l, b in self.succ[bi]:
                self.pred[b].append((l, bi))
        # reachable set from entry
        self.live = self._reach_from(self.entry, set(), set())

    def _stitch(self):
        t0 = self.blocks[0]["t"]
        if t0["t"] != "switch":
            return
        resume = {}
        for v, b in t0["cases"]:
            resume[v] = b
        start = resume.get(0)
        if start is None:
            return
        susp = {}
        for bi, b in enumerate(self.blocks):
            if b["cl"] or b["t"]["t"] != "ret":
                continue
            for s in b["s"]:
                if "sd" in s:
                    vi = s["vi"]
                    if vi >= 3:
                        susp[bi] = vi
        ok = True
        for bi, vi in susp.items():
            if vi not in resume:
                ok = False
        if not ok:
            return
        # rewrite: entry switch keeps only start; suspension blocks jump to their resume block
        self.succ[0] = [("", start)]
        for bi, vi in susp.items():
            self.succ[bi] = [("resume", resume[vi])]
        self.suspend_blocks = set(susp)
        self.exits = [e for e in self.exits if e not in susp]
        self.stitched = True

    def _reach_from(self, start, removed_blocks, removed_edges):
        seen = set()
        if start in removed_blocks:
            return seen
        work = [start]
        while work:
            b = work.pop()
            if b in seen:
                continue
            seen.add(b)
            for l, s in self.succ[b]:
                if s in removed_blocks or (b, s) in removed_edges or (b, l, s) in removed_edges:
                    continue
                if s not in seen:
                    work.append(s)
        return seen

    def reach(self, start, removed_blocks=(), removed_edges=()):
        return self._reach_from(start, set(removed_blocks), set(removed_edges))

    def reach_after(self, bi, removed_blocks=(), removed_edges=()):
        """Blocks reachable from the successors of bi (bi itself only if on a cycle)."""
        out = set()
        rb, re_ = set(removed_blocks), set(removed_edges)
        for l, s in self.succ[bi]:
            if (bi, s) in re_ or (bi, l, s) in re_:
                continue
            out |= self._reach_from(s, rb, re_)
        return out

    def must_pass(self, from_block, through, to_blocks, after=True, removed_edges=()):
        """True iff every path from (after) from_block to any block in to_blocks passes a block in `through`."""
        thr = set(through)
        r = self.reach_after(from_block, thr, removed_edges) if after else self.reach(from_block, thr, removed_edges)
        return not (r & set(to_blocks))

    def dominated_by_any(self, target, through):
        """True iff every path entry -> target passes a block in `through` (target itself not counted)."""
        thr = set(through) - {target}
        return target not in self._reach_from(self.entry, thr, set())

    def edge_guarded(self, target, edges):
        """True iff every path entry -> target uses one of `edges` (each (from, to) or (from,label,to))."""
        return target not in self._reach_from(self.entry, set(), set(edges))

    # ------------------------------------------------------------------ dominators
    def _rpo(self, succ_fn, entry):
        order, seen = [], set()
        stack = [(entry, iter(succ_fn(entry)))]
        seen.add(entry)
        while stack:
            b, it = stack[-1]
            adv = False
            for s in it:
                if s not in seen:
                    seen.add(s)
                    stack.append((s, iter(succ_fn(s))))
                    adv = True
                    break
            if not adv:
                order.append(b)
                stack.pop()
        order.reverse()
        return order

    def _idoms(self, succ_fn, pred_fn, entry):
        order = self._rpo(succ_fn, entry)
        idx = {b: i for i, b in enumerate(order)}
        idom = {entry: entry}
        changed = True
        while changed:
            changed = False
            for b in order[1:]:
                ps = [p for p in pred_fn(b) if p in idom]
                if not ps:
                    continue
                new = ps[0]
                for p in ps[1:]:
                    a, c = p, new
                    while a != c:
                        while idx[a] > idx[c]:
                            a = idom[a]
                        while idx[c] > idx[a]:
                            c = idom[c]
                    new = a
                if idom.get(b) != new:
                    idom[b] = new
                    changed = True
        return idom

    def dom(self):
        if self._dom is None:
            self._dom = self._idoms(lambda b: [s for _, s in self.succ[b]], lambda b: [p for _, p in self.pred[b]], self.entry)
        return self._dom

    def dominates(self, a, b):
        d = self.dom()
        if b not in d:
            return False
        while True:
            if a == b:
                return True
            nb = d.get(b)
            if nb is None or nb == b:
                return False
            b = nb

    def pdom(self):
        """Immediate post-dominators with a virtual exit node -1 (targets: return blocks and dead ends)."""
        if self._pdom is None:
            EXIT = -1
            ends = [b for b in self.live if not self.succ[b]]
            rsucc = lambda b: (ends if b == EXIT else [p for _, p in self.pred[b] if p in self.live])
            rpred = lambda b: ([EXIT] if b in ends else []) + [s for _, s in self.succ[b]] if b != EXIT else []
            self._pdom = self._idoms(rsucc, rpred, EXIT)
        return self._pdom

    def postdominates(self, a, b):
        d = self.pdom()
        if b not in d:
            return False
        while True:
            if a == b:
                return True
            nb = d.get(b)
            if nb is None or nb == b:
                return False
            b = nb

    def control_deps(self):
        """block -> set of (branch block, label, succ) it is directly control-dependent on."""
        pd = self.pdom()
        cd = defaultdict(set)
        for b in self.live:
            if len(self.succ[b]) < 2:
                continue
            stop = pd.get(b)
            for l, s in self.succ[b]:
                x = s
                seen = 0
                while x is not None and x != stop and x != -1 and seen < 100000:
                    cd[x].add((b, l, s))
                    if x == b:
                        break
                    x = pd.get(x)
                    seen += 1
        return cd

    # ------------------------------------------------------------------ names / defs
    def _names(self):
        self.local_name = {}
        self.place_names = []   # (local, proj tuple) -> name  for captured variables
        for d in self.f.get("dbg", []):
            p = d["p"]
            if not p.get("p"):
                self.local_name.setdefault(p["l"], d["n"])
            else:
                pk = _projkey(p["p"])
                self.place_names.append((p["l"], pk, d["n"], False))
                if pk and pk[-1] == "*":
                    # `(*_1).0` holds `&captured`: render it as a reference to the variable
                    self.place_names.append((p["l"], pk[:-1], d["n"], True))

    def defs(self):
        if self._defs is None:
            d = defaultdict(list)
            pd = defaultdict(list)
            for bi, b in enumerate(self.blocks):
                for si, s in enumerate(b["s"]):
                    if "p" in s and "rv" in s:
                        d[s["p"]["l"]].append((bi, si, s))
                        if s["p"].get("p"):
                            pd[(s["p"]["l"], _projkey(s["p"]["p"]))].append((bi, si, s))
                t = b["t"]
                if t["t"] == "call" and "dest" in t:
                    d[t["dest"]["l"]].append((bi, "t", t))
                    if t["dest"].get("p"):
                        pd[(t["dest"]["l"], _projkey(t["dest"]["p"]))].append((bi, "t", t))
            self._defs = d
            self._pdefs = pd
        return self._defs

    def pdefs(self):
        self.defs()
        return self._pdefs

    # ------------------------------------------------------------------ iteration helpers
    def calls(self, rx=None):
        """(block, terminator) for each call in live, non-cleanup blocks; optional regex on callee names."""
        out = []
        for bi in sorted(self.live):
            t = self.blocks[bi]["t"]
            if t["t"] == "call":
                if rx is None or any(rx.fullmatch(n) for n in callee_names(t)):
                    out.append((bi, t))
        return out

    def aggregates(self, adt_rx=None, variant=None):
        out = []
        for bi in sorted(self.live):
            for si, s in enumerate(self.blocks[bi]["s"]):
                rv = s.get("rv")
                if rv and rv["r"] == "agg" and rv.get("k") == "adt":
                    if adt_rx is not None and not adt_rx.fullmatch(rv["adtn"]):
                        continue
                    if variant is not None and rv["v"] != variant:
                        continue
                    out.append((bi, si, s))
        return out

    def returns(self):
        return [e for e in self.exits if e in self.live]

    def line(self, bi):
        t = self.blocks[bi]["t"]
        if "ln" in t:
            return t["ln"]
        for s in self.blocks[bi]["s"]:
            if "ln" in s:
                return s["ln"]
        return self.f["lo"]

    def loc(self, bi=None, ln=None):
        if ln is None:
            ln = self.line(bi) if bi is not None else self.f["lo"]
        return "%s:%d" % (self.f["file"], ln)


def _projkey(proj):
    out = []
    for e in proj:
        if e == "*":
            out.append("*")
        elif isinstance(e, dict):
            if "f" in e:
                out.append(("f", e["f"]))
            elif "d" in e:
                out.append(("d", e["vi"]))
            elif "i" in e:
                out.append(("i", e["i"]))
            else:
                out.append(("o", str(sorted(e.items()))))
        else:
            out.append(e)
    return tuple(out)


# ---------------------------------------------------------------------- expression trees
class Renderer:
    """Turns MIR operands/places into expression trees by inlining single-definition temporaries."""

    def __init__(self, fv, depth=12, through_names=False):
        self.fv = fv
        self.depth = depth
        self.through_names = through_names   # also inline single-definition *named* locals

    def place(self, p, depth=None, at=None):
        depth = self.depth if depth is None else depth
        fv = self.fv
        l = p["l"]
        proj = p.get("p") or []
        # captured-variable naming: longest prefix match
        start = 0
        base = None
        if proj and fv.place_names:
            pk = _projkey(proj)
            best = None
            for (pl, ppk, name, isref) in fv.place_names:
                if pl == l and pk[:len(ppk)] == ppk and (best is None or len(ppk) > len(best[0])):
                    best = (ppk, name, isref)
            if best:
                base = ("ref", ("var", best[1])) if best[2] else ("var", best[1])
                start = len(best[0])
        if base is None and proj and depth > 0 and fv.is_coroutine:
            # a value saved in the coroutine state (unnamed temporary kept across an await): inline its single definition
            pds = fv.pdefs().get((l, _projkey(proj)))
            if pds and len(pds) == 1:
                bi, si, s = pds[0]
                if si == "t":
                    return self.call_expr(s, depth - 1, bi)
                return self.rvalue(s["rv"], depth - 1)
        if base is None:
            base = self.local(l, depth, at)
        e = base
        for el in proj[start:]:
            if el == "*":
                e = ("deref", e)
            elif isinstance(el, dict):
                if "f" in el:
                    if e[0] == "agg" and e[1] == "tuple" and el["f"] < len(e[3]):
                        e = e[3][el["f"]]
                    else:
                        e = ("field", e, el["n"] or str(el["f"]))
                elif "d" in el:
                    e = ("downcast", e, el["d"])
                elif "i" in el:
                    e = ("index", e, self.local(el["i"], depth, at))
                elif "ci" in el:
                    e = ("index", e, ("const", (-el["ci"] if el["fe"] else el["ci"]), "usize", None))
                elif "ss" in el:
                    e = ("subslice", e, tuple(el["ss"]))
                else:
                    e = ("proj", e)
            else:
                e = ("proj", e)
        return e

    def local(self, l, depth, at=None):
        fv = self.fv
        if l in fv.local_name and not (self.through_names and l > fv.f["argc"] and depth > 0
                                       and len(fv.defs().get(l, [])) == 1):
            return ("var", fv.local_name[l])
        if depth <= 0:
            return ("tmp", l)
        ds = fv.defs().get(l, [])
        whole = [d for d in ds if not (d[2].get("p", d[2].get("dest", {})).get("p"))]
        if len(ds) == 1 and len(whole) == 1:
            bi, si, s = ds[0]
            if si == "t":
                return self.call_expr(s, depth - 1, bi)
            return self.rvalue(s["rv"], depth - 1)
        if l == 0:
            return ("var", "<ret>")
        if l <= fv.f["argc"]:
            return ("var", "arg%d" % l)
        return ("tmp", l)

    def call_expr(self, t, depth=None, bi=None):
        depth = self.depth if depth is None else depth
        f = t.get("f", {})
        return ("call", callee_name(t), tuple(self.operand(a, depth) for a in t["args"]), bi,
                f.get("rname") or f.get("name") or "", f.get("ga", ""))

    def operand(self, o, depth=None):
        depth = self.depth if depth is None else depth
        if "c" in o:
            return self.place(o["c"], depth)
        if "m" in o:
            return self.place(o["m"], depth)
        k = o["k"]
        if "fn" in k:
            return ("fnref", k.get("fnn") or k["fn"])
        return ("const", k.get("v"), k.get("ty"), k.get("variant") or k.get("def") or k.get("s"))

    def rvalue(self, rv, depth=None):
        depth = self.depth if depth is None else depth
        r = rv["r"]
        if r == "use":
            return self.operand(rv["o"], depth)
        if r == "ref":
            return ("ref", self.place(rv["p"], depth))
        if r == "bin":
            return ("bin", rv["op"], self.operand(rv["a"], depth), self.operand(rv["b"], depth))
        if r == "un":
            return ("un", rv["op"], self.operand(rv["a"], depth))
        if r == "cast":
            return ("cast", self.operand(rv["o"], depth), rv["to"], rv["from"])
        if r == "discr":
            return ("discr", self.place(rv["p"], depth), rv.get("adt"))
        if r == "agg":
            if rv["k"] == "adt":
                return ("agg", rv["adtn"], rv["v"], tuple(self.operand(x, depth) for x in rv["fields"]))
            return ("agg", rv["k"], rv.get("def"), tuple(self.operand(x, depth) for x in rv["fields"]))
        if r == "repeat":
            return ("repeat", self.operand(rv["o"], depth))
        return ("unk", r)


def walk(e):
    """All sub-expressions of a tree."""
    yield e
    if isinstance(e, tuple):
        for x in e[1:]:
            if isinstance(x, tuple):
                if x and isinstance(x[0], str):
                    yield from walk(x)
                else:
                    for y in x:
                        if isinstance(y, tuple):
                            yield from walk(y)


def mentions_call(e, rx):
    return any(x[0] == "call" and rx.search(x[1]) for x in walk(e) if isinstance(x, tuple) and x)


def mentions_field(e, name):
    return any(x[0] == "field" and x[2] == name for x in walk(e) if isinstance(x, tuple) and x)


def mentions_var(e, name):
    return any(x[0] == "var" and x[1] == name for x in walk(e) if isinstance(x, tuple) and x)


def consts_in(e):
    return [x[1] for x in walk(e) if isinstance(x, tuple) and x and x[0] == "const" and x[1] is not None]


_BIN = {"Add": "+", "Sub": "-", "Mul": "*", "Div": "/", "Rem": "%", "BitAnd": "&", "BitOr": "|", "BitXor": "^",
        "Shl": "<<", "Shr": ">>", "Eq": "==", "Ne": "!=", "Lt": "<", "Le": "<=", "Gt": ">", "Ge": ">=",
        "AddWithOverflow": "+", "SubWithOverflow": "-", "MulWithOverflow": "*", "AddUnchecked": "+", "SubUnchecked": "-",
        "MulUnchecked": "*", "ShlUnchecked": "<<", "ShrUnchecked": ">>", "Cmp": "<=>", "Offset": "+"}


def show(e, lim=200):
    s = _show(e)
    return s if len(s) <= lim else s[:lim] + "…"


def _show(e):
    if not isinstance(e, tuple) or not e:
        return str(e)
    k = e[0]
    if k == "var":
        return e[1]
    if k == "tmp":
        return "_%d" % e[1]
    if k == "const":
        if e[3]:
            return str(e[3]).split("::")[-1] if e[1] is None else "%s(=%s)" % (str(e[3]).split("::")[-1], e[1])
        return str(e[1]) if e[1] is not None else "const<%s>" % (e[2] or "?")
    if k == "fnref":
        return short(e[1])
    if k == "field":
        b = _show(e[1])
        if e[1][0] == "deref":
            b = _show(e[1][1])
        return "%s.%s" % (b, e[2])
    if k == "deref":
        return "*%s" % _show(e[1])
    if k == "ref":
        return "&%s" % _show(e[1])
    if k == "downcast":
        return "(%s as %s)" % (_show(e[1]), e[2])
    if k == "index":
        return "%s[%s]" % (_show(e[1]), _show(e[2]))
    if k == "subslice":
        return "%s[%s..]" % (_show(e[1]), e[2][0])
    if k == "call":
        return "%s(%s)" % (short(e[1]), ", ".join(_show(a) for a in e[2]))
    if k == "bin":
        return "(%s %s %s)" % (_show(e[2]), _BIN.get(e[1], e[1]), _show(e[3]))
    if k == "un":
        return "%s(%s)" % ({"Not": "!", "Neg": "-", "PtrMetadata": "len"}.get(e[1], e[1]), _show(e[2]))
    if k == "cast":
        return "(%s as %s)" % (_show(e[1]), e[2])
    if k == "discr":
        return "discr(%s)" % _show(e[1])
    if k == "agg":
        return "%s::%s{%s}" % (short(str(e[1])), e[2], ", ".join(_show(a) for a in e[3]))
    if k == "repeat":
        return "[%s; _]" % _show(e[1])
    return "?%s" % k


def strip(e):
    """Peel refs/derefs/copies/casts that do not change the value."""
    while isinstance(e, tuple) and e and e[0] in ("ref", "deref"):
        e = e[1]
    return e


# ---------------------------------------------------------------------- branch conditions
class Branch:
    """A conditional branch block: expression tested and labelled out-edges."""

    def __init__(self, fv, bi, rend):
        t = fv.blocks[bi]["t"]
        self.bi = bi
        self.expr = rend.operand(t["o"])
        self.ty = t.get("ty")
        self.cases = [(v, b) for v, b in t["cases"]]
        self.otherwise = t["else"]
        self.adt = None
        e = self.expr
        if isinstance(e, tuple) and e[0] == "discr":
            self.adt = e[2]

    def label(self, prog, v):
        if v == "else":
            if self.ty == "bool":
                vals = {c for c, _ in self.cases}
                if vals == {0}:
                    return "true"
                if vals == {1}:
                    return "false"
            if self.adt:
                # `otherwise` of an enum switch that lists all variants but one names that variant
                a = prog.adts.get(self.adt)
                if a:
                    rest = [vv["n"] for vv in a["variants"] if vv["d"] not in {c for c, _ in self.cases}]
                    if len(rest) == 1:
                        return rest[0]
            return "else"
        if self.adt:
            n = prog.variant_name(self.adt, v)
            if n:
                return n
        if self.ty == "bool":
            return "true" if v else "false"
        return str(v)


def _labels_for(br, prog, v):
    """Set of labels an out-edge stands for: the `otherwise` edge of an enum switch is expanded to the
    variants it covers."""
    if v == "else" and br.adt:
        a = prog.adts.get(br.adt)
        if a:
            listed = {c for c, _ in br.cases}
            rest = {vv["n"] for vv in a["variants"] if vv["d"] not in listed}
            if rest:
                return rest
    return {br.label(prog, v)}


def branches(fv, rend=None):
    rend = rend or Renderer(fv)
    out = {}
    for bi in fv.live:
        if fv.blocks[bi]["t"]["t"] == "switch":
            out[bi] = Branch(fv, bi, rend)
    return out


def bool_edges(fv, br, want):
    """Edges of a boolean switch taken when the tested expression is `want`."""
    out = []
    if br.ty != "bool":
        return out
    for v, b in br.cases:
        if bool(v) == want:
            out.append((br.bi, b))
    # `else` of a bool switch with the single case 0 is the true edge (and vice versa)
    vals = {v for v, _ in br.cases}
    if want and 1 not in vals:
        out.append((br.bi, br.otherwise))
    if (not want) and 0 not in vals:
        out.append((br.bi, br.otherwise))
    return out


def norm_cond(e):
    """Normalise a boolean expression: returns (expr, negated)."""
    neg = False
    while isinstance(e, tuple) and e and e[0] == "un" and e[1] == "Not":
        e = e[2]
        neg = not neg
    return e, neg


def guards_of(fv, target, brs=None, prog=None):
    """Necessary branch outcomes for reaching `target`: list of (Branch, labels set) such that every
    entry->target path leaves the branch block by an edge with one of the labels (edge dominance)."""
    prog = prog or fv.prog
    brs = brs or branches(fv)
    out = []
    for bi, br in brs.items():
        if bi == target:
            continue
        if target not in fv.reach(bi):
            continue
        if not fv.dominates(bi, target):
            # a non-dominating branch can still be necessary per edge, but we keep to dominating ones:
            # they are the ones that render as "X happens only if C"
            continue
        edges = [(v, b) for v, b in br.cases]
        if fv.blocks[br.otherwise]["t"]["t"] != "unreachable":
            edges.append(("else", br.otherwise))
        ok_labels = set()
        for v, b in edges:
            # can target be reached from entry if only this out-edge of bi is usable?
            other = {(bi, l2, b2) for l2, b2 in fv.succ[bi] if not (l2 == v and b2 == b)}
            if target in fv.reach(fv.entry, (), other):
                ok_labels |= _labels_for(br, prog, v)
        all_labels = set()
        for v, _ in edges:
            all_labels |= _labels_for(br, prog, v)
        if ok_labels and ok_labels != all_labels:
            out.append((br, ok_labels))
    return out


class _Cond:
    """A boolean expression standing in for a Branch in guard lists (only .expr is used)."""
    def __init__(self, expr, bi):
        self.expr = expr
        self.bi = bi
        self.adt = None
        self.ty = "bool"


def _bool_local_of(fv, e, at):
    """Local index behind a switch operand that is a bool temporary or a named bool local (several locals may share a
    name, one per scope: the one all of whose definitions reach `at` is taken)."""
    if not isinstance(e, tuple) or not e:
        return None
    if e[0] == "tmp":
        return e[1]
    if e[0] == "var":
        cands = []
        for l, n in fv.local_name.items():
            if n != e[1] or l >= len(fv.f["locals"]) or fv.f["locals"][l] != "bool" or l <= fv.f.get("argc", 0):
                continue
            ds = [d for d in fv.defs().get(l, []) if d[0] in fv.live]
            if ds and all(at in fv.reach(d[0]) or d[0] == at for d in ds):
                cands.append(l)
        if len(cands) == 1:
            return cands[0]
    return None


def matches_conj(fv, br, brs=None, named=False):
    """If `br` switches on a bool local that is assigned constants and/or computed values in different blocks (the shape
    of `matches!`, of `a && b` / `a || b`, and of a hoisted `let cond = a && b;`), return (true_guards, false_guards): for
    each way of becoming true / false the list of necessary (Branch-like, labels) conditions, else None."""
    if not named and not (isinstance(br.expr, tuple) and br.expr and br.expr[0] == "tmp"):
        return None
    l = _bool_local_of(fv, br.expr, br.bi)
    if l is None:
        return None
    ds = [d for d in fv.defs().get(l, []) if d[0] in fv.live]
    if len(ds) < 2:
        return None            # a plain computed bool: the switch expression itself says everything
    brs = brs or branches(fv)
    rend = Renderer(fv)
    tg, fg = [], []
    for bi, si, s in ds:
        if si == "t":
            return None
        rv = s["rv"]
        if rv["r"] == "use" and "k" in rv["o"] and rv["o"]["k"].get("v") is not None:
            (tg if rv["o"]["k"]["v"] else fg).append(guards_of(fv, bi, brs))
            continue
        # computed in this arm: true iff the value is true (on top of the arm's own guards)
        e = rend.rvalue(rv, rend.depth)
        base = guards_of(fv, bi, brs)
        tg.append(base + [(_Cond(e, bi), {"true"})])
        fg.append(base + [(_Cond(e, bi), {"false"})])
    return tg, fg


def flat_guards(fv, target, brs=None, depth=3, named=False):
    """Necessary conditions for reaching target as (expr, labels, polarity_note) triples, expanding
    `matches!`-style bool temporaries on their true side (single true-assigning block)."""
    brs = brs or branches(fv)
    out = []
    for br, labels in guards_of(fv, target, brs):
        mc = matches_conj(fv, br, brs, named) if depth > 0 else None
        if mc is not None:
            tg, fg = mc
            if labels == {"true"} and len(tg) == 1:
                for b2, l2 in tg[0]:
                    out.append((b2.expr, l2, "all"))
                continue
            if labels == {"false"} and len(tg) == 1:
                out.append((("matches", tuple((b2.expr, tuple(sorted(l2))) for b2, l2 in tg[0])), {"false"}, "not"))
                continue
            if labels == {"false"} and len(fg) == 1:
                for b2, l2 in fg[0]:
                    out.append((b2.expr, l2, "all"))
                continue
        out.append((br.expr, labels, "raw"))
    # normalise `!x` tests: strip the Not and flip the outcome
    norm = []
    for e, labels, how in out:
        while isinstance(e, tuple) and e and e[0] == "un" and e[1] == "Not" and labels <= {"true", "false"}:
            e = e[2]
            labels = {"false" if l == "true" else "true" for l in labels}
        norm.append((e, labels, how))
    return norm
