"""Fact extraction with per-crate caching.

Runs the rbgp-facts driver over /repo's *current working tree* (cargo +nightly check with
RUSTC_WORKSPACE_WRAPPER) and caches the per-crate fact files under /verif/.cache/facts/<crate>/<key>/,
where <key> is a hash of the crate's sources (and of the crates it depends on).  A crate whose key is
already cached is not re-extracted; a crate whose key is missing has its cargo fingerprints removed so
cargo cannot skip the wrapper and replay stale output.
"""
import fcntl
import hashlib
import json
import os
import shutil
import subprocess
import sys
import time

VERIF = os.path.dirname(os.path.dirname(os.path.abspath(__file__)))
REPO = os.environ.get("RBGP_REPO", "/repo")
CACHE = os.path.join(VERIF, ".cache")
DRIVER = os.path.join(CACHE, "driver-target", "release", "rbgp-facts")
TARGET = os.path.join(CACHE, "target")

# crate name (rustc) -> (package name, directory, local deps)
CRATES = {
    "rustybgp_packet": ("rustybgp-packet", "packet", []),
    "rustybgp_table": ("rustybgp-table", "table", ["rustybgp_packet"]),
    "rustybgp_kernel": ("rustybgp-kernel", "kernel", ["rustybgp_packet"]),
    "rustybgpd": ("rustybgpd", "daemon", ["rustybgp_packet", "rustybgp_table", "rustybgp_kernel", "api", "config"]),
}
EXTRA_DIRS = {"api": "api", "config": "config"}
SRC_EXT = (".rs", ".toml", ".proto", ".lock")


def _hash_dir(d):
    h = hashlib.sha256()
    base = os.path.join(REPO, d)
    files = []
    for root, dirs, fs in os.walk(base):
        dirs[:] = sorted(x for x in dirs if x not in ("target", ".git"))
        for f in sorted(fs):
            if f.endswith(SRC_EXT):
                files.append(os.path.join(root, f))
    for p in sorted(files):
        h.update(os.path.relpath(p, REPO).encode())
        h.update(b"\0")
        with open(p, "rb") as fh:
            h.update(fh.read())
        h.update(b"\0")
    return h.hexdigest()


def _driver_id():
    try:
        st = os.stat(DRIVER)
        return "%d-%d" % (st.st_size, int(st.st_mtime))
    except OSError:
        return "nodriver"


def crate_keys():
    root = hashlib.sha256()
    for f in ("Cargo.toml", "Cargo.lock"):
        p = os.path.join(REPO, f)
        if os.path.exists(p):
            root.update(open(p, "rb").read())
    # the driver's own source is part of the key: a changed extractor invalidates facts
    dsrc = os.path.join(VERIF, "driver", "src", "main.rs")
    root.update(open(dsrc, "rb").read())
    rooth = root.hexdigest()
    dirh = {}
    for name, d in EXTRA_DIRS.items():
        dirh[name] = _hash_dir(d)
    keys = {}
    for c in ("rustybgp_packet", "rustybgp_table", "rustybgp_kernel", "rustybgpd"):
        pkg, d, deps = CRATES[c]
        h = hashlib.sha256()
        h.update(rooth.encode())
        h.update(_hash_dir(d).encode())
        for dep in deps:
            h.update((keys.get(dep) or dirh.get(dep) or "").encode())
        keys[c] = h.hexdigest()[:24]
    return keys


def facts_dir(crate, key):
    return os.path.join(CACHE, "facts", crate, key)


def _complete(d, crate):
    m = os.path.join(d, crate + ".meta.jsonl")
    f = os.path.join(d, crate + ".fns.jsonl")
    if not (os.path.exists(m) and os.path.exists(f)):
        return False
    try:
        with open(m, "rb") as fh:
            fh.seek(max(0, os.path.getsize(m) - 400))
            tail = fh.read().decode("utf-8", "replace").strip().splitlines()[-1]
        r = json.loads(tail)
        return r.get("t") == "end" and r.get("crate") == crate
    except Exception:
        return False


def build_driver(log=sys.stderr):
    env = dict(os.environ)
    env["CARGO_TARGET_DIR"] = os.path.join(CACHE, "driver-target")
    env["CARGO_NET_OFFLINE"] = "true"
    r = subprocess.run(
        ["cargo", "+nightly", "build", "--release", "--offline"],
        cwd=os.path.join(VERIF, "driver"), env=env, stdout=subprocess.PIPE, stderr=subprocess.STDOUT, text=True)
    if r.returncode != 0 or not os.path.exists(DRIVER):
        log.write(r.stdout)
        raise RuntimeError("driver build failed")


def _driver_fresh():
    if not os.path.exists(DRIVER):
        return False
    src = os.path.join(VERIF, "driver", "src", "main.rs")
    return os.path.getmtime(DRIVER) >= os.path.getmtime(src)


def ensure_facts(log=sys.stderr):
    """Return {crate: dir} with complete fact files for /repo's current working tree."""
    os.makedirs(CACHE, exist_ok=True)
    lock = open(os.path.join(CACHE, "lock"), "w")
    fcntl.flock(lock, fcntl.LOCK_EX)
    try:
        if not _driver_fresh():
            log.write("[extract] building driver\n")
            build_driver(log)
        keys = crate_keys()
        dirs = {c: facts_dir(c, k) for c, k in keys.items()}
        missing = [c for c in keys if not _complete(dirs[c], c)]
        if missing:
            t0 = time.time()
            log.write("[extract] extracting %s\n" % ",".join(missing))
            fp = os.path.join(TARGET, "debug", ".fingerprint")
            if os.path.isdir(fp):
                for e in os.listdir(fp):
                    for c in missing:
                        pkg = CRATES[c][0]
                        if e.startswith(pkg + "-"):
                            shutil.rmtree(os.path.join(fp, e), ignore_errors=True)
            tmp = os.path.join(CACHE, "facts-tmp-%d" % os.getpid())
            shutil.rmtree(tmp, ignore_errors=True)
            os.makedirs(tmp)
            sysroot = subprocess.run(["rustc", "+nightly", "--print", "sysroot"], stdout=subprocess.PIPE, text=True).stdout.strip()
            env = dict(os.environ)
            env.update({
                "LD_LIBRARY_PATH": os.path.join(sysroot, "lib") + (":" + env["LD_LIBRARY_PATH"] if env.get("LD_LIBRARY_PATH") else ""),
                "RUSTFLAGS": "-Zmir-opt-level=0 -Awarnings",
                "RUSTC_WORKSPACE_WRAPPER": DRIVER,
                "RBGP_FACTS_DIR": tmp,
                "RBGP_FACTS_CRATES": ",".join(missing),
                "CARGO_TARGET_DIR": TARGET,
                "CARGO_NET_OFFLINE": "true",
            })
            env.pop("RUSTC_WRAPPER", None)
            r = subprocess.run(["cargo", "+nightly", "check", "--offline", "--workspace"], cwd=REPO, env=env,
                               stdout=subprocess.PIPE, stderr=subprocess.STDOUT, text=True)
            if r.returncode != 0:
                log.write(r.stdout[-6000:])
                shutil.rmtree(tmp, ignore_errors=True)
                raise RuntimeError("cargo check (fact extraction) failed; /repo does not build")
            for c in missing:
                if not _complete(tmp, c):
                    log.write(r.stdout[-3000:])
                    shutil.rmtree(tmp, ignore_errors=True)
                    raise RuntimeError("fact file for %s was not produced (wrapper skipped?)" % c)
                d = dirs[c]
                shutil.rmtree(d, ignore_errors=True)
                os.makedirs(d)
                for suf in (".fns.jsonl", ".meta.jsonl"):
                    shutil.move(os.path.join(tmp, c + suf), os.path.join(d, c + suf))
            shutil.rmtree(tmp, ignore_errors=True)
            log.write("[extract] done in %.1fs\n" % (time.time() - t0))
            _gc(keys)
        return dirs, keys
    finally:
        fcntl.flock(lock, fcntl.LOCK_UN)
        lock.close()


def _gc(keys, keep=4):
    for c in keys:
        base = os.path.join(CACHE, "facts", c)
        if not os.path.isdir(base):
            continue
        ents = sorted(((os.path.getmtime(os.path.join(base, e)), e) for e in os.listdir(base)), reverse=True)
        for _, e in ents[keep:]:
            if e != keys[c]:
                shutil.rmtree(os.path.join(base, e), ignore_errors=True)


if __name__ == "__main__":
    d, k = ensure_facts()
    print(json.dumps({"dirs": d, "keys": k}, indent=1))
