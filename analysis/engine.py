"""Rule bookkeeping, known-findings handling, evidence output."""
import json
import os
import time

VERIF = os.path.dirname(os.path.dirname(os.path.abspath(__file__)))


class Violation:
    def __init__(self, rule, key, msg, loc):
        self.rule = rule
        self.key = key          # stable, line-free:  "<rule>|<function>|<descriptor>"
        self.msg = msg
        self.loc = loc          # file:line for the human


class Rule:
    def __init__(self, rid, title):
        self.rid = rid
        self.title = title
        self.obligations = 0
        self.discharged = 0
        self.sites = []         # sample site records
        self.violations = []
        self.functions = set()
        self.notes = []

    def analysed(self, *names):
        for n in names:
            self.functions.add(n)

    def ok(self, site, why=None):
        self.obligations += 1
        self.discharged += 1
        if len(self.sites) < 400:
            self.sites.append({"site": site, "status": "ok", **({"by": why} if why else {})})

    def fail(self, function, descriptor, msg, loc):
        self.obligations += 1
        key = "%s|%s|%s" % (self.rid, function, descriptor)
        self.violations.append(Violation(self.rid, key, msg, loc))
        self.sites.append({"site": "%s %s" % (function, descriptor), "status": "VIOLATED", "why": msg, "loc": loc})

    def unanalysable(self, what, loc="?"):
        """Fail closed: anchor missing, shape not recognised, floor not met."""
        self.fail("<analysis>", "unanalysable:" + what, "cannot analyse: " + what, loc)

    def note(self, s):
        self.notes.append(s)

    def floor(self, what, got, want):
        """Fail closed if fewer instances than confirmed by hand were seen."""
        if got < want:
            self.unanalysable("%s: saw %d instance(s), floor is %d" % (what, got, want))
        else:
            self.notes.append("instances: %s = %d (floor %d)" % (what, got, want))


class Report:
    def __init__(self, prop):
        self.prop = prop
        self.rules = []
        self.t0 = time.time()

    def rule(self, rid, title):
        r = Rule(rid, title)
        self.rules.append(r)
        return r


def load_known():
    p = os.path.join(VERIF, "known-findings.json")
    if not os.path.exists(p):
        return {"findings": [], "fixed": []}
    with open(p) as fh:
        return json.load(fh)


def finish(report, tier, seed, explanation, assumptions, out=None):
    """Print verdict lines, write evidence, return exit code."""
    import sys
    out = out or sys.stdout
    known = load_known()
    kf = {(k["property"], k["key"]): k for k in known.get("findings", [])}
    viols, knowns = [], []
    for r in report.rules:
        for v in r.violations:
            if (report.prop, v.key) in kf:
                knowns.append(v)
            else:
                viols.append(v)
    ev_path = os.path.join(VERIF, "evidence", report.prop + ".json")
    for v in knowns:
        out.write("KNOWN-FINDING: property=%s %s -- %s [%s]\n" % (report.prop, v.key, v.msg, v.loc))
    for v in viols:
        out.write("FAIL %s %s\n     %s\n     at %s\n" % (v.rule, v.key, v.msg, v.loc))
    obligations = sum(r.obligations for r in report.rules)
    discharged = sum(r.discharged for r in report.rules)
    samples = []
    per_rule = []
    for r in report.rules:
        per_rule.append({
            "rule": r.rid, "title": r.title, "functions_analysed": sorted(r.functions)[:60],
            "n_functions": len(r.functions), "obligations": r.obligations, "discharged": r.discharged,
            "violations": [v.key for v in r.violations], "notes": r.notes[:40],
        })
        for s in r.sites[:12]:
            samples.append({"rule": r.rid, **s})
        for s in r.sites:
            if s["status"] != "ok" and {"rule": r.rid, **s} not in samples:
                samples.append({"rule": r.rid, **s})
    distinct = len({(r.rid, json.dumps(s, sort_keys=True)) for r in report.rules for s in r.sites})
    ev = {
        "property_id": report.prop,
        "tier": tier,
        "seed": seed,
        "level": "other",
        "coverage": {
            "explanation": explanation,
            "obligations": obligations,
            "discharged": discharged,
            "known_findings": [v.key for v in knowns],
            "evaluations": max(obligations, 1),
            "distinct_nontrivial": distinct,
            "rule": "one obligation per (rule, code site) enumerated from the type-checked MIR of /repo's working tree; "
                    "distinct = distinct (rule, site record) pairs",
            "rules": per_rule,
            "samples": samples[:200] or [{"note": "no sites"}],
            "exhaustive": True,
            "trusted_base": ["rustc MIR construction and Instance::try_resolve", "rbgp-facts JSON export",
                             "spec tables in analysis/specs transcribed from the property text and RFCs"],
        },
        "assumptions": assumptions,
        "wall_s": round(time.time() - report.t0, 2),
        "violations": len(viols),
    }
    os.makedirs(os.path.dirname(ev_path), exist_ok=True)
    with open(ev_path, "w") as fh:
        json.dump(ev, fh, indent=1)
    out.write("[%s] rules=%d obligations=%d discharged=%d known=%d new-violations=%d\n" % (
        report.prop, len(report.rules), obligations, discharged, len(knowns), len(viols)))
    if viols:
        out.write("VIOLATION property=%s replay=%s\n" % (report.prop, os.path.relpath(ev_path, VERIF)))
        return 1
    return 0
