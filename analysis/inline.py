"""Transparent helpers: functions that did not exist in the reviewed baseline (specs/baseline_fns.txt) are spliced into
their callers' MIR before any rule looks at it.

The rules were written against the function decomposition of the reviewed tree.  Extracting a block into a new private
helper is the most common behaviour-preserving edit; without this pass every rule that states something about "the
body of X" would lose sight of the moved statements (a false alarm), and a real change hidden in a new helper would be
invisible to rules that do not follow calls.  Splicing is purely syntactic (locals and blocks of the callee are
renumbered and appended, arguments become assignments, `return` becomes an assignment to the call's destination plus a
jump to the continuation), so the result is an ordinary body for every analysis downstream.
Not inlined (the call stays a call): recursion, async fns / coroutines, bodies above MAX_BLOCKS, nesting beyond MAX_DEPTH."""
import copy
import os

MAX_DEPTH = 4
MAX_BLOCKS = 600
BASELINE = os.path.join(os.path.dirname(os.path.abspath(__file__)), "specs", "baseline_fns.txt")


def load_baseline():
    try:
        with open(BASELINE) as fh:
            return {l.rstrip("\n") for l in fh if l.strip() and not l.startswith("#")}
    except OSError:
        return None


def _renum(x, loff, boff):
    """Shift every local index by loff and every block index by boff, in place."""
    if isinstance(x, dict):
        if "l" in x and isinstance(x["l"], int):
            x["l"] += loff
        if "i" in x and isinstance(x["i"], int) and len(x) == 1:
            x["i"] += loff
        for key in ("to", "uw", "else"):
            if key in x and isinstance(x[key], int) and "t" in x:
                x[key] += boff
        if x.get("t") == "switch":
            x["cases"] = [[v, b + boff] for v, b in x["cases"]]
        for k, v in x.items():
            if k in ("cases", "k", "f"):
                continue
            _renum(v, loff, boff)
    elif isinstance(x, list):
        for v in x:
            _renum(v, loff, boff)


def callee_key(t):
    f = t.get("f", {})
    return f.get("rkey") or f.get("key")


def splice(prog, f, stack=(), depth=0):
    """Return a copy of fn record `f` with calls to transparent helpers replaced by their bodies (or `f` itself)."""
    if not prog.transparent:
        return f
    todo = [bi for bi, b in enumerate(f["blocks"]) if b["t"]["t"] == "call" and callee_key(b["t"]) in prog.transparent and not b["cl"]]
    if not todo:
        return f
    f = copy.deepcopy(f)
    blocks, locs, dbg = f["blocks"], f["locals"], f["dbg"]
    inlined = f.setdefault("inlined", [])
    for bi in todo:
        t = blocks[bi]["t"]
        k = callee_key(t)
        if k in stack or k == f["key"] or depth >= MAX_DEPTH:
            continue
        g = prog.fn(k, _stack=stack + (f["key"],), _depth=depth + 1)
        if g.get("cor") or g["kind"] not in ("fn", "method") or len(g["blocks"]) > MAX_BLOCKS or len(t["args"]) != g["argc"]:
            continue
        loff, boff = len(locs), len(blocks)
        locs.extend(g["locals"])
        for d in g.get("dbg", []):
            d2 = copy.deepcopy(d)
            _renum(d2, loff, 0)
            dbg.append(d2)
        cont = t.get("to")
        for gb in g["blocks"]:
            nb = copy.deepcopy(gb)
            _renum(nb, loff, boff)
            tt = nb["t"]
            if tt["t"] == "ret":
                nb["s"].append({"p": copy.deepcopy(t["dest"]), "rv": {"r": "use", "o": {"m": {"l": loff}}}, "ln": t.get("ln", 0), "x": False})
                nb["t"] = {"t": "goto", "to": cont} if cont is not None else {"t": "unreachable"}
            elif tt["t"] == "resume":
                nb["t"] = {"t": "goto", "to": t["uw"]} if t.get("uw") is not None else {"t": "resume"}
            elif tt["t"] in ("call", "assert", "drop") and tt.get("uw") is None and t.get("uw") is not None and not nb["cl"]:
                tt["uw"] = t["uw"]
            blocks.append(nb)
        for i, a in enumerate(t["args"]):
            blocks[bi]["s"].append({"p": {"l": loff + 1 + i}, "rv": {"r": "use", "o": a}, "ln": t.get("ln", 0), "x": False, "arg_of": k})
        blocks[bi]["t"] = {"t": "goto", "to": boff, "inl": k, "ln": t.get("ln", 0)}
        inlined.append(k)
        inlined.extend(g.get("inlined", []))
    return f
