"""Transparent helpers: functions that did not exist in the reviewed baseline (specs/baseline_fns.txt) are spliced into
their callers' MIR before any rule looks at it.

The rules were written against the function decomposition of the reviewed tree.  Extracting a block into a new private
helper is the most common behaviour-preserving edit; without this pass every rule that states something about "the
body of X" would lose sight of the moved statements (a false alarm), and a real change hidden in a new helper would be
invisible to rules that do not follow calls.  Splicing is purely syntactic (locals and blocks of the callee are
renumbered and appended, arguments become assignments, `return` becomes an assignment to the call's destination plus a
jump to the continuation), so the result is an ordinary body for every analysis downstream.
Not inlined (the call stays a call): recursion, async fns / coroutines, bodies above MAX_BLOCKS, nesting beyond MAX_DEPTH."""
import copy
import os

MAX_DEPTH = 4
MAX_BLOCKS = 600
BASELINE = os.path.join(os.path.dirname(os.path.abspath(__file__)), "specs", "baseline_fns.txt")


def load_baseline():
    try:
        with open(BASELINE) as fh:
            return {l.rstrip("\n") for l in fh if l.strip() and not l.startswith("#")}
    except OSError:
        return None


def _renum(x, loff, boff):
    """Shift every local index by loff and every block index by boff, in place."""
    if isinstance(x, dict):
        if "l" in x and isinstance(x["l"], int):
            x["l"] += loff
        if "i" in x and isinstance(x["i"], int) and len(x) == 1:
            x["i"] += loff
        for key in ("to", "uw", "else"):
            if key in x and isinstance(x[key], int) and "t" in x:
                x[key] += boff
        if x.get("t") == "switch":
            x["cases"] = [[v, b + boff] for v, b in x["cases"]]
        for k, v in x.items():
            if k in ("cases", "k", "f"):
                continue
            _renum(v, loff, boff)
    elif isinstance(x, list):
        for v in x:
            _renum(v, loff, boff)


def callee_key(t):
    f = t.get("f", {})
    return f.get("rkey") or f.get("key")


def splice(prog, f, stack=(), depth=0):
    """Return a copy of fn record `f` with calls to transparent helpers replaced by their bodies (or `f` itself)."""
    if not prog.transparent:
        return f
    todo = [bi for bi, b in enumerate(f["blocks"]) if b["t"]["t"] == "call" and callee_key(b["t"]) in prog.transparent and not b["cl"]]
    if not todo:
        return f
    f = copy.deepcopy(f)
    blocks, locs, dbg = f["blocks"], f["locals"], f["dbg"]
    inlined = f.setdefault("inlined", [])
    for bi in todo:
        t = blocks[bi]["t"]
        k = callee_key(t)
        if k in stack or k == f["key"] or depth >= MAX_DEPTH:
            continue
        g = prog.fn(k, _stack=stack + (f["key"],), _depth=depth + 1)
        if g.get("cor") or g["kind"] not in ("fn", "method") or len(g["blocks"]) > MAX_BLOCKS or len(t["args"]) != g["argc"]:
            continue
        loff, boff = len(locs), len(blocks)
        locs.extend(g["locals"])
        for d in g.get("dbg", []):
            d2 = copy.deepcopy(d)
            _renum(d2, loff, 0)
            dbg.append(d2)
        cont = t.get("to")
        for gb in g["blocks"]:
            nb = copy.deepcopy(gb)
            _renum(nb, loff, boff)
            tt = nb["t"]
            if tt["t"] == "ret":
                nb["s"].append({"p": copy.deepcopy(t["dest"]), "rv": {"r": "use", "o": {"m": {"l": loff}}}, "ln": t.get("ln", 0), "x": False})
                nb["t"] = {"t": "goto", "to": cont} if cont is not None else {"t": "unreachable"}
            elif tt["t"] == "resume":
                nb["t"] = {"t": "goto", "to": t["uw"]} if t.get("uw") is not None else {"t": "resume"}
            elif tt["t"] in ("call", "assert", "drop") and tt.get("uw") is None and t.get("uw") is not None and not nb["cl"]:
                tt["uw"] = t["uw"]
            blocks.append(nb)
        for i, a in enumerate(t["args"]):
            blocks[bi]["s"].append({"p": {"l": loff + 1 + i}, "rv": {"r": "use", "o": a}, "ln": t.get("ln", 0), "x": False, "arg_of": k})
        blocks[bi]["t"] = {"t": "goto", "to": boff, "inl": k, "ln": t.get("ln", 0)}
        inlined.append(k)
        inlined.extend(g.get("inlined", []))
    return f


# ------------------------------------------------------------------------------------------------------------------
# Deep view: closures called directly and the Option / Result combinators that take a closure are expanded in place, so that
# a boolean decider reads as one control-flow graph however it is spelled (`x.is_some_and(|v| ..)`, `if let Some(v) = x && ..`,
# a local `let contains = |asn| ..; contains(a) || contains(b)`).  Used by analysis/predicates.py only.
import re as _re

_COMB = _re.compile(r"(?:option::Option::<T>::(is_some_and|is_none_or|map_or|map|and_then)|result::Result::<T, E>::(is_ok_and|is_err_and))$")
_FNCALL = _re.compile(r"ops::(?:function::)?(Fn|FnMut|FnOnce)::call(_mut|_once)?$")
DEEP_MAX = 4


def _closure_of_local(f, l, hops=4):
    for b in f["blocks"]:
        for s in b["s"]:
            if "rv" in s and s["p"]["l"] == l and not s["p"].get("p"):
                rv = s["rv"]
                if rv["r"] == "agg" and rv.get("k") == "closure":
                    return rv.get("def")
                if hops > 0 and rv["r"] in ("ref", "use"):
                    q = rv.get("p") if rv["r"] == "ref" else (rv["o"].get("c") or rv["o"].get("m"))
                    if q is not None and not q.get("p"):
                        return _closure_of_local(f, q["l"], hops - 1)
    return None


def _op_local(o):
    q = o.get("c") or o.get("m")
    return q["l"] if (q is not None and not q.get("p")) else None


def deep_splice(prog, f, depth=0, stack=(), only=None):
    """only: restrict to kinds, e.g. ("call",) = directly called closures, no combinators."""
    if depth >= DEEP_MAX:
        return f
    todo = []
    for bi, b in enumerate(f["blocks"]):
        t = b["t"]
        if b["cl"] or t["t"] != "call" or t.get("to") is None:
            continue
        nm = t["f"].get("name") or ""
        if _re.search(r"bool>?::then_some$", nm) and (only is None or "comb" in only) and len(t.get("args", [])) == 2:
            todo.append((bi, "then_some"))
            continue
        m = _COMB.search(nm)
        if m and (only is None or "comb" in only):
            todo.append((bi, m.group(1) or m.group(2)))
        elif _FNCALL.search(nm) and (only is None or "call" in only):
            todo.append((bi, "call"))
    if not todo:
        return f
    f = copy.deepcopy(f)
    blocks, locs, dbg = f["blocks"], f["locals"], f["dbg"]

    def new_local(ty):
        locs.append(ty)
        return len(locs) - 1

    def add_block(stmts, term):
        blocks.append({"cl": False, "s": stmts, "t": term})
        return len(blocks) - 1

    def inline_closure(ck, env_op, arg_places, dest, cont, ln):
        """Append the closure body; returns the entry block index (or None)."""
        if ck is None or ck not in prog.ix or ck in stack:
            return None
        g = deep_splice(prog, prog.fn(ck), depth + 1, stack + (ck,), only)
        if g.get("cor") or len(g["blocks"]) > MAX_BLOCKS or g["argc"] != 1 + len(arg_places):
            return None
        loff, boff = len(locs), len(blocks) + 1       # +1: the argument block comes first
        locs.extend(g["locals"])
        for d in g.get("dbg", []):
            d2 = copy.deepcopy(d)
            _renum(d2, loff, 0)
            dbg.append(d2)
        stm = [{"p": {"l": loff + 1}, "rv": {"r": "use", "o": env_op}, "ln": ln, "x": False}]
        for i, ap in enumerate(arg_places):
            stm.append({"p": {"l": loff + 2 + i}, "rv": {"r": "use", "o": {"m": ap}}, "ln": ln, "x": False})
        entry = add_block(stm, {"t": "goto", "to": boff})
        assert entry == boff - 1
        for gb in g["blocks"]:
            nb = copy.deepcopy(gb)
            _renum(nb, loff, boff)
            tt = nb["t"]
            if tt["t"] == "ret":
                nb["s"].append({"p": copy.deepcopy(dest), "rv": {"r": "use", "o": {"m": {"l": loff}}}, "ln": ln, "x": False})
                nb["t"] = {"t": "goto", "to": cont}
            blocks.append(nb)
        return entry

    opt = next((k for k, a in prog.adts.items() if a.get("name") == "std::option::Option"), "core::option::Option")
    res = next((k for k, a in prog.adts.items() if a.get("name") == "std::result::Result"), "core::result::Result")
    for bi, kind in todo:
        t = blocks[bi]["t"]
        ln = t.get("ln", 0)
        dest, cont, args = t["dest"], t["to"], t["args"]
        if kind == "call":
            ck = t["f"].get("rkey") if (t["f"].get("rkey") in prog.ix and prog.ix[t["f"]["rkey"]]["kind"] == "closure") else None
            if ck is None:
                l0 = _op_local(args[0])
                ck = _closure_of_local(f, l0) if l0 is not None else None
            tl = _op_local(args[1]) if len(args) > 1 else None
            if ck is None or ck not in prog.ix or tl is None:
                continue
            n_args = prog.fn(ck)["argc"] - 1
            arg_places = [{"l": tl, "p": [{"f": i, "n": ""}]} for i in range(n_args)]
            entry = inline_closure(ck, args[0], arg_places, dest, cont, ln)
            if entry is None:
                continue
            blocks[bi]["t"] = {"t": "goto", "to": entry, "inl": ck, "ln": ln}
            continue
        if kind == "then_some":
            # b.then_some(v): Some(v) if b else None
            b_some = add_block([{"p": copy.deepcopy(dest), "rv": {"r": "agg", "k": "adt", "adt": opt, "adtn": "std::option::Option", "v": "Some", "fn": ["0"], "fields": [args[1]]},
                                 "ln": ln, "x": False}], {"t": "goto", "to": cont})
            b_none = add_block([{"p": copy.deepcopy(dest), "rv": {"r": "agg", "k": "adt", "adt": opt, "adtn": "std::option::Option", "v": "None", "fn": [], "fields": []},
                                 "ln": ln, "x": False}], {"t": "goto", "to": cont})
            blocks[bi]["t"] = {"t": "switch", "o": args[0], "cases": [[0, b_none]], "else": b_some, "ty": "bool", "ln": ln, "x": False, "inl": kind}
            continue
        # combinators
        ol = _op_local(args[0])
        fl = _op_local(args[-1])
        ck = _closure_of_local(f, fl) if fl is not None else None
        if ol is None or ck is None:
            continue
        is_opt = kind in ("is_some_and", "is_none_or", "map_or", "map", "and_then")
        adt = opt if is_opt else res
        wrap_some = kind == "map"           # Some(x) -> Some(f(x)); None -> None
        none_agg = {"r": "agg", "k": "adt", "adt": opt, "adtn": "std::option::Option", "v": "None", "fn": [], "fields": []}
        # variant holding the payload handed to the closure, and the constant result of the other variant
        if is_opt:
            pay_variant, pay_idx = "Some", 1
            other = {"is_some_and": {"k": {"ty": "bool", "v": 0}}, "is_none_or": {"k": {"ty": "bool", "v": 1}}, "map_or": args[1] if len(args) == 3 else None,
                     "map": "none", "and_then": "none"}[kind]
        elif kind == "is_ok_and":
            pay_variant, pay_idx, other = "Ok", 0, {"k": {"ty": "bool", "v": 0}}
        else:
            pay_variant, pay_idx, other = "Err", 1, {"k": {"ty": "bool", "v": 0}}
        if other is None:
            continue
        pay_place = {"l": ol, "p": [{"d": pay_variant, "vi": pay_idx}, {"f": 0, "n": "0"}]}
        if wrap_some:
            # the closure's value goes into a fresh local, then dest = Some(that)
            rl = new_local("?")
            b_wrap = add_block([{"p": copy.deepcopy(dest), "rv": {"r": "agg", "k": "adt", "adt": opt, "adtn": "std::option::Option", "v": "Some", "fn": ["0"],
                                                                   "fields": [{"m": {"l": rl}}]}, "ln": ln, "x": False}], {"t": "goto", "to": cont})
            entry = inline_closure(ck, args[-1], [pay_place], {"l": rl}, b_wrap, ln)
        else:
            entry = inline_closure(ck, args[-1], [pay_place], dest, cont, ln)
        if entry is None:
            continue
        if other == "none":
            b_other = add_block([{"p": copy.deepcopy(dest), "rv": copy.deepcopy(none_agg), "ln": ln, "x": False}], {"t": "goto", "to": cont})
        else:
            b_other = add_block([{"p": copy.deepcopy(dest), "rv": {"r": "use", "o": other}, "ln": ln, "x": False}], {"t": "goto", "to": cont})
        b_unr = add_block([], {"t": "unreachable"})
        d = new_local("isize")
        blocks[bi]["s"].append({"p": {"l": d}, "rv": {"r": "discr", "p": {"l": ol}, "adt": adt}, "ln": ln, "x": False})
        cases = [[pay_idx, entry], [1 - pay_idx, b_other]]
        blocks[bi]["t"] = {"t": "switch", "o": {"m": {"l": d}}, "cases": sorted(cases), "else": b_unr, "ty": "isize", "ln": ln, "x": False, "inl": kind}
    return f


def directly_called_only(prog, key):
    """Closures created in `key` whose value is used for nothing but direct calls (`let f = |x| ..; f(a); f(b)`): with the
    calls expanded in place (deep_splice only=("call",)) their bodies need no analysis of their own."""
    f = prog.fn(key)
    out = set()
    clos = {}
    for b in f["blocks"]:
        for s in b["s"]:
            rv = s.get("rv")
            if rv and rv["r"] == "agg" and rv.get("k") == "closure" and not s["p"].get("p"):
                clos[s["p"]["l"]] = rv.get("def")
    if not clos:
        return out
    # locals that alias a closure local by reference
    alias = {l: l for l in clos}
    for b in f["blocks"]:
        for s in b["s"]:
            rv = s.get("rv")
            if rv and rv["r"] == "ref" and not rv["p"].get("p") and rv["p"]["l"] in clos and not s["p"].get("p"):
                alias[s["p"]["l"]] = rv["p"]["l"]
    bad = set()
    called = set()
    for b in f["blocks"]:
        t = b["t"]
        for s in b["s"]:
            rv = s.get("rv")
            if not rv:
                continue
            ls = set()
            _locals(rv, ls)
            for l in ls & set(alias):
                if rv["r"] == "ref" and rv["p"]["l"] == l and not rv["p"].get("p"):
                    continue
                if rv["r"] == "agg" and rv.get("k") == "closure" and s["p"]["l"] == l:
                    continue
                bad.add(alias[l])
        if t["t"] == "call":
            nm = t["f"].get("name") or ""
            for i, a in enumerate(t.get("args", [])):
                l = _op_local(a)
                if l in alias:
                    if _FNCALL.search(nm) and i == 0:
                        called.add(alias[l])
                    else:
                        bad.add(alias[l])
    for l, ck in clos.items():
        if l in called and l not in bad and ck:
            out.add(ck)
    return out


def _locals(x, out):
    if isinstance(x, dict):
        if "l" in x and isinstance(x["l"], int):
            out.add(x["l"])
        for v in x.values():
            _locals(v, out)
    elif isinstance(x, list):
        for v in x:
            _locals(v, out)
