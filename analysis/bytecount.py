"""Upper bound on the number of bytes a function appends to a buffer parameter (`dst: &mut B`, B: BufMut).

Static path-weight analysis over the MIR CFG: every block gets the number of bytes its terminator call may
append to the tracked buffer (constant for put_u8/u16/..., the abstract interpreter's upper bound for
put_slice / put_bytes, the callee's own bound for workspace callees that receive the buffer); the bound of the
function is the heaviest entry->return path, natural loops being collapsed innermost-first into
(iterations bound) x (heaviest path through the body).  Iteration bounds come from the abstract interpreter:
`for i in a..b` (hi(b) - lo(a)), `for x in slice.iter()` (hi(len(slice))), anything else is unbounded.
INF means "no bound derivable" (fail closed for the caller)."""
import re

from .absint import INF, analyse
from .cfg import FnView
from .facts import callee_names
from .models import referent, operand_local, _len_term
from .util import loops

PUT_FIXED = {"put_u8": 1, "put_i8": 1, "put_u16": 2, "put_i16": 2, "put_u16_le": 2, "put_u32": 4, "put_i32": 4, "put_u32_le": 4, "put_f32": 4,
             "put_u64": 8, "put_i64": 8, "put_f64": 8, "put_u128": 16, "put_i128": 16}
NO_WRITE = re.compile(r".*::(len|is_empty|as_mut|as_ref|remaining_mut|remaining|reserve|capacity|chunk_mut|deref|deref_mut|borrow|borrow_mut|has_remaining_mut|clone|index|index_mut)$")


class ByteCount:
    def __init__(self, prog, type_invariants=None, profile="debug"):
        self.prog = prog
        self.inv = type_invariants or {}
        self.profile = profile
        self.memo = {}
        self.notes = {}      # key -> list of human-readable reasons for INF / bounds
        self.stack = set()
        prog.__dict__["_bytecount"] = self      # lets the interpreter bound buffers filled by workspace encoders

    # ------------------------------------------------------------------ public
    def bound(self, key, param):
        """Max bytes appended to the buffer passed as local `param` (1-based) of function `key`."""
        mk = (key, param)
        if mk in self.memo:
            return self.memo[mk]
        if mk in self.stack:
            return INF                      # recursion: no bound
        self.stack.add(mk)
        try:
            v = self._bound(key, param)
        except Exception as ex:              # analysis failure = no bound (fail closed)
            self.notes.setdefault(mk, []).append("analysis failed: %r" % ex)
            v = INF
        self.stack.discard(mk)
        if v != INF and v >= 2 ** 32:
            self.notes.setdefault(mk, []).append("the only bound is the allocation limit")
            v = INF
        self.memo[mk] = v
        return v

    def exact(self, key, param):
        """(min, max) bytes appended over all entry->return paths of a loop-free function (None if it has loops)."""
        it = analyse(self.prog, key, self.profile, type_invariants=self.inv)
        fv = it.fv
        if loops(fv):
            return None
        self.bound(key, param)          # fills per-callee memo
        w = self._weights(key, param, it, [])
        order = self._topo(set(fv.live), {b: [s for _, s in fv.succ[b] if s in fv.live] for b in fv.live}, lambda b: b, fv.entry)
        if order is None:
            return None
        lo = {b: INF for b in fv.live}
        hi = {b: -INF for b in fv.live}
        lo[fv.entry] = hi[fv.entry] = w.get(fv.entry, 0)
        for b in order:
            if hi[b] == -INF:
                continue
            for _, s_ in fv.succ[b]:
                if s_ in fv.live and s_ != b:
                    lo[s_] = min(lo[s_], lo[b] + w.get(s_, 0))
                    hi[s_] = max(hi[s_], hi[b] + w.get(s_, 0))
        rets = [r for r in fv.returns() if hi.get(r, -INF) != -INF]
        if not rets:
            return None
        return (min(lo[r] for r in rets), max(hi[r] for r in rets))

    # ------------------------------------------------------------------ internals
    def _aliases(self, it, st, o, param):
        r = referent(it, st, o)
        return r in ("L%d" % param, "L%d.*" % param)

    def _bound(self, key, param):
        prog = self.prog
        it = analyse(prog, key, self.profile, type_invariants=self.inv)
        mk = (key, param)
        notes = self.notes.setdefault(mk, [])
        w = self._weights(key, param, it, notes)
        return self._heaviest(it, it.fv, w, notes)

    def _weights(self, key, param, it, notes):
        prog = self.prog
        fv = it.fv
        w = {}
        for b in fv.live:
            w[b] = 0
            t = fv.blocks[b]["t"]
            if t["t"] != "call" or b not in it.IN:
                continue
            st = it.IN[b].copy()
            # replay the block's statements so that temporaries defined in it are known
            for si, s in enumerate(fv.blocks[b]["s"]):
                if "rv" in s:
                    it.do_assign(st, s, b, si, False)
            args = t.get("args", [])
            hits = [i for i, a in enumerate(args) if ("k" not in a) and self._aliases(it, st, a, param)]
            if not hits:
                continue
            names = callee_names(t)
            nm = (t["f"].get("name") or "")
            meth = nm.split("::")[-1]
            fk = t["f"].get("rkey") or t["f"].get("key")
            if fk and fk in prog.ix and fk.split("::")[0].startswith("rustybgp"):
                v = 0
                for i in hits:
                    v = max(v, self.bound(fk, i + 1))
                w[b] = v
                if v == INF:
                    notes.append("callee %s has no bound" % prog.name(fk))
                continue
            if hits != [0] and hits[0] != 0:
                w[b] = INF
                notes.append("buffer passed to external %s" % nm)
                continue
            if meth in PUT_FIXED and ("BufMut" in nm or "bytes::" in nm):
                w[b] = PUT_FIXED[meth]
            elif re.search(r"byteorder::WriteBytesExt::write_(u8|i8)$", nm):
                w[b] = 1
            elif re.search(r"byteorder::WriteBytesExt::write_(u|i)(16|32|64|128)$", nm):
                w[b] = int(re.search(r"(\d+)$", nm).group(1)) // 8
            elif meth in ("put_slice", "extend_from_slice", "put", "write_all") and len(args) > 1:
                r = referent(it, st, args[1])
                hi = st.z.hi(_len_term(r)) if r else INF
                w[b] = hi
                if hi == INF:
                    notes.append("%s of a slice with unbounded length at line %s" % (meth, t.get("ln")))
            elif meth == "put_bytes" and len(args) > 2:
                hi = it.range_of(st, args[2])[1]
                w[b] = hi
                if hi == INF:
                    notes.append("put_bytes with unbounded count at line %s" % t.get("ln"))
            elif meth == "push" and re.search(r"Vec::<T(, A)?>::push$", nm):
                w[b] = 1
            elif any(NO_WRITE.fullmatch(n) for n in names):
                w[b] = 0
            else:
                w[b] = INF
                notes.append("unmodelled writer %s at line %s" % (nm, t.get("ln")))
        return w

    def _trip_bound(self, it, fv, head, body, notes):
        """Upper bound on the iterations of the natural loop (head, body)."""
        best = INF
        for b in sorted(body):
            t = fv.blocks[b]["t"]
            if t["t"] != "call" or not (t["f"].get("name") or "").endswith("Iterator::next") or b not in it.IN:
                continue
            st = it.IN[b].copy()
            for si, s in enumerate(fv.blocks[b]["s"]):
                if "rv" in s:
                    it.do_assign(st, s, b, si, False)
            r = referent(it, st, t["args"][0])
            ga = t["f"].get("ga", "")
            if r and re.search(r"ops::Range<\w+>", ga):
                # state at the head joins all iterations: start >= initial start, end fixed
                hs = it.IN.get(head)
                src = hs if hs is not None else st
                lo_s, hi_e = src.z.lo(r + ".f0"), src.z.hi(r + ".f1")
                if lo_s != -INF and hi_e != INF:
                    best = min(best, max(0, hi_e - lo_s))
            m = re.fullmatch(r"L(\d+)", r or "")
            if m:
                ref = st.refs.get(int(m.group(1)), "")
                if ref.startswith(("iter:", "enum:")):
                    hi = st.z.hi(_len_term(ref[5:]))
                    best = min(best, hi)
        if best == INF:
            notes.append("loop at line %s has no iteration bound" % fv.line(head))
        return best

    def _heaviest(self, it, fv, w, notes):
        """Heaviest entry->return path with loops collapsed innermost first."""
        lps = loops(fv)
        # order loops innermost first (smaller body first)
        lps.sort(key=lambda x: len(x[1]))
        w = dict(w)
        succ = {b: [s for _, s in fv.succ[b] if s in fv.live] for b in fv.live}
        merged = {}          # block -> representative (loop head) once collapsed
        def rep(b):
            while b in merged:
                b = merged[b]
            return b
        for head, body, backs in lps:
            body = {rep(b) for b in body}
            h = rep(head)
            # heaviest path from head through the body back to head (back edges removed)
            order = self._topo(body, succ, rep, h)
            if order is None:
                notes.append("irreducible region at line %s" % fv.line(head))
                return INF
            dist = {b: -INF for b in body}
            dist[h] = w.get(h, 0)
            one = w.get(h, 0)
            for b in order:
                if dist[b] == -INF:
                    continue
                for s in succ.get(b, []):
                    s = rep(s)
                    if s == h:
                        one = max(one, dist[b])
                        continue
                    if s in body and s != b:
                        dist[s] = max(dist[s], dist[b] + w.get(s, 0))
            # the last, partial pass: from the head to whichever block leaves the loop
            partial = 0
            for b in body:
                if dist[b] != -INF and any(rep(s) not in body for s in succ.get(b, [])):
                    partial = max(partial, dist[b])
            heavy = max([one] + [d for d in dist.values() if d != -INF])
            trips = self._trip_bound(it, fv, head, {b for b in fv.live if rep(b) in body or b in body}, notes) if heavy > 0 else 0
            total = 0 if heavy == 0 else (INF if (trips == INF or heavy == INF) else one * trips + partial)
            if total != INF and total >= 2 ** 32:
                total = INF          # a "bound" of that size is no bound
                notes.append("loop at line %s: iteration bound is only the allocation limit" % fv.line(head))
            w[h] = total
            outs = set()
            for b in body:
                for s in succ.get(b, []):
                    s2 = rep(s)
                    if s2 not in body:
                        outs.add(s2)
                if b != h:
                    merged[b] = h
            succ[h] = sorted(outs)
        # DAG longest path over representatives
        nodes = {rep(b) for b in fv.live}
        order = self._topo(nodes, succ, rep, rep(fv.entry))
        if order is None:
            notes.append("cycle left after collapsing loops")
            return INF
        dist = {b: -INF for b in nodes}
        e = rep(fv.entry)
        dist[e] = w.get(e, 0)
        for b in order:
            if dist[b] == -INF:
                continue
            for s in succ.get(b, []):
                s = rep(s)
                if s != b and s in dist:
                    dist[s] = max(dist[s], dist[b] + w.get(s, 0))
        rets = [rep(r) for r in fv.returns()]
        vals = [dist[r] for r in rets if dist.get(r, -INF) != -INF]
        return max(vals) if vals else 0

    @staticmethod
    def _topo(nodes, succ, rep, start):
        indeg = {b: 0 for b in nodes}
        for b in nodes:
            for s in succ.get(b, []):
                s = rep(s)
                if s in indeg and s != b and not (s == start and b != start and False):
                    indeg[s] += 1
        # edges back to `start` inside a loop body are back edges: ignore them
        for b in nodes:
            for s in succ.get(b, []):
                if rep(s) == start and b != start and start in indeg:
                    indeg[start] -= 1
        order, work = [], [b for b in nodes if indeg[b] <= 0]
        seen = set()
        while work:
            b = work.pop()
            if b in seen:
                continue
            seen.add(b)
            order.append(b)
            for s in succ.get(b, []):
                s = rep(s)
                if s in indeg and s != b and s != start:
                    indeg[s] -= 1
                    if indeg[s] <= 0:
                        work.append(s)
        if len(order) != len(nodes):
            return None
        return order
