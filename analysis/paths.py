"""Path enumeration over a small function's CFG with propagation of boolean / small-integer constants.

For rules of the form "X happens exactly under conditions C1..Cn" the way the code spells the decision (a flag that is set
in one place and tested in another, nested ifs, early returns, let-else chains) must not matter.  Enumerating the acyclic
entry->exit paths and following, at a switch on a local whose value is a known constant along the path, only the matching
edge gives the decision table itself: every path = (branch outcomes, blocks visited).  Loop bodies are entered at most
once per path (a block is not revisited), which is exact for the loop-free deciders this is used on."""
from .cfg import Renderer, branches, _labels_for


import re as _re
_IS_VARIANT = _re.compile(r"(?:Option::<T>|Result::<T, E>)::(is_some|is_none|is_ok|is_err)$")


class PathLimit(Exception):
    pass


def enumerate_paths(fv, rend=None, max_paths=50000, loop_visits=2):
    """Yield (conds, blocks): conds = [(Branch, labels set)] in path order for switches not decided by a known constant,
    blocks = list of block indices.  Paths end at `ret` blocks (paths that end in unreachable / diverging calls are dropped)."""
    rend = rend or Renderer(fv, depth=10, through_names=True)
    brs = branches(fv, rend)
    out = []
    count = [0]
    # a loop head may be passed `loop_visits` times on one path (enter the body once, come back, leave), other blocks once
    heads = set()
    for b in fv.live:
        for _, s2 in fv.succ[b]:
            if fv.dominates(s2, b):
                heads.add(s2)
    # the test that leaves a loop usually sits in the blocks right behind the head: every block that is part of a cycle may
    # be passed `loop_visits` times
    cyc = set()
    for h in heads:
        body = {b for b in fv.live if h in fv.reach(b) and b in fv.reach(h)}
        cyc |= body | {h}
    heads = cyc

    def can_visit(seen, nb):
        c = seen.get(nb, 0)
        return c < (loop_visits if nb in heads else 1)

    def visit(seen, nb):
        s2 = dict(seen)
        s2[nb] = s2.get(nb, 0) + 1
        return s2

    def pkey(p):
        """(local, projection names) of a place; None if it has an index / deref of unknown target."""
        out = []
        for e in p.get("p") or []:
            if e == "*":
                continue
            if isinstance(e, dict) and "f" in e:
                out.append(e.get("n") or str(e["f"]))
            elif isinstance(e, dict) and "d" in e:
                out.append("@" + e["d"])
            else:
                return None
        return (p["l"], tuple(out))

    def label_of_const(k):
        if isinstance(k.get("v"), int) and k.get("ty") in ("bool", "u8", "u16", "u32", "u64", "usize", "i32", "isize"):
            return k["v"]
        if k.get("variant"):
            return k["variant"]
        return None

    def kill(env, key):
        for k2 in [k2 for k2 in env if k2[0] == key[0] and k2[1][:len(key[1])] == key[1]]:
            del env[k2]

    def copy(env, src, dst):
        for k2, v in list(env.items()):
            if k2[0] == src[0] and k2[1][:len(src[1])] == src[1]:
                env[(dst[0], dst[1] + k2[1][len(src[1]):])] = v

    def step_env(env, b):
        env = dict(env)
        for s in fv.blocks[b]["s"]:
            if "rv" not in s:
                continue
            dk = pkey(s["p"])
            if dk is None:
                continue
            rv = s["rv"]
            kill(env, dk)
            if rv["r"] == "use":
                o = rv["o"]
                if "k" in o:
                    lab = label_of_const(o["k"])
                    if lab is not None:
                        env[dk] = lab
                    continue
                q = o.get("c") or o.get("m")
                sk = pkey(q) if q is not None else None
                if sk is not None:
                    copy(env, sk, dk)
                continue
            if rv["r"] == "un" and rv.get("op") == "Not":
                q = rv["a"].get("c") or rv["a"].get("m")
                sk = pkey(q) if q is not None else None
                if sk is not None and sk in env and env[sk] in (0, 1):
                    env[dk] = 0 if env[sk] else 1
                continue
            if rv["r"] == "ref":
                sk = pkey(rv["p"])
                if sk is not None:
                    env[(dk[0], dk[1] + ("#refof",))] = sk
                continue
            if rv["r"] == "discr":
                # discriminant of a place whose variant is known on this path (built by an aggregate earlier on it)
                sk = pkey(rv["p"])
                vn = env.get((sk[0], sk[1] + ("#variant",))) if sk is not None else None
                if vn is not None:
                    adt = fv.prog.adts.get(rv.get("adt")) or {}
                    for v_ in adt.get("variants", []):
                        if v_["n"] == vn:
                            env[dk] = v_["d"]
                continue
            if rv["r"] == "agg":
                if rv.get("k") == "adt":
                    adt = fv.prog.adts.get(rv.get("adt")) or {}
                    is_enum = adt.get("kind") == "enum"
                    if is_enum:
                        env[(dk[0], dk[1] + ("#variant",))] = rv.get("v")
                    if is_enum and not rv["fields"]:
                        env[dk] = rv.get("v")
                    names = rv.get("fn") or [str(i) for i in range(len(rv["fields"]))]
                    for i, fo in enumerate(rv["fields"]):
                        fk = (dk[0], dk[1] + ((("@" + rv["v"]),) if is_enum else ()) + (names[i] if i < len(names) else str(i),))
                        if "k" in fo:
                            lab = label_of_const(fo["k"])
                            if lab is not None:
                                env[fk] = lab
                        else:
                            q = fo.get("c") or fo.get("m")
                            sk = pkey(q) if q is not None else None
                            if sk is not None:
                                copy(env, sk, fk)
                elif rv.get("k") == "tuple":
                    for i, fo in enumerate(rv["fields"]):
                        fk = (dk[0], dk[1] + (str(i),))
                        if "k" in fo:
                            lab = label_of_const(fo["k"])
                            if lab is not None:
                                env[fk] = lab
                        else:
                            q = fo.get("c") or fo.get("m")
                            sk = pkey(q) if q is not None else None
                            if sk is not None:
                                copy(env, sk, fk)
                continue
        t = fv.blocks[b]["t"]
        if t["t"] == "call" and t.get("dest"):
            dk = pkey(t["dest"])
            if dk is not None:
                kill(env, dk)
            # is_some / is_none / is_ok / is_err of a place whose variant is known on this path
            nm_ = (t["f"].get("name") or "")
            m_ = _IS_VARIANT.search(nm_)
            if m_ and dk is not None and t.get("args"):
                q = t["args"][0].get("c") or t["args"][0].get("m")
                ak = pkey(q) if q is not None else None
                src = env.get((ak[0], ak[1] + ("#refof",))) if ak is not None else None
                vn = env.get((src[0], src[1] + ("#variant",))) if src is not None else None
                if vn is not None:
                    want = {"is_some": "Some", "is_none": "None", "is_ok": "Ok", "is_err": "Err"}[m_.group(1)]
                    env[dk] = 1 if vn == want else 0
            # a callee that gets `&mut x` may change x
            for a in t.get("args", []):
                q = a.get("c") or a.get("m")
                if q is not None and not q.get("p"):
                    ty = fv.f["locals"][q["l"]] if q["l"] < len(fv.f["locals"]) else ""
                    if ty.startswith("&mut"):
                        for s in fv.defs().get(q["l"], []):
                            if s[1] != "t" and s[2]["rv"]["r"] == "ref":
                                rk = pkey(s[2]["rv"]["p"])
                                if rk is not None:
                                    kill(env, rk)
        return env

    def go(b, env, conds, blocks, seen):
        count[0] += 1
        if count[0] > max_paths * 40:
            raise PathLimit()
        blocks = blocks + [b]
        seen_pos = {bb: i for i, bb in enumerate(blocks)}
        env = step_env(env, b)
        t = fv.blocks[b]["t"]
        if t["t"] == "ret":
            out.append((conds, blocks, env))
            if len(out) > max_paths:
                raise PathLimit()
            return
        succ = fv.succ[b]
        if t["t"] == "switch":
            o = t["o"]
            q = o.get("c") or o.get("m")
            qk = pkey(q) if q is not None else None
            if qk is not None and qk in env and isinstance(env[qk], int):
                v = env[qk]
                tgt = None
                for cv, cb in t["cases"]:
                    if cv == v:
                        tgt = cb
                if tgt is None:
                    tgt = t["else"]
                if tgt in fv.live and can_visit(seen, tgt):
                    go(tgt, env, conds, blocks, visit(seen, tgt))
                return
            br = brs.get(b)
            # a switch on a local that is written in several places (the result slot of an expanded closure / combinator,
            # a `let x = if .. {a} else {b}`): on this path its value is the definition last passed
            if br is not None and qk is not None and not qk[1] and br.expr[0] in ("tmp", "var"):
                cur, hops, e_path, multi = qk[0], 0, None, False
                while hops < 24:
                    hops += 1
                    live_defs = [d for d in fv.defs().get(cur, []) if d[0] in fv.live]
                    if len(live_defs) > 1:
                        multi = True
                    ds = [d for d in live_defs if d[0] in seen_pos]
                    if not ds:
                        break
                    bi2, si2, st2 = max(ds, key=lambda d: seen_pos[d[0]])
                    if si2 != "t" and st2["rv"]["r"] == "use":
                        q2 = st2["rv"]["o"].get("c") or st2["rv"]["o"].get("m")
                        if q2 is not None and not q2.get("p"):
                            cur = q2["l"]
                            continue
                        if multi:
                            e_path = rend.rvalue(st2["rv"], rend.depth)     # a copy of a field / projected place
                        break
                    if multi:
                        e_path = rend.call_expr(st2, rend.depth, bi2) if si2 == "t" else rend.rvalue(st2["rv"], rend.depth)
                    break
                if e_path is not None:
                    from .cfg import _Cond
                    c2 = _Cond(e_path, b)
                    c2.cases, c2.otherwise, c2.ty = br.cases, br.otherwise, br.ty
                    c2.label = br.label
                    br = c2
            done = set()
            pure_key = _pure_key(br.expr) if br is not None else None
            for v, nb in succ:
                if not can_visit(seen, nb) or nb not in fv.live or (v, nb) in done:
                    continue
                done.add((v, nb))
                labels = _labels_for(br, fv.prog, v) if br is not None else {str(v)}
                if pure_key is not None:
                    # the same side-effect-free test of never-reassigned variables taken twice on one path: outcomes must agree
                    prev = [l for b0, l in conds if _pure_key(b0.expr) == pure_key]
                    if prev and not (frozenset(labels) & prev[-1]) and "else" not in labels and "else" not in prev[-1]:
                        continue
                go(nb, env, conds + [(br, frozenset(labels))], blocks, visit(seen, nb))
            return
        for v, nb in succ:
            if not can_visit(seen, nb) or nb not in fv.live:
                continue
            go(nb, env, conds, blocks, visit(seen, nb))

    from .cfg import walk as _walk, show as _show

    def _pure_key(e):
        """Text of a branch expression built only from parameters / single-assignment locals, fields and constants."""
        for x in _walk(e):
            if not isinstance(x, tuple) or not x:
                continue
            if x[0] in ("call", "tmp"):
                return None
            if x[0] == "var":
                ls = [l for l, n in fv.local_name.items() if n == x[1]]
                if any(len([d for d in fv.defs().get(l, []) if d[0] in fv.live]) > 1 for l in ls):
                    return None
        return _show(e, 300)

    go(fv.entry, {}, [], [], {fv.entry: 1})
    return out
