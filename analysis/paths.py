"""Path enumeration over a small function's CFG with propagation of boolean / small-integer constants.

For rules of the form "X happens exactly under conditions C1..Cn" the way the code spells the decision (a flag that is set
in one place and tested in another, nested ifs, early returns, let-else chains) must not matter.  Enumerating the acyclic
entry->exit paths and following, at a switch on a local whose value is a known constant along the path, only the matching
edge gives the decision table itself: every path = (branch outcomes, blocks visited).  Loop bodies are entered at most
once per path (a block is not revisited), which is exact for the loop-free deciders this is used on."""
from .cfg import Renderer, branches, _labels_for


class PathLimit(Exception):
    pass


def enumerate_paths(fv, rend=None, max_paths=50000):
    """Yield (conds, blocks): conds = [(Branch, labels set)] in path order for switches not decided by a known constant,
    blocks = list of block indices.  Paths end at `ret` blocks (paths that end in unreachable / diverging calls are dropped)."""
    rend = rend or Renderer(fv, depth=10, through_names=True)
    brs = branches(fv, rend)
    out = []
    count = [0]

    def step_env(env, b):
        env = dict(env)
        for s in fv.blocks[b]["s"]:
            if "rv" not in s:
                continue
            p = s["p"]
            if p.get("p"):
                continue
            rv = s["rv"]
            if rv["r"] == "use":
                o = rv["o"]
                if "k" in o and isinstance(o["k"].get("v"), int) and o["k"].get("ty") in ("bool", "u8", "u16", "u32", "usize", "i32", "isize"):
                    env[p["l"]] = o["k"]["v"]
                    continue
                q = o.get("c") or o.get("m")
                if q is not None and not q.get("p") and q["l"] in env:
                    env[p["l"]] = env[q["l"]]
                    continue
            if rv["r"] == "un" and rv.get("op") == "Not":
                q = rv["a"].get("c") or rv["a"].get("m")
                if q is not None and not q.get("p") and q["l"] in env and fv.f["locals"][p["l"]] == "bool":
                    env[p["l"]] = 0 if env[q["l"]] else 1
                    continue
            env.pop(p["l"], None)
        t = fv.blocks[b]["t"]
        if t["t"] == "call" and t.get("dest") and not t["dest"].get("p"):
            env.pop(t["dest"]["l"], None)
        return env

    def go(b, env, conds, blocks, seen):
        count[0] += 1
        if count[0] > max_paths * 40:
            raise PathLimit()
        blocks = blocks + [b]
        env = step_env(env, b)
        t = fv.blocks[b]["t"]
        if t["t"] == "ret":
            out.append((conds, blocks))
            if len(out) > max_paths:
                raise PathLimit()
            return
        succ = fv.succ[b]
        if t["t"] == "switch":
            o = t["o"]
            q = o.get("c") or o.get("m")
            if q is not None and not q.get("p") and q["l"] in env:
                v = env[q["l"]]
                tgt = None
                for cv, cb in t["cases"]:
                    if cv == v:
                        tgt = cb
                if tgt is None:
                    tgt = t["else"]
                if tgt in fv.live and tgt not in seen:
                    go(tgt, env, conds, blocks, seen | {tgt})
                return
            br = brs.get(b)
            done = set()
            for v, nb in succ:
                if nb in seen or nb not in fv.live or (v, nb) in done:
                    continue
                done.add((v, nb))
                labels = _labels_for(br, fv.prog, v) if br is not None else {str(v)}
                go(nb, env, conds + [(br, frozenset(labels))], blocks, seen | {nb})
            return
        for v, nb in succ:
            if nb in seen or nb not in fv.live:
                continue
            go(nb, env, conds, blocks, seen | {nb})

    go(fv.entry, {}, [], [], {fv.entry})
    return out
