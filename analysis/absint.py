"""A5 — abstract interpretation of MIR for panic freedom.

Domain: a zone (difference-bound constraints  a - b <= c  over terms, with the constant term '0') for integer
locals, integer fields, len(place) and pos(cursor); Option/Result tags per local; reference aliasing of
temporaries.  Worklist fixpoint with widening.  External calls are interpreted through MODELS (trusted,
reviewed); calls to local functions are havoc + return-type range (+ lifted preconditions).

Every site that can unwind becomes an obligation: Assert terminators (Overflow, BoundsCheck, DivisionByZero,
RemainderByZero), unwrap/expect, slice/range indexing, copy_from_slice, split_to, Vec::remove/insert,
explicit panic!/unreachable!/assert!.  An obligation is `discharged` (with the facts used) or `open`.
"""
import re
from collections import defaultdict

from .cfg import FnView
from .facts import callee_names, short

INF = float("inf")
_LOCAL = re.compile(r"L(\d+)")
TYPE_RANGE = {
    "u8": (0, 255), "u16": (0, 65535), "u32": (0, 2 ** 32 - 1), "u64": (0, 2 ** 64 - 1), "usize": (0, 2 ** 64 - 1), "u128": (0, 2 ** 128 - 1),
    "i8": (-128, 127), "i16": (-32768, 32767), "i32": (-2 ** 31, 2 ** 31 - 1), "i64": (-2 ** 63, 2 ** 63 - 1), "isize": (-2 ** 63, 2 ** 63 - 1),
    "bool": (0, 1), "char": (0, 0x10FFFF),
}
# any slice/Vec length is at most isize::MAX bytes
LEN_MAX = 2 ** 63 - 1


class Zone:
    """Difference constraints a - b <= c as edge (a, b) -> c."""

    __slots__ = ("e", "bottom", "_adj", "_dc")

    def __init__(self):
        self.e = {}
        self.bottom = False
        self._adj = None
        self._dc = {}

    def copy(self):
        z = Zone()
        z.e = dict(self.e)
        z.bottom = self.bottom
        return z

    def _dirty(self):
        self._adj = None
        self._dc = {}

    def add(self, a, b, c):
        if a == b:
            if c < 0:
                self.bottom = True
            return
        k = (a, b)
        old = self.e.get(k)
        if old is None or c < old:
            self.e[k] = c
            self._dirty()

    def set_range(self, t, lo, hi):
        if hi is not None and hi != INF:
            self.add(t, "0", hi)
        if lo is not None and lo != -INF:
            self.add("0", t, -lo)

    def eq(self, a, b, c=0):
        """a == b + c"""
        self.add(a, b, c)
        self.add(b, a, -c)

    def dist(self, a, b, limit=64):
        """Tightest provable c with a - b <= c (shortest path a -> b), or INF."""
        if a == b:
            return 0
        best = self._dc.get(a)
        if best is not None:
            return best.get(b, INF)
        # Bellman-Ford style relaxation over the (small) edge set
        adj = self._adj
        if adj is None:
            adj = defaultdict(list)
            for (x, y), c in self.e.items():
                adj[x].append((y, c))
            self._adj = adj
        best = {a: 0}
        frontier = {a}
        rounds = 0
        nodes = len(adj) + 2
        while frontier and rounds < limit:
            nxt = set()
            for x in frontier:
                dx = best[x]
                for y, c in adj.get(x, ()):
                    nd = dx + c
                    if nd < best.get(y, INF):
                        best[y] = nd
                        nxt.add(y)
            frontier = nxt
            rounds += 1
            if rounds > nodes:
                # still relaxing after |V| rounds: negative cycle, the constraint set is unsatisfiable
                self.bottom = True
                break
        self._dc[a] = best
        return best.get(b, INF)

    def hi(self, t):
        return self.dist(t, "0")

    def lo(self, t):
        d = self.dist("0", t)
        return -d if d != INF else -INF

    def implies(self, a, b, c):
        return self.dist(a, b) <= c

    def kill(self, t, keep_through=True):
        if keep_through:
            ins = [(a, c) for (a, b), c in self.e.items() if b == t and a != t]
            outs = [(b, c) for (a, b), c in self.e.items() if a == t and b != t]
            if len(ins) * len(outs) <= 2500:
                for a, c1 in ins:
                    for b, c2 in outs:
                        if a != b:
                            self.add(a, b, c1 + c2)
        for k in [k for k in self.e if k[0] == t or k[1] == t]:
            del self.e[k]
        self._dirty()
        if not t.startswith("Σ("):
            for comp in [x for x in self.terms() if x.startswith("Σ(") and t in x[2:-1].split("+")]:
                self.kill(comp)

    def kill_prefix(self, prefix):
        ts = {x for k in self.e for x in k if _rooted(x, prefix)}
        for t in ts:
            self.kill(t)

    def shift(self, t, c):
        """t := t + c"""
        for comp in [x for x in self.terms() if x.startswith("Σ(") and t in x[2:-1].split("+")]:
            self.kill(comp)
        ne = {}
        for (a, b), w in self.e.items():
            if a == t and b != t:
                ne[(a, b)] = w + c
            elif b == t and a != t:
                ne[(a, b)] = w - c
            else:
                ne[(a, b)] = w
        self.e = ne
        self._dirty()

    def shift_range(self, t, lo, hi):
        """t := t + d for some d in [lo, hi] (hi may be INF): constraints through t are relaxed accordingly."""
        self.reduce_through(t)
        for comp in [x for x in self.terms() if x.startswith("Σ(") and t in x[2:-1].split("+")]:
            self.kill(comp)
        ne = {}
        for (a, b), w in self.e.items():
            if a == t and b != t:
                if hi != INF:
                    ne[(a, b)] = w + hi          # t - b <= w  ==>  t' - b <= w + hi
            elif b == t and a != t:
                ne[(a, b)] = w - lo              # a - t <= w  ==>  a - t' <= w - lo
            else:
                ne[(a, b)] = w
        self.e = ne
        self._dirty()

    def reduce_through(self, t):
        """Make the constraints between t and the terms it is (transitively) related to explicit, so that relaxing
        t's own edges keeps what was implied through other terms."""
        for x in list(self.terms()):
            if x == t:
                continue
            d1, d2 = self.dist(t, x), self.dist(x, t)
            if d1 != INF and self.e.get((t, x), INF) > d1:
                self.e[(t, x)] = d1
            if d2 != INF and self.e.get((x, t), INF) > d2:
                self.e[(x, t)] = d2
        self._dirty()

    def terms(self):
        return {x for k in self.e for x in k}

    def all_dists(self, a):
        self.dist(a, "0")
        return self._dc.get(a, {a: 0})

    def join(self, other, important=None):
        if self.bottom:
            return other.copy()
        if other.bottom:
            return self.copy()
        z = Zone()
        keys = set(self.e) | set(other.e)
        for (a, b) in keys:
            c1 = self.dist(a, b)
            c2 = other.dist(a, b)
            c = max(c1, c2)
            if c != INF:
                z.e[(a, b)] = c
        # facts implied on both sides but explicit on neither: close over the important (stable, named) terms
        common = self.terms() & other.terms()
        imp = [t for t in common if t == "0" or t.startswith("len(") or t.startswith("pos(") or (important and t in important)]
        if len(imp) <= 24:
            for a in imp:
                da, db = self.all_dists(a), other.all_dists(a)
                for b in imp:
                    if a == b or (a, b) in z.e:
                        continue
                    c1, c2 = da.get(b, INF), db.get(b, INF)
                    if c1 != INF and c2 != INF:
                        c = max(c1, c2)
                        if a != "0" and b != "0" and abs(c) > 2 ** 40:
                            continue        # only type-range noise
                        z.e[(a, b)] = c
        return z

    def reduce(self):
        """Drop edges implied by two others through '0' (keeps the edge set small)."""
        e = self.e
        for (a, b) in list(e):
            if a == "0" or b == "0":
                continue
            ha, lb = e.get((a, "0")), e.get(("0", b))
            if ha is not None and lb is not None and ha + lb <= e[(a, b)]:
                del e[(a, b)]
        self._dirty()

    def widen(self, new):
        if self.bottom:
            return new.copy()
        if new.bottom:
            return self.copy()
        z = Zone()
        for k in set(self.e) | set(new.e):
            c = self.dist(k[0], k[1])
            if c == INF:
                continue
            c2 = new.dist(k[0], k[1])
            if c2 <= c:
                z.e[k] = c
        return z

    def leq(self, other):
        """self is at least as strong as other"""
        if self.bottom:
            return True
        if other.bottom:
            return False
        for (a, b), c in other.e.items():
            if self.dist(a, b) > c:
                return False
        return True


_VPAY = re.compile(r"(?:len\(|pos\()?(L\d+(?:\.[\w*]+)*?)\.v(\d+)\.")
_VARIANT_IDX = {"Ok": 0, "Err": 1, "None": 0, "Some": 1, "Continue": 0, "Break": 1}


def _rooted(term, prefix):
    inner = term
    m = re.match(r"(len|pos)\((.*)\)$", term)
    if m:
        inner = m.group(2)
    return inner == prefix or inner.startswith(prefix + ".")


class State:
    __slots__ = ("z", "tags", "refs", "boolx", "ghost", "lin", "vals", "lin_snapshot", "vals_snapshot")

    def __init__(self):
        self.z = Zone()
        self.lin = {}       # term -> (tuple(sorted base vars), const): value == sum(vars) + const
        self.vals = {}      # term -> frozenset of possible integer values (small sets)
        self.tags = {}      # local/place term -> frozenset of possible variant names
        self.refs = {}      # local -> canonical place string it points to
        self.boolx = {}     # bool local -> ("cmp", op, a_term, a_off, b_term, b_off) | ("tagis", term, variant) | ("not", local)
        self.ghost = {}     # result local -> pending effect to apply when its tag is refined to Ok/Some

    important = None     # set per function by Interp: terms of user variables

    def copy(self):
        s = State()
        s.z = self.z.copy()
        s.tags = dict(self.tags)
        s.refs = dict(self.refs)
        s.boolx = dict(self.boolx)
        s.ghost = dict(self.ghost)
        s.lin = dict(self.lin)
        s.vals = dict(self.vals)
        return s

    def join(self, o):
        if self.z.bottom:
            return o.copy()
        if o.z.bottom:
            return self.copy()
        s = State()
        s.z = self.z.join(o.z, State.important)
        for k, v in self.tags.items():
            if k in o.tags:
                s.tags[k] = v | o.tags[k]
        # facts about the payload of one variant of X (terms under `X.vK.`) survive a join with a state in which X is known
        # to be a different variant: there the payload does not exist, so the fact holds vacuously (`Ok(b)` on one path and
        # `Err(e)` on the other, then `?` on the joined value)
        for a_, b_ in ((self, o), (o, self)):
            if not a_.tags or not b_.tags:
                continue
            for (t1, t2), c in a_.z.e.items():
                keep = False
                for t in (t1, t2):
                    m = _VPAY.search(t)
                    if not m:
                        continue
                    x_, vi = m.group(1), int(m.group(2))
                    tg = b_.tags.get(x_)
                    if tg and all(_VARIANT_IDX.get(n_, -1) != vi and n_ in _VARIANT_IDX for n_ in tg) and x_ in a_.tags:
                        keep = True
                if keep and s.z.e.get((t1, t2), INF) > c:
                    # only if the other term is not a fact of the other state's own (it must be shared or payload-local)
                    other_ok = all(_VPAY.search(t) or t == "0" or (b_.z.dist(t, "0") == a_.z.dist(t, "0") and b_.z.dist("0", t) == a_.z.dist("0", t)) for t in (t1, t2))
                    if other_ok:
                        s.z.e[(t1, t2)] = c
                        s.z._adj = None
                        s.z._dc = {}
        for k, v in self.refs.items():
            if o.refs.get(k) == v:
                s.refs[k] = v
        for k, v in self.boolx.items():
            if o.boolx.get(k) == v:
                s.boolx[k] = v
        for k, v in self.ghost.items():
            if o.ghost.get(k) == v:
                s.ghost[k] = v
        for k, v in self.lin.items():
            if o.lin.get(k) == v:
                s.lin[k] = v
        for k, v in self.vals.items():
            if k in o.vals:
                u = v | o.vals[k]
                if len(u) <= 8:
                    s.vals[k] = u
        return s

    def widen(self, o):
        s = self.join(o)
        s.z = self.z.widen(o.z) if not self.z.bottom else o.z.copy()
        return s

    def leq(self, o):
        if self.z.bottom:
            return True
        if not self.z.leq(o.z):
            return False
        for k, v in o.tags.items():
            if k not in self.tags or not (self.tags[k] <= v):
                return False
        for k, v in o.refs.items():
            if self.refs.get(k) != v:
                return False
        for k, v in o.boolx.items():
            if self.boolx.get(k) != v:
                return False
        for k, v in o.vals.items():
            if k not in self.vals or not (self.vals[k] <= v):
                return False
        for k, v in o.lin.items():
            if self.lin.get(k) != v:
                return False
        return True


class Obligation:
    def __init__(self, fn, block, kind, desc, line, snippet):
        self.fn, self.block, self.kind, self.desc, self.line, self.snippet = fn, block, kind, desc, line, snippet
        self.status = "open"
        self.by = ""

    def key(self):
        return "%s|%s" % (self.kind, self.desc)


def int_type(ty):
    ty = ty.strip()
    return ty if ty in TYPE_RANGE else None


class Interp:
    def __init__(self, prog, key, profile="debug", assume=None):
        self.prog = prog
        self.key = key
        # closures the function calls directly are expanded in place: constants and facts flow into them (`let bit = |n| (x >> n) & 1`)
        from .inline import deep_splice as _ds
        self.fv = FnView(prog, key, f=_ds(prog, prog.fn(key), only=("call",)))
        self.f = self.fv.f
        self.profile = profile
        self.obls = {}          # (block, idx) -> Obligation
        self.ret_states = []
        self.ret_defs = []      # states right after each definition of the return place
        self.progress = set()   # blocks in which a cursor quantity provably advances / input is consumed
        self.consumed = {}      # block -> lower bound of bytes removed from a stream buffer (split_to / advance)
        self.call_sites = []    # (block, callee key, state) for lifted preconditions
        self.assume = assume or []   # list of (a, b, c) facts assumed at entry (lifted to callers)
        self.unmodelled = set()
        self.track_casts = False
        self.field_bounds = {}      # adt name -> (field index, max value): obligations at aggregate construction
        self.type_invariants = {}   # adt name -> {field index: (lo, hi)}: assumed when such a field is read

    # ------------------------------------------------------------------ terms
    def lty(self, l):
        return self.f["locals"][l]

    def canon(self, st, place):
        """Canonical string of a place, resolving references held in temporaries."""
        l = place["l"]
        proj = list(place.get("p") or [])
        base = "L%d" % l
        i = 0
        while i < len(proj):
            el = proj[i]
            if el == "*":
                m = _LOCAL.fullmatch(base)
                if m and int(m.group(1)) in st.refs:
                    base = st.refs[int(m.group(1))]
                else:
                    base = base + ".*"
            elif isinstance(el, dict):
                if "f" in el:
                    base = base + ".f%d" % el["f"]
                elif "d" in el:
                    base = base + ".v%d" % el["vi"]
                elif "i" in el:
                    base = base + "[L%d]" % el["i"]
                elif "ci" in el:
                    base = base + "[%s%d]" % ("-" if el["fe"] else "", el["ci"])
                else:
                    base = base + ".?"
            else:
                base = base + ".?"
            i += 1
        return base

    def place_ty(self, place):
        """Type string of a place when it is a bare local or a tuple field of a checked-arith temp."""
        l = place["l"]
        proj = place.get("p") or []
        ty = self.lty(l)
        if not proj:
            return ty
        if len(proj) == 1 and isinstance(proj[0], dict) and "f" in proj[0] and ty.startswith("(") and ty.endswith(")"):
            parts = [x.strip() for x in ty[1:-1].split(",")]
            if proj[0]["f"] < len(parts):
                return parts[proj[0]["f"]]
        return None

    def place_type_full(self, place):
        """Best-effort type string of any place: derefs, struct fields (through the ADT table), tuple fields,
        enum downcasts.  None when a step cannot be resolved."""
        ty = self.lty(place["l"])
        variant = None
        crate = self.key.split("::")[0]       # type strings are rendered relative to the crate they were printed in
        self._last_adt = None
        for el in place.get("p") or []:
            if ty is None:
                return None
            if el == "*":
                m = re.match(r"&(?:'\S+ )?(?:mut )?(.*)$", ty) or re.match(r"std::boxed::Box<(.*?)(, std::alloc::Global)?>$", ty) or re.match(r"std::sync::Arc<(.*?)(, std::alloc::Global)?>$", ty)
                if not m:
                    return None
                ty = m.group(1)
                variant = None
            elif isinstance(el, dict) and "d" in el:
                variant = el.get("vi", 0)
            elif isinstance(el, dict) and "f" in el:
                if ty.startswith("(") and ty.endswith(")"):
                    from .models import _split_top
                    parts = _split_top(ty[1:-1])
                    ty = parts[el["f"]] if el["f"] < len(parts) else None
                else:
                    byname = self.prog.__dict__.get("_adt_by_name")
                    if byname is None:
                        byname = self.prog.__dict__["_adt_by_name"] = {a["name"]: a for a in self.prog.adts.values()}
                    base = ty.split("<")[0]
                    a = byname.get(base) or byname.get(crate + "::" + base)
                    if not a:
                        return None
                    crate = a["key"].split("::")[0]
                    vs = a["variants"]
                    v = vs[variant if (variant is not None and variant < len(vs)) else 0]
                    ty = v["fields"][el["f"]]["ty"] if el["f"] < len(v["fields"]) else None
                variant = None
            else:
                return None
        return ty

    def assume_invariants(self, st, place):
        """A read of a field with a declared type invariant (Ipv4Net.mask <= 32) may assume it."""
        if not self.type_invariants:
            return
        proj = place.get("p") or []
        if not proj or not (isinstance(proj[-1], dict) and "f" in proj[-1]):
            return
        parent = (self.place_type_full({"l": place["l"], "p": proj[:-1]}) or "").split("<")[0]
        inv = self.type_invariants.get(parent)
        if inv is None and parent:
            # relative rendering (`bgp::Ipv4Net` inside rustybgp_packet): match on the path suffix
            for name, v in self.type_invariants.items():
                if name.endswith("::" + parent):
                    inv = v
        if inv and proj[-1]["f"] in inv:
            lo, hi = inv[proj[-1]["f"]]
            st.z.set_range(self.canon(st, place), lo, hi)

    # ------------------------------------------------------------------ driver
    def liveness(self):
        """Live-in locals per block (a local is used when it appears in any operand/place; refs keep targets alive
        through State.refs at prune time)."""
        fv = self.fv
        use, defs = {}, {}
        for b in fv.live:
            u, d = set(), set()

            def use_place(p, is_def=False):
                l = p["l"]
                if is_def and not p.get("p"):
                    if l in fv.local_name and l not in d:
                        u.add(l)        # keep the old value's facts until it is overwritten (progress checks)
                    elif l not in u:
                        d.add(l)
                else:
                    if l not in d:
                        u.add(l)
                for e in p.get("p") or []:
                    if isinstance(e, dict) and "i" in e and e["i"] not in d:
                        u.add(e["i"])

            def use_op(o):
                p = o.get("c") or o.get("m")
                if p is not None:
                    use_place(p)
            for s_ in fv.blocks[b]["s"]:
                rv = s_.get("rv")
                if rv:
                    r = rv["r"]
                    if r in ("use", "cast", "repeat"):
                        use_op(rv["o"])
                    elif r in ("ref", "discr", "rawptr"):
                        use_place(rv["p"])
                    elif r == "bin":
                        use_op(rv["a"]); use_op(rv["b"])
                    elif r == "un":
                        use_op(rv["a"])
                    elif r == "agg":
                        for x in rv["fields"]:
                            use_op(x)
                    use_place(s_["p"], True)
                elif "sd" in s_:
                    use_place(s_["sd"])
            t = fv.blocks[b]["t"]
            if t["t"] == "switch":
                use_op(t["o"])
            elif t["t"] == "call":
                for a in t["args"]:
                    use_op(a)
                if "ptr" in t.get("f", {}):
                    use_op(t["f"]["ptr"])
                if t.get("dest"):
                    use_place(t["dest"], True)
            elif t["t"] == "assert":
                use_op(t["cond"])
                for a in t["ops"]:
                    use_op(a)
            elif t["t"] == "drop":
                use_place(t["p"])
            elif t["t"] == "ret":
                u.add(0)
            use[b], defs[b] = u, d
        live_in = {b: set() for b in fv.live}
        changed = True
        while changed:
            changed = False
            for b in fv.live:
                out = set()
                for _, s2 in fv.succ[b]:
                    out |= live_in.get(s2, set())
                new = use[b] | (out - defs[b])
                if new != live_in[b]:
                    live_in[b] = new
                    changed = True
        return live_in

    def prune(self, st, live):
        keep = set(live) | set(range(0, self.f["argc"] + 1))
        # referents of live reference temporaries stay
        for l, tgt in st.refs.items():
            if l in live:
                for m in _LOCAL.finditer(tgt):
                    keep.add(int(m.group(1)))
        changed = True
        while changed:
            changed = False
            for l, g in st.ghost.items():
                if l in keep:
                    for x in g:
                        if isinstance(x, str):
                            for m in _LOCAL.finditer(x):
                                if int(m.group(1)) not in keep:
                                    keep.add(int(m.group(1)))
                                    changed = True
        for l, bx in st.boolx.items():
            if l in live:
                for x in bx:
                    if isinstance(x, str):
                        for m in _LOCAL.finditer(x):
                            keep.add(int(m.group(1)))
                    elif isinstance(x, int) and bx[0] == "not":
                        keep.add(x)
        ghosts = set()
        for l, g in st.ghost.items():
            if l in keep:
                ghosts |= {x for x in g if isinstance(x, str)}
        def dead(term):
            ls = [int(m.group(1)) for m in _LOCAL.finditer(term)]
            if not ls:
                return not (term == "0" or term in ghosts or term.startswith("sub") or term.startswith("len(sub") or term.startswith("inner") or term.startswith("len(inner") or term.startswith("cparam:"))
            return not any(l in keep for l in ls)
        dt = [t for t in st.z.terms() if t != "0" and dead(t)]
        for t in dt:
            st.z.kill(t)
        for k in [k for k in st.tags if dead(k)]:
            del st.tags[k]
        for d_ in (st.refs, st.boolx, st.ghost):
            for k in [k for k in d_ if k not in keep]:
                del d_[k]

    def run(self, max_iter=6000):
        fv = self.fv
        self.live_in = self.liveness()
        State.important = {"L%d" % l for l in fv.local_name}
        # widening points: targets of back edges (loop heads) only
        self.wpoints = set()
        for b in fv.live:
            for _, s2 in fv.succ[b]:
                if fv.dominates(s2, b):
                    self.wpoints.add(s2)
        entry = State()
        self.init_entry(entry)
        IN = {fv.entry: entry}
        visits = defaultdict(int)
        work = [fv.entry]
        it = 0
        while work and it < max_iter:
            it += 1
            b = work.pop(0)
            st = IN[b].copy()
            outs = self.transfer_block(b, st, record=False)
            for (tgt, s2) in outs:
                if s2.z.bottom:
                    continue
                self.prune(s2, self.live_in.get(tgt, set()))
                old = IN.get(tgt)
                if old is None:
                    IN[tgt] = s2
                    if tgt not in work:
                        work.append(tgt)
                else:
                    if s2.leq(old):
                        continue
                    visits[tgt] += 1
                    new = old.widen(s2) if (visits[tgt] > 2 and tgt in self.wpoints) or visits[tgt] > 12 else old.join(s2)
                    if visits[tgt] > 25 and not new.z.bottom and not old.z.bottom:
                        # safety valve against oscillation between equivalent closed forms: from here on the edge set of
                        # this point can only shrink (an edge survives if the old state had it and the new one implies it)
                        new.z.e = {k_: c_ for k_, c_ in old.z.e.items() if s2.z.dist(k_[0], k_[1]) <= c_}
                        new.z._adj = None
                        new.z._dc = {}
                    if not old.leq(new) or not new.leq(old):
                        IN[tgt] = new
                        if tgt not in work:
                            work.append(tgt)
        self.converged = not work
        # narrowing-free final pass: record obligations with the fixpoint states
        self.IN = IN
        for b in sorted(IN):
            self.transfer_block(b, IN[b].copy(), record=True)
        return self

    def init_entry(self, st):
        f = self.f
        for i in range(1, f["argc"] + 1):
            ty = int_type(self.lty(i))
            if ty:
                lo, hi = TYPE_RANGE[ty]
                st.z.set_range("L%d" % i, lo, hi)
        for (a, b, c) in self.assume:
            st.z.add(a, b, c)
        # struct invariants of reader types
        for i in range(1, f["argc"] + 1):
            t = self.lty(i)
            if re.search(r"BgpReader<", t) and t.startswith("&"):
                st.z.add("L%d.*.f1" % i, "len(L%d.*.f0)" % i, 0)      # pos <= len(buf)
                st.z.set_range("L%d.*.f1" % i, 0, LEN_MAX)
                st.z.set_range("len(L%d.*.f0)" % i, 0, LEN_MAX)

    # ------------------------------------------------------------------ helpers on state
    def term_of_operand(self, st, o):
        """(term, offset) or ('const', value) or None."""
        if "k" in o:
            v = o["k"].get("v")
            if v is None:
                if o["k"].get("param") and int_type(o["k"].get("ty") or ""):
                    # const generic parameter: one symbolic, immutable value per function instance
                    t = "cparam:" + o["k"]["param"]
                    tlo, thi = TYPE_RANGE[int_type(o["k"]["ty"])]
                    if st.z.lo(t) == -INF and st.z.hi(t) == INF:
                        st.z.set_range(t, max(tlo, 0) if tlo >= 0 else tlo, thi)
                    return (t, 0)
                return None
            return ("0", v)
        p = o.get("c") or o.get("m")
        if p is None:
            return None
        self.assume_invariants(st, p)
        t = self.canon(st, p)
        return (t, 0)

    def range_of(self, st, o):
        """Interval (lo, hi) of an operand under st."""
        if "k" in o:
            v = o["k"].get("v")
            if v is None:
                tt = self.term_of_operand(st, o)
                if tt and tt[0] != "0":
                    return (st.z.lo(tt[0]), st.z.hi(tt[0]))
                ty = int_type(o["k"].get("ty") or "")
                return TYPE_RANGE[ty] if ty else (-INF, INF)
            return (v, v)
        p = o.get("c") or o.get("m")
        self.assume_invariants(st, p)
        t = self.canon(st, p)
        lo, hi = st.z.lo(t), st.z.hi(t)
        ty = int_type(self.place_ty(p) or "")
        if ty:
            tlo, thi = TYPE_RANGE[ty]
            lo, hi = max(lo, tlo), min(hi, thi)
        return (lo, hi)

    def assign_fresh(self, st, place, lo=None, hi=None):
        t = self.canon(st, place)
        self.kill_place(st, place)
        ty = int_type(self.place_ty(place) or "")
        if ty:
            tlo, thi = TYPE_RANGE[ty]
            lo = tlo if lo is None else max(lo, tlo)
            hi = thi if hi is None else min(hi, thi)
        if lo is not None or hi is not None:
            st.z.set_range(t, lo, hi)
        return t

    def kill_place(self, st, place):
        t = self.canon(st, place)
        st.z.kill_prefix(t)
        for k in [k for k in st.lin if k == t or k.startswith(t + ".") or t in st.lin[k][0]]:
            del st.lin[k]
        for k in [k for k in st.vals if k == t or k.startswith(t + ".")]:
            del st.vals[k]
        for comp in [x for x in st.z.terms() if x.startswith("Σ(") and t in x[2:-1].split("+")]:
            st.z.kill(comp)
        for k in [k for k in st.tags if k == t or k.startswith(t + ".")]:
            del st.tags[k]
        if not place.get("p"):
            l = place["l"]
            st.refs.pop(l, None)
            st.boolx.pop(l, None)
            st.ghost.pop(l, None)
            # bool expressions mentioning the killed term
            for k in [k for k, v in st.boolx.items() if _mentions(v, t)]:
                del st.boolx[k]

    # ------------------------------------------------------------------ transfer
    def transfer_block(self, b, st, record):
        fv = self.fv
        blk = fv.blocks[b]
        for si, s in enumerate(blk["s"]):
            if "rv" in s:
                self.do_assign(st, s, b, si, record)
                if record and s["p"]["l"] == 0 and not s["p"].get("p"):
                    self.ret_defs.append(st.copy())
            elif "sd" in s:
                t = self.canon(st, s["sd"])
                st.tags[t] = frozenset([s["vn"]])
        t = blk["t"]
        k = t["t"]
        outs = []
        if k == "goto":
            outs.append((t["to"], st))
        elif k == "switch":
            outs = self.do_switch(st, t, b)
        elif k == "assert":
            self.do_assert(st, t, b, record)
            outs.append((t["to"], st))
        elif k == "call":
            self.do_call(st, t, b, record)
            if record and t.get("dest") and t["dest"]["l"] == 0 and not t["dest"].get("p"):
                self.ret_defs.append(st.copy())
            if t.get("to") is not None:
                outs.append((t["to"], st))
        elif k == "drop":
            outs.append((t["to"], st))
        elif k == "ret":
            if record:
                self.ret_states.append(st)
        elif k == "yield":
            outs.append((t["to"], st))
        # apply logical CFG (stitched coroutines) successor set
        succ = {s for _, s in fv.succ[b]}
        return [(tgt, s2) for tgt, s2 in outs if tgt in succ]

    def do_assign(self, st, s, b, si, record):
        p, rv = s["p"], s["rv"]
        r = rv["r"]
        if record and r == "use":
            # `x = <new>` where the zone proves new >= x + 1 (x is a cursor variable advancing)
            old_t = self.canon(st, p)
            src = self.term_of_operand(st, rv["o"])
            if src and src[0] != "0" and src[0] != old_t and old_t in st.z.terms() and st.z.implies(old_t, src[0], -1):
                self.progress.add(b)
        tgt_ty = int_type(self.place_ty(p) or "")
        if r == "use":
            o = rv["o"]
            src = self.term_of_operand(st, o)
            sp = o.get("c") or o.get("m")
            # propagate reference / bool / tag info through copies of temporaries
            info = None
            if sp is not None and not sp.get("p"):
                info = (st.refs.get(sp["l"]), st.boolx.get(sp["l"]), st.ghost.get(sp["l"]))
            stag = st.tags.get(self.canon(st, sp)) if sp is not None else None
            slin = st.lin.get(self.canon(st, sp)) if sp is not None else None
            svals = st.vals.get(self.canon(st, sp)) if sp is not None else None
            if sp is None and src is not None and src[0] == "0":
                svals = frozenset([src[1]])
            self.kill_place(st, p)
            t = self.canon(st, p)
            kk = o.get("k") or {}
            if sp is None and kk.get("v") is not None and str(kk.get("ty", "")).startswith("&") and not p.get("p"):
                # reference to a promoted newtype constant (`&Family::IPV4`): the wrapped integer is known
                st.z.set_range(t + ".*.f0", kk["v"], kk["v"])
                return
            if slin:
                st.lin[t] = slin
            if svals:
                st.vals[t] = svals
            if src is not None:
                if src[0] == "0":
                    st.z.set_range(t, src[1], src[1])
                else:
                    st.z.eq(t, src[0], 0)
            if tgt_ty:
                st.z.set_range(t, *TYPE_RANGE[tgt_ty])
            if info and not p.get("p"):
                if info[0]:
                    st.refs[p["l"]] = info[0]
                if info[1]:
                    st.boolx[p["l"]] = info[1]
                if info[2]:
                    st.ghost[p["l"]] = info[2]
            if stag:
                st.tags[t] = stag
            # moving a struct that carries tracked sub-terms: copy len()/pos() facts
            if sp is not None:
                self.copy_subterms(st, self.canon(st, sp), t)
            return
        if r == "ref" or r == "rawptr":
            tgtp = self.canon(st, rv["p"])
            self.kill_place(st, p)
            if not p.get("p"):
                st.refs[p["l"]] = tgtp
            ma = re.fullmatch(r"\[.*; (\d+)(_usize)?\]", self.place_ty(rv["p"]) or "")
            if ma:
                st.z.set_range(_len_term(tgtp), int(ma.group(1)), int(ma.group(1)))    # arrays have their type's length
            return
        if r == "cast":
            o = rv["o"]
            lo, hi = self.range_of(st, o)
            src = self.term_of_operand(st, o)
            to = int_type(rv["to"])
            frm = int_type(rv["from"])
            sp = o.get("c") or o.get("m")
            ref = st.refs.get(sp["l"]) if sp is not None and not sp.get("p") else None
            st_lin, st_vals = dict(st.lin), dict(st.vals)
            self.kill_place(st, p)
            t = self.canon(st, p)
            st.lin_snapshot, st.vals_snapshot = st_lin, st_vals
            if ref and not p.get("p"):
                st.refs[p["l"]] = ref     # pointer casts / unsizing keep the referent
                ma = re.fullmatch(r"&(mut )?\[.*; (\d+)(_usize)?\]", rv.get("from") or "")
                if ma:
                    st.z.set_range(_len_term(ref), int(ma.group(2)), int(ma.group(2)))
            if to and frm and record and self.track_casts:
                flo, fhi = TYPE_RANGE[frm]
                tlo_, thi_ = TYPE_RANGE[to]
                if flo < tlo_ or fhi > thi_:      # narrowing (or sign-changing) cast
                    ok = lo >= tlo_ and hi <= thi_
                    d_ = self._cast_desc(s, o)
                    for rx_, blo, bhi in getattr(self, "cast_bounds", ()):
                        if re.search(rx_, d_):        # a declared value range for what is being written (e.g. segment type 1..=4)
                            ok = lo >= blo and hi <= bhi
                    ob = Obligation(self.fv.name, b, "cast:%s->%s" % (frm, to), self._cast_desc(s, o), s.get("ln", 0), "")
                    ob.status = "discharged" if ok else "open"
                    ob.by = "value in [%s, %s]" % (_fmt(lo), _fmt(hi))
                    self.obls[(b, "s%d" % si)] = ob
            if to:
                tlo, thi = TYPE_RANGE[to]
                if frm and lo >= tlo and hi <= thi:
                    if src is not None and src[0] != "0":
                        st.z.eq(t, src[0], 0)
                        if src[0] in st.lin_snapshot:
                            st.lin[t] = st.lin_snapshot[src[0]]
                        if src[0] in st.vals_snapshot:
                            st.vals[t] = st.vals_snapshot[src[0]]
                    st.z.set_range(t, lo, hi)
                else:
                    st.z.set_range(t, tlo, thi)
            return
        if r == "bin":
            self.do_bin(st, p, rv, b, si)
            return
        if r == "un":
            op = rv["op"]
            o = rv["a"]
            if op == "PtrMetadata":
                sp = o.get("c") or o.get("m")
                base = None
                if sp is not None:
                    base = st.refs.get(sp["l"]) if not sp.get("p") and sp["l"] in st.refs else self.canon(st, sp)
                self.kill_place(st, p)
                t = self.canon(st, p)
                if base:
                    lt = _len_term(base)
                    st.z.eq(t, lt, 0)
                    st.z.set_range(lt, 0, LEN_MAX)
                st.z.set_range(t, 0, LEN_MAX)
                return
            if op == "Not":
                sp = o.get("c") or o.get("m")
                self.kill_place(st, p)
                if sp is not None and not sp.get("p") and not p.get("p"):
                    if self.lty(p["l"]) == "bool":
                        st.boolx[p["l"]] = ("not", sp["l"])
                    t = self.canon(st, p)
                    if self.lty(p["l"]) == "bool":
                        st.z.set_range(t, 0, 1)
                return
            self.assign_fresh(st, p)
            return
        if r == "discr":
            src = self.canon(st, rv["p"])
            self.kill_place(st, p)
            if not p.get("p"):
                st.boolx[p["l"]] = ("discr", src, rv.get("adt"))
            return
        if r == "agg":
            self.kill_place(st, p)
            t = self.canon(st, p)
            if rv.get("k") == "adt":
                st.tags[t] = frozenset([rv["v"]])
                # remember integer fields of small aggregates (Range { start, end })
                adt = self.prog.adts.get(rv["adt"])
                vi = 0
                if adt:
                    for i_, v_ in enumerate(adt["variants"]):
                        if v_["n"] == rv["v"]:
                            vi = i_
                fb = self.field_bounds.get(adt["name"]) if (adt and record) else None
                if fb and fb[0] < len(rv["fields"]):
                    flo, fhi = self.range_of(st, rv["fields"][fb[0]])
                    ob = Obligation(self.fv.name, b, "field-bound", "%s.%s <= %d" % (adt["name"].split("::")[-1], adt["variants"][0]["fields"][fb[0]]["n"], fb[1]), s.get("ln", 0), "")
                    ob.status = "discharged" if fhi <= fb[1] else "open"
                    ob.by = "value in [%s, %s]" % (_fmt(flo), _fmt(fhi))
                    self.obls[(b, "s%d" % si)] = ob
                for i, fo in enumerate(rv["fields"]):
                    src = self.term_of_operand(st, fo)
                    ft = "%s.f%d" % (t, i) if (adt and adt["kind"] == "struct") else "%s.v%d.f%d" % (t, vi, i)
                    if src is not None:
                        if src[0] == "0":
                            st.z.set_range(ft, src[1], src[1])
                            st.vals[ft] = frozenset([src[1]])
                        else:
                            st.z.eq(ft, src[0], 0)
                            if src[0] in st.vals:
                                st.vals[ft] = st.vals[src[0]]
                            if src[0] in st.lin:
                                st.lin[ft] = st.lin[src[0]]
                    fp = fo.get("c") or fo.get("m")
                    if fp is not None and not fp.get("p"):
                        self.copy_subterms(st, self.canon(st, fp), ft)
            elif rv.get("k") == "tuple":
                for i, fo in enumerate(rv["fields"]):
                    src = self.term_of_operand(st, fo)
                    ft = "%s.f%d" % (t, i)
                    if src is not None:
                        if src[0] == "0":
                            st.z.set_range(ft, src[1], src[1])
                        else:
                            st.z.eq(ft, src[0], 0)
                    fp = fo.get("c") or fo.get("m")
                    if fp is not None and not fp.get("p"):
                        self.copy_subterms(st, self.canon(st, fp), ft)
            elif rv.get("k") == "array":
                st.z.set_range(_len_term(t), len(rv["fields"]), len(rv["fields"]))
            return
        if r == "repeat":
            self.kill_place(st, p)
            m = re.match(r"\[.*; (\d+)\]$", self.place_ty(p) or "")
            if m:
                t = self.canon(st, p)
                st.z.set_range(_len_term(t), int(m.group(1)), int(m.group(1)))
            return
        self.assign_fresh(st, p)

    def _cast_desc(self, s, o):
        from .cfg import Renderer, show
        try:
            return show(Renderer(self.fv, depth=6).operand(o, 6), 70)
        except Exception:
            return "?"

    def copy_subterms(self, st, src, dst):
        if src == dst:
            return
        adds = []
        for (a, b), c in list(st.z.e.items()):
            for x in (a, b):
                if _rooted(x, src) and x != src:
                    adds.append(x)
        for x in set(adds):
            y = x.replace(src, dst, 1)
            st.z.eq(y, x, 0)
        for k, v in list(st.tags.items()):
            if k.startswith(src + "."):
                st.tags[dst + k[len(src):]] = v

    def do_bin(self, st, p, rv, b, si):
        op = rv["op"]
        a, c = rv["a"], rv["b"]
        ra, rc = self.range_of(st, a), self.range_of(st, c)
        ta, tc = self.term_of_operand(st, a), self.term_of_operand(st, c)
        lina = st.lin.get(ta[0]) if ta and ta[0] != "0" else None
        linc = st.lin.get(tc[0]) if tc and tc[0] != "0" else None
        va = st.vals.get(ta[0]) if ta and ta[0] != "0" else (frozenset([ta[1]]) if ta else None)
        vc = st.vals.get(tc[0]) if tc and tc[0] != "0" else (frozenset([tc[1]]) if tc else None)
        # an operand whose value is a known constant behaves like a literal
        if ta and ta[0] != "0" and ra[0] == ra[1] and abs(ra[0]) != INF:
            ta = ("0", ra[0])
        if tc and tc[0] != "0" and rc[0] == rc[1] and abs(rc[0]) != INF:
            tc = ("0", rc[0])
        checked = op.endswith("WithOverflow")
        base = op.replace("WithOverflow", "").replace("Unchecked", "")
        if base in ("Eq", "Ne", "Lt", "Le", "Gt", "Ge"):
            self.kill_place(st, p)
            if not p.get("p") and ta is not None and tc is not None:
                st.boolx[p["l"]] = ("cmp", base, ta[0], ta[1], tc[0], tc[1])
                st.z.set_range(self.canon(st, p), 0, 1)
            return
        # arithmetic
        self.kill_place(st, p)
        t = self.canon(st, p)
        res = t + ".f0" if checked else t
        lo, hi = -INF, INF
        if base == "Add":
            lo, hi = ra[0] + rc[0], ra[1] + rc[1]
            if ta and tc:
                if tc[0] == "0" and ta[0] != "0":
                    st.z.eq(res, ta[0], tc[1])
                elif ta[0] == "0" and tc[0] != "0":
                    st.z.eq(res, tc[0], ta[1])
                elif ta[0] != "0" and tc[0] != "0":
                    # res - a <= c.hi ; a - res <= -c.lo ; symmetric
                    if rc[1] != INF:
                        st.z.add(res, ta[0], rc[1])
                    if rc[0] != -INF:
                        st.z.add(ta[0], res, -rc[0])
                    if ra[1] != INF:
                        st.z.add(res, tc[0], ra[1])
                    if ra[0] != -INF:
                        st.z.add(tc[0], res, -ra[0])
        elif base == "Sub":
            lo, hi = ra[0] - rc[1], ra[1] - rc[0]
            if ta and tc:
                if tc[0] == "0" and ta[0] != "0":
                    st.z.eq(res, ta[0], -tc[1])
                elif ta[0] != "0" and tc[0] != "0":
                    # res = a - c :  res - a <= -c.lo ;  a - res <= c.hi
                    if rc[0] != -INF:
                        st.z.add(res, ta[0], -rc[0])
                    if rc[1] != INF:
                        st.z.add(ta[0], res, rc[1])
                    # tighter bound from the zone: a - c <= d
                    d = st.z.dist(ta[0], tc[0])
                    if d != INF:
                        hi = min(hi, d)
                    d2 = st.z.dist(tc[0], ta[0])
                    if d2 != INF:
                        lo = max(lo, -d2)
        elif base == "Mul":
            # scaling by a small constant keeps a linear form: (i + 1) * 4 = i+i+i+i + 4
            for (tx, lx, ty_) in ((ta, lina, tc), (tc, linc, ta)):
                if tx and ty_ and ty_[0] == "0" and isinstance(ty_[1], int) and 1 <= ty_[1] <= 8 and tx[0] != "0":
                    fx = lx or ((self.rep(st, tx[0]),), 0)
                    vs_ = tuple(sorted(fx[0] * ty_[1]))
                    if len(vs_) <= 8 and not any(v.startswith("Σ(") for v in vs_):
                        st.lin[res] = (vs_, fx[1] * ty_[1])
                    break
            cands = [x * y for x in ra for y in rc if abs(x) != INF and abs(y) != INF]
            if len(cands) == 4:
                lo, hi = min(cands), max(cands)
            elif ra[0] >= 0 and rc[0] >= 0:
                lo = ra[0] * rc[0]
        elif base == "Div":
            if rc[0] > 0 and ra[0] >= 0:
                lo = ra[0] // rc[1] if rc[1] != INF else 0
                hi = ra[1] // rc[0] if ra[1] != INF else INF
        elif base == "Rem":
            if rc[1] != INF and rc[0] > 0 and ra[0] >= 0:
                lo, hi = 0, min(rc[1] - 1, ra[1])
            elif ra[0] >= 0:
                lo, hi = 0, ra[1]
        elif base == "BitAnd":
            if ra[0] >= 0 and rc[0] >= 0:
                lo, hi = 0, min(ra[1], rc[1])
            elif rc[0] >= 0:
                lo, hi = 0, rc[1]
            elif ra[0] >= 0:
                lo, hi = 0, ra[1]
        elif base in ("BitOr", "BitXor"):
            if ra[0] >= 0 and rc[0] >= 0 and ra[1] != INF and rc[1] != INF:
                lo, hi = 0, (1 << max(int(ra[1]).bit_length(), int(rc[1]).bit_length())) - 1
                if base == "BitOr":
                    lo = max(ra[0], rc[0])          # a | b >= max(a, b) for non-negative operands
        elif base == "Shr":
            if ra[0] >= 0 and rc[0] >= 0 and rc[0] != INF:
                lo = 0 if rc[1] == INF else int(ra[0]) >> int(min(rc[1], 127))
                hi = INF if ra[1] == INF else int(ra[1]) >> int(min(rc[0], 127))
        elif base == "Shl":
            if ra[0] >= 0 and ra[1] != INF and rc[1] != INF and rc[0] >= 0 and rc[1] < 128:
                lo, hi = int(ra[0]) << int(rc[0]), int(ra[1]) << int(rc[1])
        if lo != -INF or hi != INF:
            st.z.set_range(res, lo, hi)
        # composite sums: (x + k1) + (y + k2) ==> Σ(x+y) + k
        if base == "Add" and ta and tc:
            def form(tt, lin):
                if tt[0] == "0":
                    return ((), tt[1])
                if lin:
                    return lin
                return ((self.rep(st, tt[0]),), 0)
            fa, fc = form(ta, lina), form(tc, linc)
            vars_ = tuple(sorted(fa[0] + fc[0]))
            k = fa[1] + fc[1]
            if 1 <= len(vars_) <= 3 and not any(v.startswith("Σ(") for v in vars_):
                st.lin[res] = (vars_, k)
                if len(vars_) >= 2:
                    comp = "Σ(%s)" % "+".join(vars_)
                    st.z.eq(res, comp, k)
                    # bounds of the composite from its parts
                    los = [st.z.lo(v) for v in vars_]
                    his = [st.z.hi(v) for v in vars_]
                    if all(x != -INF for x in los):
                        st.z.set_range(comp, sum(los), None)
                    if all(x != INF for x in his):
                        st.z.set_range(comp, None, sum(his))
        if va and vc and len(va) * len(vc) <= 16 and base in ("Add", "Sub", "Mul", "Div", "Rem", "BitAnd", "BitOr", "Shr", "Shl"):
            try:
                f = {"Add": lambda x, y: x + y, "Sub": lambda x, y: x - y, "Mul": lambda x, y: x * y, "Div": lambda x, y: x // y, "Rem": lambda x, y: x % y,
                     "BitAnd": lambda x, y: x & y, "BitOr": lambda x, y: x | y, "Shr": lambda x, y: x >> y, "Shl": lambda x, y: x << y}[base]
                vs = frozenset(f(x, y) for x in va for y in vc)
                if len(vs) <= 8:
                    st.vals[res] = vs
                    st.z.set_range(res, min(vs), max(vs))
            except (ZeroDivisionError, ValueError):
                pass
        ty = int_type(self.place_ty(p) or "") if not checked else None
        if ty:
            tlo, thi = TYPE_RANGE[ty]
            if base in ("Shl",) and (hi > thi):
                st.z.kill(res)
                st.z.set_range(res, tlo, thi)
            elif self.profile == "release" and (lo < tlo or hi > thi) and base in ("Add", "Sub", "Mul"):
                # wrapping arithmetic: lose everything unless provably in range
                st.z.kill(res)
                st.z.set_range(res, tlo, thi)
            else:
                st.z.set_range(res, tlo, thi)
        if checked:
            # remember the mathematical range for the Overflow assert (stored on the tuple temp)
            st.z.set_range(t + ".f1", 0, 1)

    # ------------------------------------------------------------------ branches
    def do_switch(self, st, t, b):
        o = t["o"]
        p = o.get("c") or o.get("m")
        outs = []
        cases = t["cases"]
        bx = None
        if p is not None and not p.get("p"):
            bx = st.boolx.get(p["l"])
        vals = [v for v, _ in cases]
        for v, tgt in cases:
            s2 = st.copy()
            self.refine(s2, p, bx, v, t.get("ty"))
            outs.append((tgt, s2))
        s3 = st.copy()
        self.refine(s3, p, bx, None, t.get("ty"), excluded=vals)
        outs.append((t["else"], s3))
        return outs

    def refine(self, st, p, bx, v, ty, excluded=None, depth=0):
        if depth > 6:
            return
        if bx is None:
            if p is not None:
                term = self.canon(st, p)
                cur = st.vals.get(term)
                if v is not None:
                    if cur is not None and v not in cur:
                        st.z.bottom = True
                        return
                    st.vals[term] = frozenset([v])
                    self._vals_to_aliases(st, term)
                elif excluded and cur is not None:
                    left = cur - set(excluded)
                    if not left:
                        st.z.bottom = True
                        return
                    st.vals[term] = left
                    st.z.set_range(term, min(left), max(left))
                if v is not None:
                    st.z.set_range(term, v, v)
                elif excluded:
                    lo, hi = st.z.lo(term), st.z.hi(term)
                    ex = sorted(excluded)
                    if ty == "bool":
                        if ex == [0]:
                            st.z.set_range(term, 1, 1)
                        elif ex == [1]:
                            st.z.set_range(term, 0, 0)
                    elif lo != -INF and hi != INF and hi - lo <= 256:
                        left = [x for x in range(int(lo), int(hi) + 1) if x not in set(ex)]
                        if not left:
                            st.z.bottom = True
                            return
                        st.z.set_range(term, left[0], left[-1])
                    else:
                        while ex and ex[0] == lo:
                            lo += 1
                            ex.pop(0)
                        while ex and ex[-1] == hi:
                            hi -= 1
                            ex.pop()
                        st.z.set_range(term, lo, hi)
                if st.z.lo(term) > st.z.hi(term):
                    st.z.bottom = True
            return
        kind = bx[0]
        if kind == "not":
            inner = st.boolx.get(bx[1])
            truth = self._truth(v, excluded)
            if truth is None:
                return
            self.refine(st, {"l": bx[1]}, inner, 0 if truth else 1, "bool", None, depth + 1)
            return
        if kind == "cmp":
            truth = self._truth(v, excluded)
            if truth is None:
                return
            _, op, a, ao, c, co = bx
            if not truth:
                op = {"Eq": "Ne", "Ne": "Eq", "Lt": "Ge", "Le": "Gt", "Gt": "Le", "Ge": "Lt"}[op]
            # (a + ao) op (c + co)
            d = co - ao
            z = st.z
            if op == "Lt":      # a - c <= d - 1
                z.add(a, c, d - 1)
            elif op == "Le":
                z.add(a, c, d)
            elif op == "Gt":    # c - a <= -d - 1
                z.add(c, a, -d - 1)
            elif op == "Ge":
                z.add(c, a, -d)
            elif op == "Eq":
                z.add(a, c, d)
                z.add(c, a, -d)
            elif op == "Ne":
                # useful only against constants at the boundary
                if c == "0" or a == "0":
                    x, k = (a, d) if c == "0" else (c, -d)
                    lo, hi = z.lo(x), z.hi(x)
                    if lo == k:
                        z.set_range(x, lo + 1, None)
                    if hi == k:
                        z.set_range(x, None, hi - 1)
            if z.dist(a, a) < 0 or self._infeasible(z, a, c):
                z.bottom = True
            return
        if kind == "discr":
            term, adt = bx[1], bx[2]
            names = None
            a = self.prog.adts.get(adt) if adt else None
            if a:
                if v is not None:
                    n = self.prog.variant_name(adt, v)
                    names = frozenset([n]) if n else None
                elif excluded is not None:
                    names = frozenset(x["n"] for x in a["variants"] if x["d"] not in excluded)
            if names is not None:
                cur = st.tags.get(term)
                new = names if cur is None else (cur & names)
                if cur is not None and not new:
                    st.z.bottom = True
                    return
                st.tags[term] = new
                self.on_tag(st, term, new)
            return
        if kind == "tagis":
            truth = self._truth(v, excluded)
            if truth is None:
                return
            term, var, allv = bx[1], bx[2], bx[3]
            cur = st.tags.get(term)
            names = frozenset([var]) if truth else frozenset(allv) - {var}
            new = names if cur is None else cur & names
            if cur is not None and not new:
                st.z.bottom = True
                return
            st.tags[term] = new
            self.on_tag(st, term, new)
            return
        if kind == "lenzero":
            truth = self._truth(v, excluded)
            if truth is None:
                return
            lt = bx[1]
            if truth:
                st.z.set_range(lt, 0, 0)
            else:
                st.z.set_range(lt, 1, None)
            return

    def _vals_to_aliases(self, st, term):
        """Value-set knowledge follows equalities recorded in the zone (copies of the switched temporary)."""
        vs = st.vals.get(term)
        if not vs:
            return
        for (a, b), c in list(st.z.e.items()):
            if a == term and c == 0 and st.z.e.get((b, a)) == 0 and b != "0":
                cur = st.vals.get(b)
                st.vals[b] = vs if cur is None else (cur & vs) or vs

    @staticmethod
    def _truth(v, excluded):
        if v is not None:
            return bool(v)
        if excluded is not None:
            ex = set(excluded)
            if ex == {0}:
                return True
            if ex == {1}:
                return False
        return None

    @staticmethod
    def _infeasible(z, a, c):
        return z.dist(a, c) + z.dist(c, a) < 0

    def on_tag(self, st, term, names):
        """Apply pending effects when a Result/Option local is known to be Ok/Some."""
        m = re.match(r"L(\d+)$", term)
        if not m:
            return
        l = int(m.group(1))
        g = st.ghost.get(l)
        if not g:
            return
        if names <= frozenset(["Ok", "Some", "Continue"]):
            kind = g[0]
            if kind == "advance":        # cursor advanced by n, and that fit
                _, pos_t, ghost_t, n, len_t = g
                st.z.eq(pos_t, ghost_t, n)
                if len_t:
                    st.z.add(pos_t, len_t, 0)
            elif kind == "chain":         # tag-preserving wrapper: refine the source as well
                src = g[1]
                cur = st.tags.get(src)
                okn = frozenset(["Ok", "Some"])
                st.tags[src] = okn if cur is None else (cur & okn) or okn
                self.on_tag(st, src, st.tags[src])
            elif kind == "fact":
                for (a, b2, c) in g[1]:
                    st.z.add(a, b2, c)
        elif names <= frozenset(["Err", "None", "Break"]):
            if g[0] == "chain":
                src = g[1]
                cur = st.tags.get(src)
                en = frozenset(["Err", "None"])
                st.tags[src] = en if cur is None else (cur & en) or en

    # ------------------------------------------------------------------ asserts
    def do_assert(self, st, t, b, record):
        kind = t["kind"]
        ob = None
        if record:
            ob = Obligation(self.fv.name, b, "assert:" + kind, (t.get("sn") or "")[:90], t.get("ln", 0), t.get("sn", ""))
        ok, by = False, ""
        if kind.startswith("Overflow("):
            op = kind[9:-1]
            a, c = t["ops"][0], t["ops"][1]
            ra, rc = self.range_of(st, a), self.range_of(st, c)
            # type of the operation = type of operand a
            pa = a.get("c") or a.get("m")
            ty = None
            if pa is not None:
                ty = int_type(self.place_ty(pa) or "")
            if ty is None and "k" in a:
                ty = int_type(a["k"].get("ty", ""))
            if ty is None:
                pc = c.get("c") or c.get("m")
                ty = int_type(self.place_ty(pc) or "") if pc is not None else int_type(c.get("k", {}).get("ty", ""))
            if op in ("Shl", "Shr"):
                bits = {"u8": 8, "u16": 16, "u32": 32, "u64": 64, "usize": 64, "u128": 128, "i32": 32, "i64": 64}.get(ty or "", 64)
                ok = rc[0] >= 0 and rc[1] < bits
                by = "shift amount in [%s, %s] < %d" % (rc[0], rc[1], bits)
            elif ty:
                tlo, thi = TYPE_RANGE[ty]
                if op == "Add":
                    lo, hi = ra[0] + rc[0], ra[1] + rc[1]
                elif op == "Sub":
                    lo, hi = ra[0] - rc[1], ra[1] - rc[0]
                    ta, tc = self.term_of_operand(st, a), self.term_of_operand(st, c)
                    if ta and tc and ta[0] != tc[0]:
                        d = st.z.dist(tc[0], ta[0])      # c - a <= d  => a - c >= -d
                        if d != INF:
                            lo = max(lo, -d + (ta[1] if ta[0] == "0" else 0) * 0)
                elif op == "Mul":
                    cands = [x * y for x in ra for y in rc if abs(x) != INF and abs(y) != INF]
                    lo, hi = (min(cands), max(cands)) if len(cands) == 4 else (-INF, INF)
                else:
                    lo, hi = -INF, INF
                ok = lo >= tlo and hi <= thi
                by = "%s result in [%s, %s] within %s" % (op, _fmt(lo), _fmt(hi), ty)
        elif kind == "BoundsCheck":
            ln, ix = t["ops"][0], t["ops"][1]
            tl, ti = self.term_of_operand(st, ln), self.term_of_operand(st, ix)
            if tl and ti:
                # ix < len  <=>  ix - len <= -1
                if ti[0] == "0" and tl[0] == "0":
                    ok = ti[1] < tl[1]
                elif ti[0] == "0":
                    ok = st.z.lo(tl[0]) > ti[1]
                elif tl[0] == "0":
                    ok = st.z.hi(ti[0]) < tl[1]
                else:
                    ok = st.z.implies(ti[0], tl[0], -1)
                by = "index %s < len %s" % (self._show_term(st, ti), self._show_term(st, tl))
        elif kind in ("DivisionByZero", "RemainderByZero"):
            # cond is `divisor == 0` expected false (the message operand is the dividend)
            c = t["cond"]
            ok, by = self.prove_bool(st, c, t["exp"])
        elif kind in ("Misaligned", "NullDeref", "ResumedAfterReturn", "ResumedAfterPanic", "ResumedAfterDrop", "InvalidEnum"):
            ok, by = True, "compiler-inserted UB check on a reference (not input dependent)"
        if ob is not None:
            ob.status = "discharged" if ok else "open"
            ob.by = by
            self.obls[(b, "t")] = ob
        # after the assert the condition holds
        if kind.startswith("Overflow("):
            c = t["cond"]
            p = c.get("c") or c.get("m")
            if p is not None:
                # cond is `_t.1` (overflow flag) expected false: clip the result `_t.0` to the type
                if p.get("p") and isinstance(p["p"][-1], dict) and p["p"][-1].get("f") == 1:
                    base = dict(p)
                    base = {"l": p["l"], "p": p["p"][:-1]}
                    res = self.canon(st, base) + ".f0"
                    ty = self.place_ty({"l": p["l"], "p": [{"f": 0}]})
                    ity = int_type(ty or "")
                    if ity:
                        st.z.set_range(res, *TYPE_RANGE[ity])
        elif kind == "BoundsCheck":
            ln, ix = t["ops"][0], t["ops"][1]
            tl, ti = self.term_of_operand(st, ln), self.term_of_operand(st, ix)
            if tl and ti and tl[0] != "0" and ti[0] != "0":
                st.z.add(ti[0], tl[0], -1)
            elif tl and ti and ti[0] == "0" and tl[0] != "0":
                st.z.set_range(tl[0], ti[1] + 1, None)
        elif kind in ("DivisionByZero", "RemainderByZero"):
            pass

    def rep(self, st, term):
        """A stable representative of `term` among the terms the zone knows to be equal to it (transitively):
        pos()/len() terms first, then user variables, else the term itself."""
        seen = {term}
        work = [term]
        named = None
        while work:
            x = work.pop()
            for (a, b), c in st.z.e.items():
                if a == x and c == 0 and b != "0" and b not in seen and st.z.e.get((b, a)) == 0:
                    seen.add(b)
                    work.append(b)
        cands = sorted(seen)
        for b in cands:
            # lengths of anonymous sub-slices (`len(sub54)`) come and go with liveness: not a stable name
            if (b.startswith("pos(") or b.startswith("len(")) and not b.startswith("len(sub"):
                return b
        for b in cands:
            m = _LOCAL.fullmatch(b)
            if m and int(m.group(1)) in self.fv.local_name:
                return b
        return term

    def prove_bool(self, st, o, expected):
        """Is the bool operand provably == expected in st?"""
        if "k" in o:
            v = o["k"].get("v")
            return (v is not None and bool(v) == bool(expected)), "constant condition"
        p = o.get("c") or o.get("m")
        if p is None or p.get("p"):
            return False, "condition not tracked"
        bx = st.boolx.get(p["l"])
        if not bx:
            return False, "condition not tracked"
        if bx[0] == "not":
            return self.prove_bool(st, {"c": {"l": bx[1]}}, not expected)
        if bx[0] == "cmp":
            _, op, a, ao, c, co = bx
            if not expected:
                op = {"Eq": "Ne", "Ne": "Eq", "Lt": "Ge", "Le": "Gt", "Gt": "Le", "Ge": "Lt"}[op]
            d = co - ao
            z = st.z
            desc = "%s %s %s%+d" % (self.pretty(a), op, self.pretty(c), d)
            if op == "Lt":
                return z.implies(a, c, d - 1), desc
            if op == "Le":
                return z.implies(a, c, d), desc
            if op == "Gt":
                return z.implies(c, a, -d - 1), desc
            if op == "Ge":
                return z.implies(c, a, -d), desc
            if op == "Eq":
                return z.implies(a, c, d) and z.implies(c, a, -d), desc
            if op == "Ne":
                return z.implies(a, c, d - 1) or z.implies(c, a, -d - 1), desc
        return False, "condition not tracked"

    def _show_term(self, st, tt):
        if tt[0] == "0":
            return str(tt[1])
        lo, hi = st.z.lo(tt[0]), st.z.hi(tt[0])
        return "%s∈[%s,%s]" % (self.pretty(tt[0]), _fmt(lo), _fmt(hi))

    def pretty(self, term):
        def rep(m):
            l = int(m.group(1))
            return self.fv.local_name.get(l, "_%d" % l)
        return re.sub(r"L(\d+)", rep, term)

    # ------------------------------------------------------------------ calls
    def do_call(self, st, t, b, record):
        from .models import apply_model
        apply_model(self, st, t, b, record)

    def oblige(self, b, record, kind, desc, ok, by, t):
        if not record:
            return
        ob = Obligation(self.fv.name, b, kind, desc, t.get("ln", 0), t.get("sn", ""))
        ob.status = "discharged" if ok else "open"
        ob.by = by
        self.obls[(b, "t")] = ob


def _mentions(v, t):
    return any(isinstance(x, str) and (x == t or x.startswith(t + ".") or ("(" + t) in x) for x in v)


def _len_term(base):
    while base.endswith(".*"):
        base = base[:-2]
    return "len(%s)" % base


def _fmt(x):
    if x == INF:
        return "+inf"
    if x == -INF:
        return "-inf"
    return str(int(x)) if isinstance(x, float) else str(x)




# ---------------------------------------------------------------------------------------------- driver
def analyse(prog, key, profile="debug", track_casts=False, field_bounds=None, type_invariants=None, cast_bounds=None):
    it = Interp(prog, key, profile)
    it.cast_bounds = cast_bounds or ()
    it.track_casts = track_casts
    it.field_bounds = field_bounds or {}
    it.type_invariants = type_invariants or {}
    it.run()
    return it


def is_consuming(it):
    """Every path from entry to a return that does not construct an error passes a block in which input is consumed."""
    fv = it.fv
    if not it.progress:
        return False
    # error exits: blocks that build Err / None for the return place, or call from_residual
    err_blocks = set()
    for b in fv.live:
        for s_ in fv.blocks[b]["s"]:
            rv = s_.get("rv")
            if rv and rv["r"] == "agg" and rv.get("k") == "adt" and rv.get("v") in ("Err", "None") and s_["p"]["l"] == 0:
                err_blocks.add(b)
        t = fv.blocks[b]["t"]
        if t["t"] == "call" and any(n.endswith("FromResidual::from_residual") for n in callee_names(t)):
            err_blocks.add(b)
    reach = fv.reach(fv.entry, set(it.progress) | err_blocks)
    return not any(r in reach for r in fv.returns())


def summarise(it):
    """Return-value summary of an analysed function: ranges/value sets of `_0` and of its success payload (incl.
    tuple fields), and zone facts over parameter-rooted cursor terms that hold at every successful return."""
    ranges = {}
    post = None
    f = it.f
    params = range(1, f["argc"] + 1)
    first = True
    rtags = set()
    for st in (it.ret_defs or it.ret_states):
        if st.z.bottom:
            continue
        tag = st.tags.get("L0")
        if rtags is not None:
            rtags = None if tag is None else (rtags | set(tag))
        rs = {}
        for t in st.z.terms():
            if t == "L0" or t.startswith("L0."):
                sfx = t[2:]
                lo, hi = st.z.lo(t), st.z.hi(t)
                rs[sfx] = (lo, hi, st.vals.get(t))
        for sfx in set(ranges) | set(rs) if not first else set(rs):
            a = ranges.get(sfx) if not first else rs.get(sfx)
            b = rs.get(sfx)
            if a is None or b is None:
                # a suffix that is not present on some return path is only meaningful under that path's variant;
                # payload suffixes (.v0 / .v1) are variant-specific, keep the one that has them
                if sfx.startswith(".v"):
                    ranges[sfx] = a or b
                else:
                    ranges.pop(sfx, None)
                continue
            vs = (a[2] | b[2]) if (a[2] and b[2] and len(a[2] | b[2]) <= 8) else None
            ranges[sfx] = (min(a[0], b[0]), max(a[1], b[1]), vs)
        first = False
        # success-path cursor facts
        if tag is not None and tag <= frozenset(["Ok", "Some"]) or tag is None:
            facts = set()
            for p in params:
                pt = "pos(L%d.*)" % p
                lt = "len(L%d)" % p
                if pt in st.z.terms():
                    d = st.z.dist(pt, lt)
                    if d != INF:
                        facts.add(("pos(P%d.*)" % p, "len(P%d)" % p, d))
            if tag is not None:
                post = facts if post is None else {(a, b, max(c, dict(((x, y), z) for x, y, z in facts).get((a, b), INF))) for a, b, c in post if (a, b) in {(x, y) for x, y, z in facts}}
    out = {"ranges": {k: v for k, v in ranges.items() if not (v[0] == -INF and v[1] == INF and not v[2])}}
    out["consuming"] = is_consuming(it)
    if rtags:
        out["tags"] = sorted(rtags)
    if post:
        out["post_ok"] = [x for x in post if x[2] != INF]
    return out


def _norm_site(site):
    """Reviewed-site keys survive reformatting: whitespace and parentheses are not significant."""
    return re.sub(r"[\s()]", "", site)


def _site_kind(site):
    """Obligation class of a reviewed-site key: `assert:Overflow(Add)`, `cast:usize->u16`, `unwrap`, `panic`, `index`, ..."""
    m = re.match(r"(assert:[^:]+|cast:[^:]+|[^:]+)", site)
    k = m.group(1) if m else site
    # indexing a Vec (Index::index call) and indexing a slice / array (inline bounds check) are the same obligation
    return "bounds" if k in ("index", "assert:BoundsCheck") else k


def _root_fn_name(name):
    return re.sub(r"(::\{closure#\d+\})+$", "", name)


def check_panic_freedom(prog, rule, roots, prop, scope_crates=("rustybgp_packet",), profile="debug", extra_skip=None, casts_in=None, cast_rule=None, cast_filter=None, field_bounds=None, cast_bounds=None):
    """Run the interpreter over every local function reachable from `roots` and turn open obligations into
    rule violations unless listed (with still-valid reasons) in specs/reviewed_sites.json."""
    import json
    import os
    here = os.path.dirname(os.path.abspath(__file__))
    rv_path = os.path.join(here, "specs", "reviewed_sites.json")
    reviewed = {}
    if os.path.exists(rv_path):
        for e in json.load(open(rv_path)):
            reviewed[(e["fn"], _norm_site(e["site"]))] = e
    reach = prog.reachable(roots)
    fns = sorted(k for k in reach if k.split("::")[0] in scope_crates)
    # closures that are only ever called directly are analysed as part of their creator (expanded in place)
    from .inline import directly_called_only as _dco
    inl = set()
    for k in fns:
        if prog.ix[k].get("closures"):
            try:
                inl |= _dco(prog, k)
            except Exception:
                pass
    fns = [k for k in fns if k not in inl]
    n_open = 0
    seen_keys = set()
    claimed = set()
    # pass 1: return summaries (two rounds so that summaries of callees feed their callers' summaries)
    cache = getattr(prog, "_absint_cache", None)
    if cache is None:
        cache = prog._absint_cache = {}
    if not hasattr(prog, "_absint_summaries"):
        prog._absint_summaries = {}
    dirty, ndirty = set(fns), set()
    for rnd in range(6):
        changed = False
        for k in fns:
            if (k, profile, "s", rnd) in cache:
                continue
            # after the second round only functions that call something whose summary changed need another look
            if rnd >= 2 and not (prog.callees(k) & dirty):
                continue
            try:
                it0 = analyse(prog, k, profile)
                new = summarise(it0)
                if prog._absint_summaries.get(k) != new:
                    changed = True
                    ndirty.add(k)
                prog._absint_summaries[k] = new
                cache[(k, profile, "s", rnd)] = True
            except Exception:
                pass
        dirty, ndirty = ndirty, set()
        if not changed:
            break
    for k in fns:
        if extra_skip and extra_skip(k):
            continue
        try:
            want_casts = bool(casts_in and casts_in(k))
            it = cache.get((k, profile, "final", want_casts))
            if it is None:
                it = analyse(prog, k, profile, track_casts=want_casts, field_bounds=field_bounds if want_casts else None, cast_bounds=cast_bounds if want_casts else None)
                cache[(k, profile, "final", want_casts)] = it
                if not want_casts:
                    cache[(k, profile, "final")] = it
        except Exception as ex:  # analysis crash = fail closed
            rule.unanalysable("abstract interpreter crashed on %s: %r" % (prog.name(k), ex))
            continue
        rule.analysed(prog.name(k))
        if not it.converged:
            rule.unanalysable("fixpoint not reached for %s" % prog.name(k), it.fv.loc())
        # exact keys first; then pair the remaining open obligations with the remaining reviewed entries by class
        fallback = {}
        counts0, open_keys, exact = {}, [], set()
        for (b, idx), ob in sorted(it.obls.items(), key=lambda kv: (kv[0][0], str(kv[0][1]))):
            if ob.kind.startswith("cast:") and cast_filter is not None and not cast_filter(ob):
                continue
            base = "%s:%s" % (ob.kind, re.sub(r"\s+", " ", ob.desc)[:70])
            counts0[base] = counts0.get(base, 0) + 1
            site0 = base if counts0[base] == 1 else "%s#%d" % (base, counts0[base])
            if ob.status == "discharged":
                continue
            rk0 = (prog.name(k), _norm_site(site0))
            if rk0 in reviewed:
                exact.add(rk0)
            else:
                open_keys.append(((k, b, str(idx)), ob.kind, (ob.kind, ob.line, re.sub(r"\s+", " ", ob.desc)[:70])))
        if open_keys:
            nm = prog.name(k)
            pool = [rk1 for rk1, e in reviewed.items() if e.get("prop") == prop and rk1 not in exact and rk1 not in claimed
                    and (e["fn"] == nm or e["fn"] == _root_fn_name(nm) or _root_fn_name(e["fn"]) == nm or _root_fn_name(e["fn"]) == _root_fn_name(nm))]
            by_src = {}      # one source site expanded at several call sites (a closure called twice) is one site
            for okey, kind, src in open_keys:
                if src in by_src:
                    fallback[okey] = by_src[src]
                    continue
                for rk1 in pool:
                    if _site_kind(reviewed[rk1]["site"]) == _site_kind(kind + ":"):
                        fallback[okey] = rk1
                        by_src[src] = rk1
                        pool.remove(rk1)
                        claimed.add(rk1)
                        break
        counts = {}
        for (b, idx), ob in sorted(it.obls.items(), key=lambda kv: (kv[0][0], str(kv[0][1]))):
            if ob.kind.startswith("cast:") and cast_filter is not None and not cast_filter(ob):
                continue
            base = "%s:%s" % (ob.kind, re.sub(r"\s+", " ", ob.desc)[:70])
            counts[base] = counts.get(base, 0) + 1
            site = base if counts[base] == 1 else "%s#%d" % (base, counts[base])
            where = "%s:%d" % (it.f["file"], ob.line)
            is_inv = ob.kind.startswith("cast:") or ob.kind == "field-bound"
            tgt_rule = cast_rule if (is_inv and cast_rule is not None) else rule
            if ob.status == "discharged":
                tgt_rule.ok("%s %s" % (short(prog.name(k)), site), ob.by)
                continue
            if is_inv and (prog.name(k), _norm_site(site)) not in reviewed and (k, b, str(idx)) not in fallback:
                if ob.kind == "field-bound":
                    tgt_rule.fail(prog.name(k), site, "a value built from API input can violate %s (the wire decoder enforces it): %s" % (ob.desc, ob.by), where)
                else:
                    tgt_rule.fail(prog.name(k), site, "narrowing cast %s of %s can truncate: %s" % (ob.kind[5:], ob.desc, ob.by), where)
                continue
            rk = (prog.name(k), _norm_site(site))
            if rk not in reviewed:
                # the text of the site changed (renamed local, statement rewritten, moved into a closure): fall back to
                # a reviewed entry of the same function (or its root function) and the same obligation class that no
                # site has claimed under its exact key
                alt = fallback.get((k, b, str(idx)))
                if alt is not None:
                    rk = alt
            if rk in reviewed:
                seen_keys.add(rk)
                # the guards the review relied on must still dominate the site
                from .cfg import flat_guards as _fg, branches as _brs
                from .rules.c05 import atom as _atom
                if "_brs" not in it.__dict__:
                    it._brs = _brs(it.fv)
                atoms = [_atom(g, l) for g, l, h in _fg(it.fv, b, it._brs)]
                miss = [g for g in reviewed[rk].get("guards", []) if not any(re.search(g, a) for a in atoms)]
                pg = reviewed[rk].get("parent_guards")
                if pg:
                    # the justification lives where the closure is created: guards dominating that statement in the parent
                    patoms = []
                    par = prog.ix[k].get("parent")
                    if par and par in prog.ix:
                        from .util import view as _view
                        pv = _view(prog, par)
                        pbrs = _brs(pv)
                        for pb in sorted(pv.live):
                            for s_ in pv.blocks[pb]["s"]:
                                rv_ = s_.get("rv")
                                if rv_ and rv_.get("r") == "agg" and rv_.get("k") in ("closure", "coroutine") and rv_.get("def") == k:
                                    patoms += [_atom(g, l) for g, l, h in _fg(pv, pb, pbrs)]
                    miss += [g for g in pg if not any(re.search(g, a) for a in patoms)]
                if not miss:
                    rule.ok("%s %s" % (short(prog.name(k)), site), "reviewed: " + reviewed[rk]["reason"])
                    continue
                n_open += 1
                rule.fail(prog.name(k), site, "possible panic (%s): %s — the reviewed justification needs the guard(s) %s, which no longer dominate the site" % (ob.kind, ob.snippet[:80] or ob.desc, miss), where)
                continue
            n_open += 1
            rule.fail(prog.name(k), site, "possible panic (%s): %s — not discharged: %s" % (ob.kind, ob.snippet[:100] or ob.desc, ob.by or "no facts"), where)
    for rk, e in reviewed.items():
        if e.get("prop") == prop and rk not in seen_keys and e["fn"] in {prog.name(k) for k in fns}:
            rule.note("reviewed entry no longer matches a site: %s %s" % rk)
    return fns
