"""C08 — hold/keepalive timing follows negotiation; zero disables (structural clauses)."""
import re

from ..cfg import Renderer, walk, show, flat_guards, branches
from ..facts import callee_names, short
from ..util import loops, view, crate_fns, root_name, expr_calls, expr_fields, expr_vars, field_writes, agg_field
from .c07 import OUT, CONN, outputs_in, state_conds

EXPLANATION = (
    "Static rules over daemon/src/fsm.rs and the driver's apply_outputs/flush_tx (MIR): R08.1 negotiated_holdtime is written "
    "only in on_open as min(local_holdtime, remote_holdtime) and keepalive_interval only there as negotiated_holdtime / 3; "
    "R08.2 the hold timer is re-armed exactly by on_connected (constant), on_open, on_keepalive and on_update — no other "
    "handler constructs SetHoldTimer — and the keepalive timer by on_open, on_keepalive_timer_expired, on_update_sent; "
    "R08.3 'zero disables': the driver turns Set*Timer(n) into sleep(n) with no test of n, so every construction whose operand "
    "is not a non-zero constant must be control-dependent on operand != 0 (or the driver arm must test it); R08.4 the driver "
    "feeds HoldTimerExpired / KeepaliveTimerExpired only from the matching future. Decides the timer-arming structure, not "
    "wall-clock expiry behaviour of tokio timers (not applicable to static analysis).")
ASSUMPTIONS = [
    "tokio::time::sleep(0 s) completes immediately (so SetHoldTimer(0) is an immediate expiry)",
    "on_keepalive_timer_expired re-arms with the stored interval: reachable only if a keepalive timer was armed, hence only with a non-zero interval (induction over the other arming sites)",
]


def run(prog, rep, tier):
    r1 = rep.rule("R08.1", "hold time in force = min(local, remote); keepalive = hold / 3; single writers")
    on_open = view(prog, prog.one(re.escape(CONN + "on_open")))
    writers = {}
    for k in crate_fns(prog, "rustybgpd"):
        if not prog.ix[k]["name"].startswith("rustybgpd::fsm::"):
            continue
        fv = view(prog, k)
        for fld in ("negotiated_holdtime", "keepalive_interval"):
            for bi, si, s in field_writes(fv, fld):
                writers.setdefault(fld, []).append((fv, bi, s))
    for fld, want in (("negotiated_holdtime", "min"), ("keepalive_interval", "div3")):
        ws = writers.get(fld, [])
        r1.analysed(on_open.name)
        if not ws:
            r1.unanalysable("no write of Connection.%s found" % fld)
            continue
        for fv, bi, s in ws:
            if fv.key != on_open.key:
                r1.fail(fv.name, "writer:" + fld, "%s is written outside on_open" % fld, fv.loc(bi))
                continue
            e = Renderer(fv, depth=16, through_names=True).rvalue(s["rv"], 16)      # hoisted lets are looked through
            def _is_min(x):
                while isinstance(x, tuple) and x and x[0] in ("cast", "ref", "deref"):
                    x = x[1]
                if not (isinstance(x, tuple) and x and x[0] == "call" and re.search(r"cmp::min$|Ord::min$", x[1]) and len(x[2]) == 2):
                    return False
                a_, b_ = x[2]
                loc = lambda y: "local_holdtime" in expr_fields(y)
                rem = lambda y: "remote_holdtime" in expr_fields(y) or (any(c.endswith("HoldTime::seconds") for c in expr_calls(y)) and "holdtime" in expr_fields(y))
                return (loc(a_) and rem(b_)) or (loc(b_) and rem(a_))
            if want == "min":
                ok = _is_min(e)
                if ok:
                    r1.ok("negotiated_holdtime = min(local_holdtime, remote_holdtime)")
                else:
                    r1.fail(fv.name, "holdtime-def", "negotiated_holdtime is defined as %s, not min(local, remote)" % show(e, 90), fv.loc(bi))
            else:
                ee = e
                while ee[0] == "field" and ee[2] in ("0",):
                    ee = ee[1]
                ok = ee[0] == "bin" and ee[1] == "Div" and ("negotiated_holdtime" in expr_fields(ee[2]) or _is_min(ee[2])) and ee[3][0] == "const" and ee[3][1] == 3
                if ok:
                    r1.ok("keepalive_interval = negotiated_holdtime / 3")
                else:
                    r1.fail(fv.name, "keepalive-def", "keepalive_interval is defined as %s, not negotiated_holdtime / 3" % show(e, 90), fv.loc(bi))

    r2 = rep.rule("R08.2", "hold timer re-armed exactly by OPEN sent/received, KEEPALIVE and UPDATE; keepalive timer by its three sites")
    r3 = rep.rule("R08.3", "a zero hold time / keepalive interval never arms a timer")
    want_hold = {"on_connected": 1, "on_open": 1, "on_keepalive": 2, "on_update": 1}
    want_ka = {"on_open": 1, "on_keepalive_timer_expired": 1, "on_update_sent": 1}
    got_hold, got_ka = {}, {}
    driver_tests = driver_tests_zero(prog, r3)
    for k in crate_fns(prog, "rustybgpd"):
        nm = prog.ix[k]["name"]
        if not nm.startswith("rustybgpd::fsm::") and "SetHoldTimer" not in " ".join(prog.ix[k].get("aggs", [])) and "SetKeepaliveTimer" not in " ".join(prog.ix[k].get("aggs", [])):
            continue
        fv = view(prog, k)
        for bi, v, s in outputs_in(fv):
            if v not in ("SetHoldTimer", "SetKeepaliveTimer"):
                continue
            from .c07 import handler_name
            m = handler_name(prog, fv, bi).split("::")[-1]          # the handler, also when it was inlined into the dispatcher
            (got_hold if v == "SetHoldTimer" else got_ka).setdefault(m, []).append((fv, bi, s))
    for got, want, what in ((got_hold, want_hold, "SetHoldTimer"), (got_ka, want_ka, "SetKeepaliveTimer")):
        for m, sites in sorted(got.items()):
            fv = sites[0][0]
            r2.analysed(fv.name)
            if m in want and len(sites) == want[m]:
                r2.ok("%s constructed in %s x%d" % (what, m, len(sites)))
            elif m in want:
                r2.fail(fv.name, "%s-count" % what, "%s constructed %d time(s) in %s (reviewed: %d)" % (what, len(sites), m, want[m]), fv.loc(sites[0][1]))
            else:
                r2.fail(fv.name, "%s-extra" % what, "%s is re-armed by %s: only %s may re-arm it" % (what, m, ", ".join(sorted(want))), fv.loc(sites[0][1]))
        for m in want:
            if m not in got:
                r2.fail(CONN + m, "%s-missing" % what, "%s no longer re-arms %s" % (m, what), "daemon/src/fsm.rs")
        # R08.3 per site
        for m, sites in sorted(got.items()):
            for fv, bi, s in sites:
                op = s["rv"]["fields"][0]
                e = Renderer(fv, depth=8).operand(op, 8)
                if e[0] == "const" and e[1]:
                    r3.ok("%s: %s(constant %s)" % (m, what, e[1]))
                    continue
                if driver_tests.get(what):
                    r3.ok("%s: %s operand tested by the driver" % (m, what))
                    continue
                if what == "SetKeepaliveTimer" and m == "on_keepalive_timer_expired":
                    r3.ok("%s: re-arms the timer that just fired with the stored interval (armed only if non-zero)" % m)
                    continue
                flds = set(expr_fields(e))
                nz = False
                # hoisted lets (`let agreed = min(..); if agreed != 0 { let ka = agreed / 3; .. }`) are looked through: the tested
                # quantity must be the interval itself or the hold time it is derived from
                rn_ = Renderer(fv, depth=16, through_names=True)
                en_ = rn_.operand(op, 16)
                flds |= set(expr_fields(en_))
                from ..cfg import branches as _brs
                for g, labels, how in flat_guards(fv, bi, _brs(fv, rn_)):
                    tested_ = [x for x in (g[2], g[3]) if not (isinstance(x, tuple) and x and x[0] == "const")] if g[0] == "bin" else []
                    same_ = any(show(t_, 400) in show(en_, 2000) for t_ in tested_ if isinstance(t_, tuple) and t_[0] != "const" and len(show(t_, 400)) > 8)
                    if g[0] == "bin" and g[1] in ("Ne", "Eq", "Gt", "Lt") and ((set(expr_fields(g)) & (flds | {"negotiated_holdtime"})) or same_):
                        zero = any(x[0] == "const" and x[1] == 0 for x in (g[2], g[3]))
                        if not zero:
                            continue
                        if (g[1] == "Ne" and labels == {"true"}) or (g[1] == "Eq" and labels == {"false"}) or (g[1] in ("Gt", "Lt") and labels == {"true"}):
                            nz = True
                if nz:
                    r3.ok("%s: %s(%s) under a non-zero test" % (m, what, show(e, 40)))
                else:
                    st = state_conds(fv, bi)
                    r3.fail(fv.name, "%s-zero:%s@%s" % (what, show(e, 40), "+".join(sorted(st)) if st else "any"),
                            "%s(%s) is emitted without testing the value is non-zero and the driver arms sleep(n) unconditionally: with a negotiated hold time of 0 the timer fires at once"
                            % (what, show(e, 40)), fv.loc(bi))

    r5 = rep.rule("R08.5", "every message the validator hands out is fed to the FSM (an UPDATE restarts the hold timer whatever happens to its routes)")
    check_every_message_fed(prog, r5)
    r6 = rep.rule("R08.6", "hold-timer expiry tears the session down in every state in which the hold timer runs (OpenSent, OpenConfirm, Established)")
    check_expiry_states(prog, r6)
    r4 = rep.rule("R08.4", "driver feeds timer-expiry inputs only from the matching timer future")
    check_driver_inputs(prog, r4)
    check_timer_replacement(prog, r4)


def driver_tests_zero(prog, r):
    """Does the driver test the seconds carried by Output::Set*Timer before arming the sleep?  {output variant: bool}
    The seconds are recognised as the payload of the variant (however the binding is called), the test as a comparison of
    that payload with 0 or a `match` on it whose arm for 0 does not build the duration."""
    res = {"SetHoldTimer": True, "SetKeepaliveTimer": True}
    n = 0

    def payload_variant(e):
        for x in walk(e):
            if isinstance(x, tuple) and x and x[0] == "downcast" and x[2] in res:
                return x[2]
        return None
    for k in crate_fns(prog, "rustybgpd"):
        ix = prog.ix[k]
        if "::tests::" in ix["name"] or not any(c["f"].get("name", "").endswith("Duration::from_secs") for c in ix["calls"]):
            continue
        fv = view(prog, k)
        rend = Renderer(fv, depth=14, through_names=True)
        brs = branches(fv, rend)
        for bi, t in fv.calls(re.compile(r"(std|core)::time::Duration::from_secs")):
            e = rend.operand(t["args"][0], 14)
            which = payload_variant(e)
            if which is None:
                continue
            n += 1
            r.analysed(root_name(prog, k))
            tested = False
            for g, labels, how in flat_guards(fv, bi, brs):
                if payload_variant(g) != which:
                    continue
                if g[0] == "bin" and g[1] in ("Ne", "Eq", "Gt") and any(isinstance(x, tuple) and x[0] == "const" and x[1] == 0 for x in (g[2], g[3])):
                    if (g[1] in ("Ne", "Gt") and labels == {"true"}) or (g[1] == "Eq" and labels == {"false"}):
                        tested = True
                elif g[0] in ("field", "deref", "ref") and "0" not in {str(l) for l in labels}:
                    tested = True          # `match secs { 0 => .., n => from_secs(n) }`
            if not tested:
                res[which] = False
    if n < 2:
        r.unanalysable("driver arms for Set*Timer: found %d Duration::from_secs(<payload of Output::Set*Timer>) sites (want >= 2)" % n)
    return res


def _chain_output_variants(prog, ck):
    """fsm::Output variants whose payload is taken apart by the closures that feed the iterator chain `ck` is the consumer of
    (siblings created in the same parent body)."""
    par = prog.ix[ck].get("parent")
    if not par or par not in prog.ix:
        return set()
    outs = set()
    for sib in prog.ix[par].get("closures", []):
        if sib == ck or sib not in prog.ix:
            continue
        sv = view(prog, sib)
        somes = sv.aggregates(None, "Some")
        for bb, br in branches(sv).items():
            if br.expr[0] == "discr" and br.adt and br.adt.endswith("fsm::Output"):
                for v, tgt in br.cases:
                    lab = br.label(prog, v)
                    # the variant counts if a Some(..) is built under it (filter_map keeps it)
                    if any(sv.edge_guarded(sb, {(bb, v, tgt)}) or sb == tgt for sb, si, s in somes):
                        outs.add(lab)
    return outs


def check_timer_replacement(prog, r):
    """(Re-)arming a timer replaces the pending deadline: the driver assigns a fresh one-element collection to
    holdtime_futures / keepalive_futures.  Pushing onto the existing collection keeps the superseded deadlines alive,
    and each of them later fires a timer-expiry input."""
    n = 0
    for k in crate_fns(prog, "rustybgpd"):
        ix = prog.ix[k]
        nm = ix["name"]
        if "::tests::" in nm:
            continue
        names = [c["f"].get("name", "") for c in ix["calls"]]
        if not any(re.search(r"FuturesUnordered::<Fut>::push$|FuturesUnordered<.*>::push$", x) for x in names):
            continue
        fv = view(prog, k)
        rend = Renderer(fv, depth=8)
        for bi, t in fv.calls(re.compile(r".*FuturesUnordered::<Fut>::push$")):
            e = rend.operand(t["args"][0], 8)
            fs = set(expr_fields(e))
            hit = fs & {"holdtime_futures", "keepalive_futures"}
            if hit:
                n += 1
                r.fail(root_name(prog, k), "timer-accumulated:" + sorted(hit)[0], "a timer deadline is pushed onto %s (line %d) instead of replacing it: the superseded deadline still fires and tears the "
                       "session down although the timer was re-armed or disarmed" % (sorted(hit)[0], fv.line(bi)), fv.loc(bi))
    # each timer collection is (re)assigned only while handling its own FSM output
    from ..util import last_field
    want_out = {"holdtime_futures": "SetHoldTimer", "keepalive_futures": "SetKeepaliveTimer"}
    n_assign = 0
    for k in crate_fns(prog, "rustybgpd"):
        nm = prog.ix[k]["name"]
        if "::tests::" in nm or not nm.startswith("rustybgpd::event::"):
            continue
        fv = view(prog, k)
        brs_ = None
        sites = []
        from ..util import captured_field_writes
        for fld in want_out:
            sites += [(b, fld) for b, si, s_ in field_writes(fv, fld)]
            sites += [(b, fld) for b, t in fv.calls() if t.get("dest") and last_field(t["dest"]) == fld]
            sites += [(b, fld) for b, si, s_ in captured_field_writes(fv, fld)]
        for b, fld in sites:
            brs_ = brs_ or branches(fv)
            outs = set()
            for g, l, h in flat_guards(fv, b, brs_):
                if g[0] == "discr" and g[2] and g[2].endswith("fsm::Output"):
                    outs |= set(l)
            if not outs and fv.f.get("kind") == "closure":
                # `outputs.into_iter().filter_map(|o| match o { Set*Timer(s) => Some(..), _ => None }).for_each(|d| self.f = ..)`:
                # the FSM output is matched in a sibling closure of the same iterator chain
                outs = _chain_output_variants(prog, k)
            n_assign += 1
            if outs == {want_out[fld]}:
                r.ok("%s: %s assigned while handling %s" % (short(root_name(prog, k)), fld, want_out[fld]))
            else:
                r.fail(root_name(prog, k), "timer-crossed:%s<-%s" % (fld, "+".join(sorted(outs)) or "none"), "%s is assigned while handling %s (line %d): the %s timer is re-armed by the other timer's event, "
                       "with the other timer's interval" % (fld, "/".join(sorted(outs)) or "no FSM timer output", fv.line(b), "hold" if fld.startswith("hold") else "keepalive"), fv.loc(b))
    if n_assign < 3:
        r.unanalysable("assignments of the timer collections outside constructors: %d (want >= 3)" % n_assign)
    # positive side: the Set*Timer arms assign the fields
    ak = [k for k in crate_fns(prog, "rustybgpd") if prog.ix[k]["name"].endswith("PeerSession::apply_outputs")]
    for k in ak:
        fv = view(prog, prog.body_key(k))
        r.analysed(fv.name)
        for fld in ("holdtime_futures", "keepalive_futures"):
            ws = list(field_writes(fv, fld))
            # `self.f = iter.collect()` stores the call result straight into the field
            from ..util import last_field
            ws += [(b, "t", t) for b, t in fv.calls() if t.get("dest") and last_field(t["dest"]) == fld]
            if ws:
                r.ok("apply_outputs: %s is replaced by assignment (%d site(s))" % (fld, len(ws)))
            else:
                r.fail(fv.name, "timer-not-replaced:" + fld, "apply_outputs never assigns %s: re-arming does not replace the pending deadline" % fld, fv.loc())
    if not ak:
        r.unanalysable("PeerSession::apply_outputs not found")


def check_driver_inputs(prog, r):
    n = 0
    want = {"HoldTimerExpired": "holdtime_futures", "KeepaliveTimerExpired": "keepalive_futures"}
    for k in crate_fns(prog, "rustybgpd"):
        ix = prog.ix[k]
        if not any(a.endswith("fsm::Input::HoldTimerExpired") or a.endswith("fsm::Input::KeepaliveTimerExpired") for a in ix.get("aggs", [])):
            continue
        if ix["name"].startswith("rustybgpd::fsm::"):
            continue
        fv = view(prog, k)
        for bi, si, s in fv.aggregates(re.compile(r"rustybgpd::fsm::Input")):
            v = s["rv"]["v"]
            if v not in want:
                continue
            n += 1
            r.analysed(root_name(prog, k))
            # the select! arm: the aggregate must be dominated by a poll of the matching futures field
            ok = False
            for b2 in fv.live:
                t = fv.blocks[b2]["t"]
                if t["t"] == "call" and fv.dominates(b2, bi):
                    for a in t["args"]:
                        ee = Renderer(fv, depth=6).operand(a, 6)
                        if want[v] in expr_fields(ee):
                            ok = True
            # select! polls all branches before dispatch; use the branch index test instead: accept if the other
            # futures field is not the *closest* dominating poll.  Conservative: require the matching field polled.
            if ok:
                r.ok("%s fed after polling %s" % (v, want[v]))
            else:
                r.fail(root_name(prog, k), "expiry-source:" + v, "%s is fed to the FSM without polling %s" % (v, want[v]), fv.loc(bi))
    r.floor("driver sites feeding timer-expiry inputs", n, 2)


def check_every_message_fed(prog, r):
    """run_select iterates over the messages validate_message produced from one received frame and hands each to rx_msg, which
    feeds the FSM (Input::MessageReceived): that is what restarts the hold timer for an UPDATE.  A `continue` that skips rx_msg for
    some messages (routes dropped for an AS loop, ..) makes a peer that sends only such UPDATEs look silent: RFC 4271 lets it
    omit KEEPALIVEs while it sends UPDATEs, so the session dies of hold-timer expiry although the peer is alive."""
    rs = prog.one(r"rustybgpd::event::PeerSession::run_select")
    from ..util import body_holding
    fv = body_holding(prog, rs, r"rustybgp_packet::bgp::validate_message$")
    r.analysed(prog.name(rs))
    vm = [b for b, t in fv.calls(re.compile(r"rustybgp_packet::bgp::validate_message$"))]
    rx = [b for b, t in fv.calls(re.compile(r"rustybgpd::event::PeerSession::rx_msg$"))]
    if not vm or not rx:
        r.unanalysable("run_select: validate_message x%d, rx_msg x%d" % (len(vm), len(rx)), fv.loc())
        return
    # the loop over the validator's messages: the innermost loop that contains an rx_msg call and whose Iterator::next sits behind validate_message
    cands = [(h, body) for h, body, backs in loops(fv) if any(x in body for x in rx) and any(fv.dominates(v, h) for v in vm)]
    if not cands:
        r.unanalysable("run_select: no loop over the validated messages contains rx_msg", fv.loc(rx[0]))
        return
    h, body = min(cands, key=lambda x: len(x[1]))
    nexts = [b for b in body if fv.blocks[b]["t"]["t"] == "call" and (fv.blocks[b]["t"]["f"].get("name") or "").endswith("Iterator::next")]
    if not nexts:
        r.unanalysable("run_select: the message loop has no Iterator::next", fv.loc(h))
        return
    nb = min(nexts, key=lambda b: 0 if fv.dominates(b, rx[0]) else 1)
    # from the `Some(msg)` outcome, can the loop head (next iteration) be reached again without passing rx_msg?
    after = fv.reach_after(nb, [x for x in rx if x in body] + [b for b in fv.live if b not in body])
    # leaving the loop through the None edge is fine; coming back to `next` (another iteration) without rx_msg is not
    if nb in after:
        r.fail(prog.name(rs), "message-not-fed", "an iteration of the loop over the validated messages can end without calling rx_msg: that message never reaches the FSM, so an UPDATE that is "
               "skipped this way does not restart the hold timer (and is not an FSM error outside Established)", fv.loc(nb))
    else:
        r.ok("run_select: every message produced by validate_message is handed to rx_msg")


def check_expiry_states(prog, r):
    """The hold timer is armed when the OPEN is sent (large value), re-armed with the negotiated value on the peer's OPEN (OpenConfirm)
    and on every KEEPALIVE / UPDATE (Established).  Its expiry must end the session in all three states; an expiry that is ignored in
    one of them leaves the session there for ever, because the driver does not re-arm an elapsed timer on its own."""
    ks = prog.find(r"rustybgpd::fsm::Connection::on_hold_timer_expired")
    host = None
    if len(ks) == 1:
        fv = view(prog, ks[0])
    else:
        # the handler may have been inlined into the dispatcher: read the dispatcher's arm for the expiry input
        dk = prog.find(r"rustybgpd::fsm::Connection::process")
        if len(dk) != 1:
            r.unanalysable("Connection::on_hold_timer_expired anchor matched %d" % len(ks))
            return
        fv = view(prog, dk[0])
        host = "HoldTimerExpired"
    r.analysed(fv.name)
    brs = branches(fv)
    downs = []
    for bi, si, st in fv.aggregates(re.compile(r"rustybgpd::fsm::Output$"), "SessionDown"):
        e0 = Renderer(fv, depth=8, through_names=True).operand(st["rv"]["fields"][0], 8)
        if any(isinstance(x, tuple) and x and x[0] == "agg" and x[2] == "HoldTimerExpired" for x in walk(e0)):
            downs.append(bi)
    if not downs:
        r.fail(fv.name, "expiry-no-sessiondown", "hold-timer expiry never produces SessionDown(HoldTimerExpired)", fv.loc())
        return
    states = set()
    for bi in downs:
        got = None
        for g, l, h in flat_guards(fv, bi, brs):
            if g[0] == "discr" and g[2] and g[2].endswith("fsm::State") and "else" not in l:
                got = set(l) if got is None else (got & set(l))
        if got is None:
            got = {"OpenSent", "OpenConfirm", "Established"}       # unconditional
        states |= got
    need = {"OpenSent", "OpenConfirm", "Established"}
    if need <= states:
        r.ok("hold-timer expiry => SessionDown(HoldTimerExpired) in %s" % sorted(states & need))
    else:
        r.fail(fv.name, "expiry-ignored-in:" + "+".join(sorted(need - states)), "a hold-timer expiry in state %s produces no SessionDown: the peer went silent after its OPEN / mid-session, the timer has "
               "elapsed, and the session stays where it is indefinitely" % "/".join(sorted(need - states)), fv.loc(downs[0]))
