"""C15 — route counters and prefix limits match the RIB's contents (structural clauses)."""
import re

from ..cfg import Renderer, walk, show, branches, guards_of, flat_guards, matches_conj
from ..facts import callee_names, short
from ..util import view, crate_fns, root_name, field_writes, expr_calls, expr_vars, expr_fields, loops, deep_calls
from . import c06

EXPLANATION = (
    "Static rules over table/src/lib.rs and daemon MIR: R15.1 every Table method that removes entries from a destination's path "
    "list also updates route_stats for that peer (received/accepted writes, or removal of the whole stats entry) — sibling "
    "agreement with Table::remove; R15.2 (=R06.3) no empty destination is left in the map to be counted; R15.3 the prefix-limit "
    "test has the shape count >= max => PrefixLimitExceeded, sits before any counter/stat/list mutation, the counter increment is "
    "on the is_new path only and is_new means 'no replaced entry and no other path of that peer'; the daemon turns the limit "
    "signal into a session teardown; R15.4 every removal mutator that can take a peer's last path for a prefix performs the "
    "peer_still_has_path test and the fetch_sub. Decides these necessary conditions, not numeric equality after all histories.")
ASSUMPTIONS = [
    "Table::drop is exempt from R15.4: it removes everything a peer has in a family at session end, when the session-scoped counter is discarded",
    "Atomic::<u64>::fetch_add/fetch_sub/load semantics (std)",
]

ENTRY_REMOVE = re.compile(r"(alloc|std)::vec::Vec::<T, A>::(remove|retain|retain_mut|swap_remove|clear|truncate|drain|pop)")


def _removes_entries(prog, key):
    """Blocks (per body) that remove RibEntry elements in `key` or its closures."""
    out = []
    for k in prog.with_closures(key):
        fv = view(prog, k)
        for bi, t in fv.calls(ENTRY_REMOVE):
            if "RibEntry" in t["f"].get("ga", ""):
                out.append((fv, bi))
    return out


def _stats_updates(prog, key):
    """Evidence that route_stats is maintained: writes to PrefixStats.received/accepted, or removal of stats map entries."""
    ev = []
    for k in prog.with_closures(key):
        fv = view(prog, k)
        for name in ("received", "accepted"):
            for bi, si, s in field_writes(fv, name):
                ev.append("write:%s" % name)
        for bi, t in fv.calls(re.compile(r".*HashMap::<K, V, S(, A)?>::remove")):
            if "PrefixStats" in t["f"].get("ga", ""):
                ev.append("stats-entry-removed")
    return ev


def run(prog, rep, tier):
    r1 = rep.rule("R15.1", "every Table method that removes path-list entries maintains route_stats (sibling agreement with Table::remove)")
    n = 0
    for k in crate_fns(prog, "rustybgp_table"):
        ix = prog.ix[k]
        if ix["kind"] not in ("fn", "method") or not ix["name"].startswith("rustybgp_table::Table::"):
            continue
        rem = _removes_entries(prog, k)
        if not rem:
            continue
        n += 1
        r1.analysed(ix["name"])
        ev = _stats_updates(prog, k)
        where = short(ix["name"])
        fv, bi = rem[0]
        if any(e.startswith("write:received") for e in ev) or "stats-entry-removed" in ev:
            r1.ok("%s: removes entries and maintains route_stats (%s)" % (where, ",".join(sorted(set(ev)))))
        elif ix["name"].endswith("::insert") and any(e.startswith("write:") for e in ev):
            r1.ok("%s: replacement path, stats adjusted (%s)" % (where, ",".join(sorted(set(ev)))))
        else:
            r1.fail(ix["name"], "no-route-stats-update",
                    "removes entries from Destination.entry but never updates route_stats (Table::remove decrements received/accepted): "
                    "peer_stats keeps counting the purged paths", fv.loc(bi))
    r1.floor("Table methods removing path-list entries", n, 6)

    r2 = rep.rule("R15.2", "no destination without paths stays in the map (shared with R06.3)")
    c06.check_ids(prog, r2)

    r3 = rep.rule("R15.3", "prefix limit: test shape, placement before mutation, increment only for a new prefix, daemon teardown")
    check_limit(prog, r3)

    r4 = rep.rule("R15.4", "removal mutators test peer_still_has_path and decrement the session counter")
    check_counter_pairing(prog, r4)

    r6 = rep.rule("R15.6", "bulk removers subtract from `accepted` exactly the entries they remove that were not filtered")
    check_bulk_accepted(prog, r6)
    r7 = rep.rule("R15.7", "table totals and per-peer counters use one definition of `accepted` (not import-filtered, whatever the next hop), and a family-scoped removal forgets only that family's counters")
    check_state_and_scope(prog, r7)
    r5 = rep.rule("R15.5", "stats.accepted / received deltas in Table::insert and Table::remove agree with the recount under every filtered/replaced combination")
    check_stat_table(prog, r5)


def check_limit(prog, r):
    ins = view(prog, prog.one(r"rustybgp_table::Table::insert"))
    r.analysed(ins.name)
    rend = Renderer(ins, depth=14)
    exc = ins.aggregates(re.compile(r"rustybgp_table::InsertResult"), "PrefixLimitExceeded")
    if len(exc) != 1:
        r.unanalysable("Table::insert: %d PrefixLimitExceeded constructions (want 1)" % len(exc), ins.loc())
        return
    eb = exc[0][0]
    brs = branches(ins)
    brs_n = branches(ins, Renderer(ins, depth=14, through_names=True))      # `let in_use = counter.load(..)` is the load
    # (a) the comparison guarding the Exceeded return
    cmp_ok = False
    for br, labels in guards_of(ins, eb, brs_n):
        e = br.expr
        if e[0] == "bin" and e[1] in ("Ge", "Gt", "Lt", "Le", "Eq", "Ne"):
            a, b = e[2], e[3]
            la = any(c.endswith("Atomic::<u64>::load") for c in expr_calls(a))
            lb = any(c.endswith("Atomic::<u64>::load") for c in expr_calls(b))
            if not (la or lb):
                continue
            op = e[1]
            # normalise to: load OP max
            if lb and not la:
                op = {"Ge": "Le", "Gt": "Lt", "Lt": "Gt", "Le": "Ge"}.get(op, op)
            holds = labels == {"true"}
            shape = op if holds else {"Ge": "Lt", "Gt": "Le", "Lt": "Ge", "Le": "Gt", "Eq": "Ne", "Ne": "Eq"}[op]
            if shape == "Ge":
                r.ok("insert: limit signalled when counter.load() >= max")
                cmp_ok = True
            else:
                r.fail(ins.name, "limit-compare:%s" % shape, "the limit is signalled when count %s max; with anything but >= the accepted prefixes can reach max+1 unsignalled (or the limit fires early)" % {"Gt": ">", "Le": "<=", "Lt": "<", "Eq": "==", "Ne": "!="}.get(shape, shape), ins.loc(br.bi))
                cmp_ok = True
    if not cmp_ok:
        r.unanalysable("Table::insert: comparison guarding PrefixLimitExceeded not recognised", ins.loc(eb))
    # (b) nothing is mutated before the Exceeded return: no stats/list/counter write can reach it
    bad = []
    for bi, t in ins.calls():
        names = callee_names(t)
        if eb not in ins.reach(bi) or bi == eb:
            continue
        if any(re.search(r"Atomic::<u64>::fetch_(add|sub)$", n) for n in names):
            bad.append(("counter", bi))
        if any(re.search(r"Vec::<T, A>::(insert|push)$", n) for n in names) and "RibEntry" in t["f"].get("ga", ""):
            bad.append(("entry-store", bi))
    for name in ("received", "accepted"):
        for bi, si, s in field_writes(ins, name):
            if eb in ins.reach(bi):
                bad.append(("route_stats." + name, bi))
    if bad:
        r.fail(ins.name, "mutation-before-limit:" + "+".join(sorted({k for k, _ in bad})),
               "PrefixLimitExceeded can be returned after %s was already modified" % ", ".join("%s (line %d)" % (k, ins.line(b)) for k, b in bad), ins.loc(eb))
    else:
        r.ok("insert: no counter / stats / entry store precedes the PrefixLimitExceeded return")
    # (c) fetch_add only on the is_new path, after the comparison
    adds = [(bi, t) for bi, t in ins.calls(re.compile(r".*Atomic::<u64>::fetch_add"))]
    if len(adds) != 1:
        r.unanalysable("Table::insert: %d fetch_add sites (want 1)" % len(adds), ins.loc())
    for bi, t in adds:
        gs = flat_guards(ins, bi, brs)
        txt = " & ".join("%s∈%s" % (show(g, 60), sorted(l)) for g, l, h in gs)
        new_ok = any(_is_new_guard(ins, g, l, brs) or _is_new_via_filter(ins, g, l, brs) for g, l, h in gs)
        limit_ok = any(g[0] == "bin" and any(c.endswith("Atomic::<u64>::load") for c in expr_calls(g)) for g, l, h in gs + flat_guards(ins, bi, brs_n))
        # the decrement side (remove / drop_*) un-counts a prefix whenever the peer's last path for it goes, whatever that path's
        # flags were; so the increment may depend on nothing but "new prefix for the peer", the limit being configured and the
        # limit test -- any further condition (filtered, stale, ..) makes the two sides disagree and the counter drifts or underflows
        extra = []
        for g, l, h in gs:
            if _is_new_guard(ins, g, l, brs) or _is_new_via_filter(ins, g, l, brs):
                continue
            vs = set(expr_vars(g))
            if any(c.endswith("Atomic::<u64>::load") for c in expr_calls(g)) or "prefix_limit" in vs:
                continue
            if g[0] == "bin" and vs and all(any(c.endswith("Atomic::<u64>::load") for c in deep_calls(ins, ("var", v), at=bi)) or v == "max" for v in vs if v != "max") and any(v != "max" for v in vs):
                continue            # the limit test on a hoisted load
            if vs and vs <= {"replaced", "replaced_idx", "peer_has_path", "iter", "is_new"}:
                continue            # parts of the is_new derivation (the scan loop, the replaced entry)
            if g[0] == "discr" and any(c.endswith("Iterator::next") for c in expr_calls(g)):
                continue            # leaving the scan loop
            extra.append("%s∈%s" % (show(g, 50), sorted(l)))
        if new_ok and limit_ok and extra:
            r.fail(ins.name, "increment-guard-extra", "the limit counter is incremented only when additionally %s; the removal side decrements it for the last path of any "
                   "prefix regardless, so the counter drifts below the recount (and underflows on withdraw)" % " & ".join(extra)[:200], ins.loc(bi))
        elif new_ok and limit_ok:
            r.ok("insert: fetch_add guarded by is_new and by the limit test (%s)" % txt[:160])
        else:
            r.fail(ins.name, "increment-guard", "the limit counter is incremented off the 'new prefix and below limit' path (guards: %s)" % txt[:200], ins.loc(bi))
    # (d) daemon: PrefixLimitExceeded => insert_route returns true => session teardown
    ir = view(prog, prog.one(r"rustybgpd::table_manager::TableManager::insert_route"))
    r.analysed(ir.name)
    rets = {}
    for bi, si, s in ir.defs().get(0, []):
        if si == "t":
            continue
        rv = s["rv"]
        v = rv["o"].get("k", {}).get("v") if rv["r"] == "use" else None
        gs = guards_of(ir, bi)
        under = [l for br, l in gs if br.expr[0] == "discr" and br.expr[2] and "InsertResult" in br.expr[2]]
        rets[bi] = (v, under)
    ok_true = [b for b, (v, u) in rets.items() if v == 1 and any(l == {"PrefixLimitExceeded"} for l in u)]
    bad_true = [b for b, (v, u) in rets.items() if v == 1 and not any(l == {"PrefixLimitExceeded"} for l in u)]
    if ok_true and not bad_true:
        r.ok("insert_route: returns true exactly under InsertResult::PrefixLimitExceeded")
    else:
        r.fail(ir.name, "limit-signal", "insert_route does not map PrefixLimitExceeded (and only it) to `true`", ir.loc())
    # callers of insert_route must act on the result
    n_callers = 0
    for c in sorted(prog.callers(ir.key)):
        cfv = view(prog, c)
        for bi, t in cfv.calls(re.compile(r"rustybgpd::table_manager::TableManager::insert_route")):
            n_callers += 1
            dest = t["dest"]["l"]
            lim = Renderer(cfv, depth=8).operand(t["args"][6], 8)
            if lim[0] == "agg" and lim[2] == "None":
                r.ok("%s: insert_route called without a prefix limit (local/kernel route)" % short(root_name(prog, c)))
                continue
            used = _local_is_tested(cfv, dest, bi)
            if used:
                r.ok("%s: result of insert_route is tested" % short(root_name(prog, c)))
            else:
                r.fail(root_name(prog, c), "limit-result-ignored", "the prefix-limit result of insert_route is discarded", cfv.loc(bi))
    r.floor("callers of insert_route", n_callers, 1)


def _is_new_guard(fv, g, labels, brs):
    """The guard is `is_new == true` where is_new can only be true when no entry was replaced and the peer has
    no other path for the prefix (every non-false definition sits under `replaced.is_none()` and is `!peer_has_path`
    or sits under `peer_has_path == false`)."""
    if not (g[0] == "var" and labels == {"true"}):
        return False
    for l, n in fv.local_name.items():
        if n != g[1]:
            continue
        ds = [d for d in fv.defs().get(l, []) if d[0] in fv.live]
        if not ds:
            return False
        rend = Renderer(fv, depth=10)
        for bi, si, s in ds:
            if si == "t":
                return False
            rv = s["rv"]
            if rv["r"] == "use" and rv["o"].get("k", {}).get("v") == 0:
                continue        # `false` arm of the &&
            e = rend.rvalue(rv, 10)
            gs = flat_guards(fv, bi, brs)
            none_ok = any(gg[0] == "call" and gg[1].endswith("Option::<T>::is_none") and "replaced" in expr_vars(gg) and ll == {"true"} for gg, ll, hh in gs)
            peer_ok = (e[0] == "un" and e[1] == "Not" and "peer_has_path" in expr_vars(e)) or \
                any("peer_has_path" in expr_vars(gg) and ll == {"false"} for gg, ll, hh in gs)
            if not (none_ok and peer_ok):
                return False
        return True
    return False


def _is_new_via_filter(fv, g, labels, brs):
    """`prefix_limit.filter(|_| is_new)` tested for Some: the limit is configured and the prefix is new (the closure yields the
    captured is_new, which must itself be the validated classification)."""
    if not (g[0] == "discr" and set(labels) == {"Some"}):
        return False
    e = g[1]
    while isinstance(e, tuple) and e and e[0] in ("ref", "deref"):
        e = e[1]
    if e[0] == "var":
        from ..util import var_def_expr
        e = var_def_expr(fv, e[1], depth=10) or e
    if not (isinstance(e, tuple) and e and e[0] == "call" and e[1].endswith("Option::<T>::filter")):
        return False
    clos = [x for a in e[2][1:] for x in walk(a) if isinstance(x, tuple) and x and x[0] == "agg" and str(x[1]).startswith("closure")]
    if len(clos) != 1:
        return False
    caps = set(expr_vars(clos[0]))
    ck = _closure_key(fv.prog, clos[0][2])
    if ck is None:
        return False
    cv = view(fv.prog, ck)
    # the closure's result is its captured bool and nothing else: no call, no other condition
    if any(cv.blocks[b]["t"]["t"] == "call" for b in cv.live) or any(cv.blocks[b]["t"]["t"] == "switch" for b in cv.live):
        return False
    return any(_is_new_guard(fv, ("var", c), {"true"}, brs) for c in caps)


def _local_is_tested(fv, l, at):
    """The bool result in local `l` reaches a switch (directly or via copies) after block `at`."""
    seen = {l}
    work = [l]
    while work:
        x = work.pop()
        for bi in fv.reach_after(at) | {at}:
            b = fv.blocks[bi]
            t = b["t"]
            if t["t"] == "switch":
                p = t["o"].get("c") or t["o"].get("m")
                if p and p["l"] == x:
                    return True
            for s in b["s"]:
                rv = s.get("rv")
                if rv and rv["r"] in ("use", "un"):
                    o = rv.get("o") or rv.get("a")
                    p = o.get("c") or o.get("m")
                    if p and p["l"] == x and s["p"]["l"] not in seen:
                        seen.add(s["p"]["l"])
                        work.append(s["p"]["l"])
    return False


REMOVERS = ["remove", "drop_stale", "drop_llgr_stale", "drop_no_llgr"]


def check_counter_pairing(prog, r):
    for m in REMOVERS:
        k = prog.one(r"rustybgp_table::Table::" + m)
        subs = []
        for kk in prog.with_closures(k):
            fv = view(prog, kk)
            for bi, t in fv.calls(re.compile(r".*Atomic::<u64>::fetch_sub")):
                subs.append((fv, bi))
        r.analysed(prog.name(k))
        if not subs:
            r.fail(prog.name(k), "no-fetch_sub", "removes a peer's paths but never decrements the per-session prefix counter", view(prog, k).loc())
            continue
        for fv, bi in subs:
            # named locals are looked through: the guard is "no other entry of this peer left" = an Iterator::any(..) that is false
            gs = flat_guards(fv, bi, branches(fv, Renderer(fv, depth=12, through_names=True)))
            txt = " & ".join("%s∈%s" % (show(g, 50), sorted(l)) for g, l, h in gs)
            still = any(("peer_still_has_path" in expr_vars(g) or any(c.endswith("Iterator::any") for c in expr_calls(g))) and l == {"false"} for g, l, h in gs)
            if still:
                r.ok("%s: fetch_sub under !peer_still_has_path" % short(prog.name(k)))
            else:
                r.fail(prog.name(k), "fetch_sub-guard", "fetch_sub is not guarded by the peer_still_has_path test (guards: %s)" % txt[:160], fv.loc(bi))
    # the "does the peer still have a path here" test must look at the list *after* the removal
    for m in REMOVERS:
        k = prog.one(r"rustybgp_table::Table::" + m)
        for kk in prog.with_closures(k):
            fv = view(prog, kk)
            ls = [l for l, nm in fv.local_name.items() if nm == "peer_still_has_path"]
            if not ls:
                # renamed: the bool local that guards the fetch_sub and is defined by an Iterator::any over the entry list
                for l, nm in fv.local_name.items():
                    if l < len(fv.f["locals"]) and fv.f["locals"][l] == "bool" and any(si == "t" and any(n_.endswith("Iterator::any") for n_ in callee_names(s_)) for b_, si, s_ in fv.defs().get(l, [])):
                        ls.append(l)
            if not ls:
                continue
            removals = [b for b, t in fv.calls(re.compile(r".*Vec::<T(, A)?>::(retain|retain_mut|remove|swap_remove|drain)$")) if "RibEntry" in t["f"].get("ga", "")]
            for l in ls:
                for bi, si, s in fv.defs().get(l, []):
                    if bi not in fv.live:
                        continue
                    # the any()/find() call feeding this definition
                    srcs = [b for b, t in fv.calls(re.compile(r".*Iterator::(any|find|position)$")) if (b == bi or bi in fv.reach_after(b)) and b in fv.live]
                    late = [b for b in srcs if removals and not fv.dominated_by_any(b, removals)]
                    if not removals:
                        r.unanalysable("%s: peer_still_has_path is computed but no removal from the entry list was found" % short(prog.name(k)), fv.loc(bi))
                    elif late and len(late) == len(srcs):
                        r.fail(prog.name(k), "still-has-path-before-removal", "peer_still_has_path is computed (line %d) before the paths are removed from the entry list: it is then always true, so neither "
                               "`received` nor the prefix-limit counter is ever decremented by this purge" % fv.line(late[0]), fv.loc(late[0]))
                    else:
                        r.ok("%s: peer_still_has_path is evaluated on the list after the removal" % short(prog.name(k)))
    # no fetch_sub anywhere else in the table crate
    others = []
    for k in crate_fns(prog, "rustybgp_table"):
        if any(c["f"].get("name", "").endswith("Atomic::<u64>::fetch_sub") for c in prog.ix[k]["calls"]):
            rn = root_name(prog, k)
            if rn.split("::")[-1] not in REMOVERS:
                others.append(rn)
    for o in sorted(set(others)):
        r.fail(o, "unexpected-fetch_sub", "decrements the prefix counter outside the four removal mutators", "table/src/lib.rs")


# ---------------------------------------------------------------------------------------------- R15.5
def _delta(e):
    """(+1 / -1 / ...) of a `stats.f = stats.f +/- const` right-hand side, None if it has another shape."""
    for x in walk(e):
        if isinstance(x, tuple) and x and x[0] == "bin" and x[1] in ("Add", "Sub", "AddWithOverflow", "SubWithOverflow", "AddUnchecked", "SubUnchecked"):
            c = x[3]
            if c[0] == "const" and isinstance(c[1], int):
                return c[1] if x[1].startswith("Add") else -c[1]
            return None
    return None


def _first_bool_param(fv):
    """Table::insert(.., filtered: bool, nexthop_invalid: bool, ..): `filtered` is the first bool parameter."""
    for l in range(1, fv.f["argc"] + 1):
        if fv.f["locals"][l] == "bool":
            return fv.local_name.get(l)
    return None


def _var_types(fv, name):
    return {fv.f["locals"][l] for l, n in fv.local_name.items() if n == name and l < len(fv.f["locals"])}


def _eval(e, env, free, fv=None):
    """Three-valued evaluation of a guard expression under `env` (atom -> label); unknown atoms are recorded in `free`."""
    if isinstance(e, tuple) and e:
        if e[0] == "un" and e[1] == "Not":
            v = _eval(e[2], env, free, fv)
            return {"true": "false", "false": "true"}.get(v, v)
        if e[0] == "bin" and e[1] in ("Eq", "Ne", "BitAnd", "BitOr", "BitXor"):
            a, b = _eval(e[2], env, free, fv), _eval(e[3], env, free, fv)
            if a in ("true", "false") and b in ("true", "false"):
                a, b = a == "true", b == "true"
                v = {"Eq": a == b, "Ne": a != b, "BitXor": a != b, "BitAnd": a and b, "BitOr": a or b}[e[1]]
                return "true" if v else "false"
        if e[0] in ("ref", "deref"):
            return _eval(e[1], env, free, fv)
    key = _atom(e, fv)
    if key.startswith("R?"):
        if "R" not in env:
            free.add("R")
            return None
        return "true" if (env["R"] == "Some") == (key == "R?is_some") else "false"
    if key not in env:
        free.add(key)
    return env.get(key)


_OPT_PASS = re.compile(r".*Option::<T>::(map|as_ref|as_mut|as_deref|as_deref_mut|cloned|copied|take)$")


def _opt_origin(fv, e, depth=6):
    """If `e` is an Option derived from an Option<RibEntry> (the replaced entry) through map / as_ref / ..: return
    (True, [closure keys mapped over it]); else (False, [])."""
    clos = []
    rend = Renderer(fv, depth=4)
    while depth > 0 and isinstance(e, tuple) and e:
        depth -= 1
        if e[0] in ("ref", "deref"):
            e = e[1]
            continue
        if e[0] == "call" and _OPT_PASS.match(e[1]) and e[2]:
            for a in e[2][1:]:
                for x in walk(a):
                    if isinstance(x, tuple) and x and x[0] == "call" and x[1].startswith("closure::"):
                        clos.append(x[1][len("closure::"):])
                    if isinstance(x, tuple) and x and x[0] == "agg" and str(x[1]).startswith("closure"):
                        clos.append(str(x[2]))
            e = e[2][0]
            continue
        if e[0] == "var":
            tys = _var_types(fv, e[1])
            if any(re.search(r"Option<(&(mut )?)?(rustybgp_table::)?RibEntry>", t) for t in tys):
                return True, clos
            ls = [l for l, n in fv.local_name.items() if n == e[1]]
            ds = [d for l in ls for d in fv.defs().get(l, []) if d[0] in fv.live]
            if len(ds) != 1:
                return False, []
            bi, si, st = ds[0]
            e = rend.call_expr(st, 4, bi) if si == "t" else rend.rvalue(st["rv"], 4)
            continue
        return False, []
    return False, []


def _closure_is_filtered(fv, clos):
    """The mapped closures compute RibEntry::is_filtered() of the entry and nothing else."""
    prog = fv.prog
    ks = [k for k in prog.ix if any(k.endswith(c) or c.endswith(k) for c in clos)]
    if not ks:
        return False
    for k in ks:
        names = {prog.name(c) for c in prog.callees(k)}
        if not any(n.endswith("RibEntry::is_filtered") for n in names) or len(names) != 1:
            return False
    return True


def _atom(e, fv=None):
    """Atoms are identified by what they are, not by how the locals are called: R = the discriminant of the Option<RibEntry>
    taken out of the path list (or of an Option mapped from it), O = RibEntry::is_filtered() of that entry (directly, or as the
    payload of such a mapped Option), F = the `filtered` parameter of Table::insert."""
    e0 = e
    while isinstance(e, tuple) and e and e[0] in ("ref", "deref"):
        e = e[1]
    if isinstance(e, tuple) and e and fv is not None:
        if e[0] == "discr" or (e[0] == "call" and re.search(r"Option::<T>::is_(some|none)$", e[1])):
            inner = e[1] if e[0] == "discr" else (e[2][0] if e[2] else None)
            ok, clos = _opt_origin(fv, inner)
            if ok:
                return "R" if e[0] == "discr" else "R?" + e[1].split("::")[-1]
        if e[0] == "call" and e[1].endswith("RibEntry::is_filtered"):
            return "O"
        if e[0] == "field" and isinstance(e[1], tuple) and e[1] and e[1][0] == "downcast" and e[1][2] == "Some":
            ok, clos = _opt_origin(fv, e[1][1])
            if ok and clos and _closure_is_filtered(fv, clos):
                return "O"
        if e[0] == "var" and e[1] == _first_bool_param(fv):
            return "F"
        if e[0] == "var":
            # a named copy of one of the above (e.g. `let old_filtered = old.is_filtered()`, a pattern binding)
            ls = [l for l, n in fv.local_name.items() if n == e[1]]
            ds = [d for l in ls for d in fv.defs().get(l, []) if d[0] in fv.live]
            if len(ds) == 1:
                bi, si, st = ds[0]
                rend = Renderer(fv, depth=4)
                d = rend.call_expr(st, 4, bi) if si == "t" else rend.rvalue(st["rv"], 4)
                if not (isinstance(d, tuple) and d and d[0] == "var" and d[1] == e[1]):
                    a = _atom(d, fv)
                    if a in ("R", "O", "F"):
                        return a
    return "?" + show(e0, 120)


def check_stat_table(prog, r):
    """Table::insert: `accepted` counts the peer's unfiltered paths, so under every combination of (a path was replaced?,
    the replaced path was filtered?, the new path is filtered?) the net change written to stats.accepted must be
    [new unfiltered] - [replaced and old unfiltered]; `received` changes only when nothing was replaced."""
    import itertools
    k = prog.one(r"rustybgp_table::Table::insert")
    fv = view(prog, k)
    r.analysed(prog.name(k))
    rend = Renderer(fv, depth=6)
    brs = branches(fv)
    writes = []
    for name in ("accepted", "received"):
        for bi, si, s in field_writes(fv, name):
            d = _delta(rend.rvalue(s["rv"], 6))
            if d is None:
                r.unanalysable("insert: write to stats.%s is not `+= const` / `-= const` (line %d)" % (name, fv.line(bi)), fv.loc(bi))
                return
            writes.append((name, d, bi, [(g, frozenset(l)) for g, l, h in flat_guards(fv, bi, brs)]))
    if len([w for w in writes if w[0] == "accepted"]) < 2 or not any(w[0] == "received" for w in writes):
        r.unanalysable("insert: expected writes to stats.accepted and stats.received", fv.loc())
        return
    # guards common to every write lead to the accounting region: not part of the table
    common = set.intersection(*[{(show(g), l) for g, l in w[3]} for w in writes])
    atoms, dom = set(), {"R": ("Some", "None"), "O": ("true", "false"), "F": ("true", "false")}
    for w in writes:
        for g, l in w[3]:
            if (show(g), l) in common:
                continue
            fr = set()
            _eval(g, {}, fr, fv)
            for a in fr:
                atoms.add(a)
                if a not in dom:
                    dom[a] = tuple(sorted(set(l) | {"true", "false"})) if l <= {"true", "false"} else tuple(sorted(set(l) | {"<other>"}))
    if not {"R", "O", "F"} <= atoms:
        r.unanalysable("insert: the accounting is not conditioned on replaced / old.is_filtered() / filtered (atoms: %s)" % sorted(atoms), fv.loc())
        return
    order = sorted(atoms)
    bad = {}
    n = 0
    for vals in itertools.product(*[dom[a] for a in order]):
        env = dict(zip(order, vals))
        if env["R"] == "None" and env["O"] == "true":
            continue            # no old entry: O is meaningless, enumerate it once
        n += 1
        got = {"accepted": 0, "received": 0}
        for name, d, bi, gs in writes:
            if all((show(g), l) in common or _eval(g, env, set(), fv) in l for g, l in gs):
                got[name] += d
        newu = 0 if env["F"] == "true" else 1
        oldu = 0 if (env["R"] == "None" or env["O"] == "true") else 1
        if got["accepted"] != newu - oldu:
            kk = "accepted-delta:replaced=%s,old_filtered=%s,new_filtered=%s" % (env["R"], env["O"] if env["R"] == "Some" else "-", env["F"])
            bad.setdefault(kk, (got["accepted"], newu - oldu))
        if env["R"] == "Some" and got["received"] != 0:
            bad.setdefault("received-delta:replaced=Some", (got["received"], 0))
        if env["R"] == "None" and got["received"] not in (0, 1):
            bad.setdefault("received-delta:replaced=None", (got["received"], "0 or 1"))
    if not bad:
        r.ok("insert: stats.accepted changes by [new unfiltered] - [replaced old unfiltered] under all %d combinations of %s; received only without replacement" % (n, order))
    for kk, (g, w) in sorted(bad.items()):
        r.fail(prog.name(k), kk, "stats.accepted/received changes by %s where the recount changes by %s: peer_stats and Table::state drift from the RIB's contents" % (g, w), fv.loc(writes[0][2]))

    # Table::remove: accepted goes down iff the removed entry was unfiltered
    k = prog.one(r"rustybgp_table::Table::remove")
    fv = view(prog, k)
    r.analysed(prog.name(k))
    rend = Renderer(fv, depth=8, through_names=True)
    brs = branches(fv, rend)
    ws = field_writes(fv, "accepted")
    if not ws:
        r.fail(prog.name(k), "accepted-not-decremented", "Table::remove never decrements stats.accepted", fv.loc())
    for bi, si, s in ws:
        d = _delta(Renderer(fv, depth=6).rvalue(s["rv"], 6))
        gs = flat_guards(fv, bi, brs)
        on_removed = [1 for g, l, h in gs if g[0] == "call" and g[1].endswith("RibEntry::is_filtered") and l == {"false"}
                      and (any(re.search(r"Vec::<T(, A)?>::(remove|swap_remove)$", c) for c in expr_calls(g)) or any(x[0] == "index" for x in walk(g) if isinstance(x, tuple) and x))]
        others = [show(g, 60) for g, l, h in gs if g[0] == "call" and g[1].endswith("RibEntry::is_filtered") and l != {"false"}]
        if d == -1 and on_removed and not others:
            r.ok("remove: stats.accepted -= 1 iff the removed entry was unfiltered")
        else:
            r.fail(prog.name(k), "accepted-decrement-condition", "stats.accepted is changed by %s under %s, not by -1 exactly when the removed entry was unfiltered"
                   % (d, " & ".join("%s∈%s" % (show(g, 50), sorted(l)) for g, l, h in gs)[:200]), fv.loc(bi))


def _entry_atom(e, labels, fvx):
    """Conditions of a closure over one RibEntry: its flag accessors and the comparison with the peer address."""
    lab = set(labels)
    if len(lab) != 1 or not lab <= {"true", "false"}:
        return None
    t_ = lab == {"true"}
    while e[0] in ("ref", "deref"):
        e = e[1]
    if e[0] == "un" and e[1] == "Not":
        a = _entry_atom(e[2], {"true"}, fvx)
        return None if a is None else (a[0], a[1] != t_)
    if e[0] == "call" and re.search(r"rustybgp_table::RibEntry::is_\w+$", e[1]):
        return (e[1].split("::")[-1], t_)
    if e[0] == "call" and re.search(r"(^|::)(rustybgp_\w+::)?(\w+::)?(is|has)_\w+$", e[1]) and not e[1].startswith(("std::", "core::", "alloc::")) \
            and set(expr_vars(e)) <= {fvx.local_name.get(l) for l in range(2, fvx.f.get("argc", 0) + 1)}:
        return ("::".join(e[1].split("::")[-2:]), t_)       # another pure flag of the entry (its source, its attributes)
    if e[0] == "call" and re.search(r"cmp::PartialEq(::<.*>)?::(eq|ne)$", e[1]) and "remote_addr" in expr_fields(e):
        return ("peer", t_ == e[1].endswith("eq"))
    if e[0] == "bin" and e[1] in ("Eq", "Ne") and "remote_addr" in expr_fields(e):
        return ("peer", t_ == (e[1] == "Eq"))
    return None


def _table_of(rws, universe):
    """Total function valuation -> result from path rows (None where rows disagree or none applies)."""
    import itertools
    tab = {}
    for vals in itertools.product([False, True], repeat=len(universe)):
        v = dict(zip(universe, vals))
        res = {r_ for f_, r_, u_ in rws if all(v[a] == x for a, x in f_.items())}
        tab[vals] = res.pop() if len(res) == 1 else None
    return tab


def _closure_key(prog, name):
    ck = [kk for kk in prog.ix if kk.endswith(str(name)) or str(name).endswith(kk)]
    return ck[0] if ck else None


def _guards_with_block(fv, target, brs):
    """flat_guards, each with the block of the branch it comes from (to tell the guards inside a loop from those around it)."""
    out = []
    for br, labels in guards_of(fv, target, brs):
        e, lab = br.expr, set(labels)
        while isinstance(e, tuple) and e and e[0] == "un" and e[1] == "Not" and lab <= {"true", "false"}:
            e = e[2]
            lab = {"false" if l == "true" else "true" for l in lab}
        out.append((e, lab, br.bi))
    return out


def _accepted_amount(prog, bodies):
    """How the amount subtracted from route_stats.accepted is computed.  Returns a list of
    ("closure", key, fv, bi) -- `iter().filter(closure).count()`, or ("loop", (fv, block, local), fv, bi) -- a counter incremented
    by one inside a loop over the path list."""
    out = []
    for b in bodies:
        fv = view(prog, b)
        ws = field_writes(fv, "accepted")
        if not ws:
            continue
        rend = Renderer(fv, depth=24, through_names=True)
        plain = Renderer(fv, depth=6)
        for bi, si, st in ws:
            e = rend.rvalue(st["rv"], 24)
            found = False
            for x in walk(e):
                if isinstance(x, tuple) and x and x[0] == "call" and x[1].endswith("Iterator::count"):
                    for y in walk(x):
                        if isinstance(y, tuple) and y and y[0] == "call" and y[1].endswith("Iterator::filter"):
                            cl = [z[2] for a in y[2][1:] for z in walk(a) if isinstance(z, tuple) and z and z[0] == "agg" and str(z[1]).startswith("closure")]
                            if cl and _closure_key(prog, cl[0]):
                                out.append(("closure", _closure_key(prog, cl[0]), fv, bi))
                                found = True
            if found:
                continue
            # a counter: a named integer local mentioned by the write, incremented by a constant 1 inside a loop
            names = set(expr_vars(e)) | set(expr_vars(plain.rvalue(st["rv"], 6)))
            for l, n_ in fv.local_name.items():
                if n_ not in names or l >= len(fv.f["locals"]) or fv.f["locals"][l] not in ("u64", "usize", "u32"):
                    continue
                for db, dsi, dst_ in fv.defs().get(l, []):
                    if db not in fv.live or dsi == "t":
                        continue
                    de = plain.rvalue(dst_["rv"], 6)
                    inc = [x for x in walk(de) if isinstance(x, tuple) and x and x[0] == "bin" and x[1] in ("Add", "AddWithOverflow", "AddUnchecked")
                           and any(isinstance(o, tuple) and o and o[0] == "const" and o[1] == 1 for o in (x[2], x[3]))]
                    if inc and any(db in body for h, body, backs in loops(fv)):
                        out.append(("loop", (fv, db, l), fv, bi))
    return out


def check_bulk_accepted(prog, r):
    """drop_stale / drop_llgr_stale / drop_no_llgr purge a peer's paths with Vec::retain and subtract the number of purged
    *accepted* paths from route_stats.accepted.  `accepted` is maintained on the filtered flag alone (Table::insert / remove,
    R15.5), so that number must be |{e : retain drops e and not e.is_filtered()}| -- the counting predicate's truth table over the
    entry's flags must equal (not retain-predicate) and not is_filtered.  The count is read either as
    `iter().filter(pred).count()` or as a counter incremented inside a loop over the path list (its guards are the predicate)."""
    from .. import predicates
    import itertools
    n = 0
    for k in crate_fns(prog, "rustybgp_table"):
        ix = prog.ix[k]
        if ix["kind"] not in ("fn", "method") or not ix["name"].startswith("rustybgp_table::Table::"):
            continue
        bodies = list(prog.with_closures(k))
        if not any(field_writes(view(prog, b), "accepted") for b in bodies):
            continue
        retains = []
        for b in bodies:
            fv = view(prog, b)
            rend = Renderer(fv, depth=6)
            for bi, t in fv.calls(re.compile(r".*Vec::<T, A>::retain$")):
                if "RibEntry" not in t["f"].get("ga", ""):
                    continue
                cl = [x[2] for a in t["args"][1:] for x in walk(rend.operand(a, 6)) if isinstance(x, tuple) and x and x[0] == "agg" and str(x[1]).startswith("closure")]
                if len(cl) == 1 and _closure_key(prog, cl[0]):
                    retains.append((_closure_key(prog, cl[0]), fv, bi))
        if not retains:
            continue            # single-path mutators (insert / remove) are R15.5's
        n += 1
        r.analysed(ix["name"])
        where = short(ix["name"])
        amounts = _accepted_amount(prog, bodies)
        if len(retains) != 1 or len(amounts) != 1:
            r.unanalysable("%s: %d retain closure(s) over the path list / %d recognised computation(s) of the amount subtracted from `accepted` (want 1 / 1)" % (where, len(retains), len(amounts)), view(prog, k).loc())
            continue
        rr, rfv = predicates.rows(prog, retains[0][0], _entry_atom)
        kind, what, cfv, cbi = amounts[0]
        if kind == "closure":
            cr, cfv = predicates.rows(prog, what, _entry_atom)
        else:
            lfv, lb, ll = what
            cr = []
            facts, unk = {}, []
            lbrs = branches(lfv, Renderer(lfv, depth=16, through_names=True))
            inner = min((body for h, body, backs in loops(lfv) if lb in body), key=len)
            prend = Renderer(lfv, depth=16, through_names=True)
            work = [(g, labels, bb) for g, labels, bb in _guards_with_block(lfv, lb, lbrs) if bb in inner]
            seen_defs = set()
            while work:
                g, labels, bb = work.pop()
                if g[0] == "discr" and any(c.endswith("Iterator::next") for c in expr_calls(g)):
                    continue
                a = _entry_atom(g, labels, lfv)
                if a is not None:
                    facts[a[0]] = a[1]
                    continue
                # a bool local computed by `x && y` (several definitions): on its true side the one non-constant definition
                # was taken and evaluated to true -- its own guards and its expression join the conjunction
                exp = None
                if g[0] == "var" and set(labels) == {"true"}:
                    ls = [l for l, n_ in lfv.local_name.items() if n_ == g[1]]
                    ds = [(db, dsi, dst_) for l in ls for db, dsi, dst_ in lfv.defs().get(l, []) if db in lfv.live and db in inner]
                    nonconst = [(db, dsi, dst_) for db, dsi, dst_ in ds if dsi == "t" or not (dst_["rv"]["r"] == "use" and "k" in dst_["rv"]["o"])]
                    consts_false = all(dst_["rv"]["o"]["k"].get("v") == 0 for db, dsi, dst_ in ds if (db, dsi, dst_) not in nonconst)
                    if len(nonconst) == 1 and consts_false and (nonconst[0][0], g[1]) not in seen_defs:
                        db, dsi, dst_ = nonconst[0]
                        seen_defs.add((db, g[1]))
                        de = prend.call_expr(dst_, 16, db) if dsi == "t" else prend.rvalue(dst_["rv"], 16)
                        exp = [(de, {"true"}, db)] + [(g2, l2, b2) for g2, l2, b2 in _guards_with_block(lfv, db, lbrs) if b2 in inner]
                if exp is None:
                    unk.append((show(g, 80), tuple(sorted(map(str, labels)))))
                else:
                    work += exp
            # the guards are the conjunction under which the counter moves; every other valuation leaves it alone
            cr.append((facts, True, unk))
            cr.append(("else", False, []))
        if rr is None or cr is None:
            r.unanalysable("%s: predicate has too many paths" % where, view(prog, k).loc())
            continue
        unk = sorted({u[0] for rws in (rr, [x for x in cr if x[0] != "else"]) for f_, res_, us in rws for u in us})
        if unk or any(res_ is None for rws in (rr, cr) for f_, res_, us in rws):
            r.unanalysable("%s: condition over the entry not recognised: %s" % (where, unk[:2]), cfv.loc())
            continue
        uni = sorted({a for rws in (rr, [x for x in cr if x[0] != "else"]) for f_, res_, us in rws for a in f_} | {"is_filtered"})
        tr = _table_of(rr, uni)
        if kind == "closure":
            tc = _table_of(cr, uni)
        else:
            conj = cr[0][0]
            tc = {vals: all(dict(zip(uni, vals))[a] == x for a, x in conj.items()) for vals in itertools.product([False, True], repeat=len(uni))}
        bad = None
        for vals, kept in tr.items():
            v = dict(zip(uni, vals))
            want = (not kept) and not v["is_filtered"] if kept is not None else None
            if want is None or tc[vals] is None:
                bad = ("undecided", v, None)
                break
            if tc[vals] != want:
                bad = ("mismatch", v, tc[vals])
                break
        if bad is None:
            r.ok("%s: counted for `accepted` = removed by retain and not filtered (%s, atoms %s)" % (where, "filter/count" if kind == "closure" else "counter in a loop", ",".join(uni)))
        elif bad[0] == "undecided":
            r.unanalysable("%s: predicates not total over %s" % (where, uni), cfv.loc())
        else:
            v = bad[1]
            r.fail(ix["name"], "bulk-accepted-count", "an entry with %s is %s by retain but is %s in the number subtracted from route_stats.accepted: peer_stats drifts from the recount"
                   % (", ".join("%s=%s" % (a, v[a]) for a in uni), "kept" if tr[tuple(v[a] for a in uni)] else "removed", "counted" if bad[2] else "not counted"), cfv.loc())
    r.floor("bulk removers with a retain over the path list", n, 3)


def check_state_and_scope(prog, r):
    """(a) Table::state(): num_accepted counts the entries that are not import-filtered.  route_stats.accepted is maintained on that
    flag alone (R15.5), so a total that also skips paths with an unreachable next hop (e.g. by reusing the best-path iterator)
    falls below the recount and below the sum of the per-peer counters although no path left the RIB.
    (b) a removal scoped to one family (Table::drop(addr, family)) may drop the peer's whole counter map only once that map is
    empty: the peer's other families still hold (stale) paths."""
    k = prog.one(r"rustybgp_table::Table::state")
    r.analysed(prog.name(k))
    flags = set()
    seen, work = set(), [(k, 2)]
    while work:
        kk, d = work.pop()
        if kk in seen:
            continue
        seen.add(kk)
        for b in prog.with_closures(kk):
            fv = view(prog, b)
            for bi, t in fv.calls():
                nm = t["f"].get("name") or ""
                if re.search(r"rustybgp_table::RibEntry::is_\w+$", nm):
                    flags.add(nm.split("::")[-1])
                elif d > 0 and nm.startswith("rustybgp_table::") and "RibEntry" not in nm:
                    for hk in prog.by_name.get(nm, []):
                        work.append((hk, d - 1))
    if "is_filtered" not in flags:
        r.fail(prog.name(k), "state-accepted-not-by-filter", "Table::state never consults RibEntry::is_filtered: num_accepted is not the number of non-filtered paths", view(prog, k).loc())
    elif flags - {"is_filtered"}:
        r.fail(prog.name(k), "state-accepted-extra-flag:" + "+".join(sorted(flags - {"is_filtered"})), "Table::state restricts a total by %s as well: `accepted` is defined on the import-filter flag alone "
               "(per-peer counters, recount), so the table total drifts below them when e.g. a next hop becomes unreachable" % ", ".join(sorted(flags - {"is_filtered"})), view(prog, k).loc())
    else:
        r.ok("Table::state: num_accepted is decided by is_filtered alone")
    # (b)
    n = 0
    for kk in crate_fns(prog, "rustybgp_table"):
        ix = prog.ix[kk]
        if ix["kind"] not in ("fn", "method") or not ix["name"].startswith("rustybgp_table::Table::") or "::tests::" in ix["name"]:
            continue
        fv = view(prog, kk)
        if not any("Family" in fv.f["locals"][l] and "Hash" not in fv.f["locals"][l] for l in range(1, fv.f.get("argc", 0) + 1)):
            continue
        rend = Renderer(fv, depth=8, through_names=True)
        for bi, t in fv.calls(re.compile(r".*HashMap::<K, V, S(, A)?>::remove$")):
            ga = t["f"].get("ga", "")
            if "PrefixStats" not in ga or "IpAddr" not in ga.split(",")[0]:
                continue            # the inner (family -> stats) map, or another map
            n += 1
            gs = flat_guards(fv, bi, branches(fv, rend))
            emptied = any(g[0] == "call" and g[1].endswith("::is_empty") and l == {"true"} for g, l, h in gs)
            if emptied:
                r.ok("%s: the peer's counter map is removed only once it is empty" % short(ix["name"]))
            else:
                r.fail(ix["name"], "stats-removed-for-all-families", "%s works on one family but removes the peer's counters for every family unconditionally: the paths of the other families "
                       "stay in the RIB (e.g. kept stale for graceful restart) while their counters are gone, so later withdrawals underflow or panic" % short(ix["name"]), fv.loc(bi))
    r.floor("family-scoped removals of a peer's counter map", n, 1)
