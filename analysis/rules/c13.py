"""C13 — installed VRPs equal what the cache announced (structural clauses)."""
import re

from ..cfg import Renderer, walk, show, flat_guards, branches
from ..facts import callee_names, short
from ..sig import fn_tokens
from ..util import view, crate_fns, root_name, expr_calls, expr_fields, expr_vars, field_writes

EXPLANATION = (
    "Static rules over daemon/src/rpki.rs (serve_inner / try_connect coroutines, stitched at their await points) and "
    "packet/src/rpki.rs: R13.1 the table reset that installs the snapshot buffer runs only in the snapshot phase "
    "(control-dependent on end_of_data == false) while incremental announce/withdraw run only after it, and the snapshot "
    "buffer is filled only before it; R13.2 every PDU a cache can send has an explicit handler: Cache Reset must lead to a "
    "Reset Query and a return to the snapshot phase, unused PDUs are consumed; R13.3 every exit of the PDU loop reaches "
    "rpki_drop_all, and the session future is not raced against a cancellation branch that can drop it before that cleanup; "
    "R13.4 the cache identity attached to every VRP is the same Arc used for reset/drop. Decides the phase structure, not the "
    "fold over all PDU sequences.")
ASSUMPTIONS = ["tokio::select! drops the futures of the branches that did not win (so a raced session future loses its cleanup)"]


def _var_or_field(e, name):
    return name in expr_vars(e) or name in expr_fields(e)


def _const_value(fv, rv, depth=2):
    """Constant assigned by a statement: 0 / 1 for a bool, the variant name for a fieldless enum value (written directly or through
    one temporary)."""
    if rv["r"] == "use" and "k" in rv["o"]:
        k = rv["o"]["k"]
        if k.get("variant"):
            return k["variant"]
        if k.get("v") in (0, 1) and "bool" in str(k.get("ty", "bool")):
            return k["v"]
        return None
    if rv["r"] == "agg" and rv.get("k") == "adt" and not rv.get("fields"):
        return rv.get("v")
    if rv["r"] == "use":
        q = rv["o"].get("c") or rv["o"].get("m")
        if q is not None and not q.get("p") and depth > 0:
            vs = {_const_value(fv, st["rv"], depth - 1) for bi, si, st in fv.defs().get(q["l"], []) if bi in fv.live and si != "t"}
            if len(vs) == 1:
                return vs.pop()
    return None


def _phase_flag(prog, fv, brs):
    """(name, incremental value, snapshot value) of the place assigned one constant under `match msg { EndOfData .. }` and another
    under CacheReset: a bool (true / false) or a two-variant enum."""
    sets = {"EndOfData": {}, "CacheReset": {}}
    for bi in sorted(fv.live):
        arm = None
        for g, l, h in flat_guards(fv, bi, brs):
            if g[0] == "discr" and g[2] and g[2].endswith("rpki::Message") and len(l) == 1 and next(iter(l)) in sets:
                arm = next(iter(l))
        if arm is None:
            continue
        for st in fv.blocks[bi]["s"]:
            rv = st.get("rv")
            if not rv:
                continue
            v = _const_value(fv, rv)
            if v is None:
                continue
            nm = None
            for e in reversed(st["p"].get("p") or []):
                if isinstance(e, dict) and e.get("n"):
                    nm = e["n"]
                    break
            nm = nm or fv.local_name.get(st["p"]["l"])
            if nm:
                sets[arm].setdefault(nm, set()).add(v)
    cands = [(n, next(iter(vs)), next(iter(sets["CacheReset"][n]))) for n, vs in sets["EndOfData"].items()
             if len(vs) == 1 and len(sets["CacheReset"].get(n, ())) == 1 and vs != sets["CacheReset"][n]]
    cands = [c for c in cands if (c[1], c[2]) == (1, 0) or (isinstance(c[1], str) and isinstance(c[2], str))]
    return cands[0] if len(cands) == 1 else None


def run(prog, rep, tier):
    sk = prog.one(r"rustybgpd::rpki::RpkiClient::serve_inner")
    fv = view(prog, prog.body_key(sk))
    if not fv.stitched:
        rep.rule("R13.0", "coroutine stitching").unanalysable("serve_inner coroutine could not be stitched", fv.loc())
        return
    # the PDU loop may have been split into new async helpers (handle_pdu(..).await): their coroutine bodies are looked at
    # as well; the body that holds the `match` on the PDU type is the one the per-arm rules read
    helper_views = [view(prog, prog.body_key(h)) for h in prog.async_helpers.get(sk, [])]
    main_fv = fv
    for hv in helper_views:
        if any(br.expr[0] == "discr" and br.adt and br.adt.endswith("rpki::Message") and len(br.cases) >= 3 for br in branches(hv).values()) \
                and not any(br.expr[0] == "discr" and br.adt and br.adt.endswith("rpki::Message") and len(br.cases) >= 3 for br in branches(fv).values()):
            fv = hv
    brs = branches(fv)
    r1 = rep.rule("R13.1", "snapshot install only in the snapshot phase; incremental changes only after it")
    r1.analysed(prog.name(sk))

    # the phase flag is whatever bool is set under the End-of-Data arm and cleared under the Cache-Reset arm (its name is the
    # maintainer's business)
    flag, inc_v, snap_v = _phase_flag(prog, fv, brs) or ("end_of_data", 1, 0)
    brs_n = branches(fv, Renderer(fv, depth=12, through_names=True))

    def phase(bi):
        for g, labels, how in flat_guards(fv, bi, brs):
            if inc_v == 1 and _var_or_field(g, flag) and labels <= {"true", "false"} and g[0] in ("var", "field", "deref"):
                return "incremental" if labels == {"true"} else "snapshot"
        if isinstance(inc_v, str):
            # an enum-valued phase: `match phase {..}` or `phase == Phase::X` (a derived PartialEq compares the discriminants)
            for g, labels, how in flat_guards(fv, bi, brs_n):
                if g[0] == "discr" and _var_or_field(g, flag) and len(labels) == 1 and next(iter(labels)) in (inc_v, snap_v):
                    return "incremental" if next(iter(labels)) == inc_v else "snapshot"
                if g[0] == "bin" and g[1] in ("Eq", "Ne") and _var_or_field(g, flag) and labels <= {"true", "false"} and len(labels) == 1:
                    cv = [x[3] for x in walk(g) if isinstance(x, tuple) and x and x[0] == "const" and len(x) > 3 and x[3] in (inc_v, snap_v)]
                    if len(cv) == 1:
                        same = (g[1] == "Eq") == (labels == {"true"})
                        v_ = cv[0] if same else (snap_v if cv[0] == inc_v else inc_v)
                        return "incremental" if v_ == inc_v else "snapshot"
        return None
    n = 0
    for name, want, what in (("rpki_reset", "snapshot", "installing the snapshot buffer (drop all + insert snapshot)"),
                             ("rpki_insert", "incremental", "incremental announcement"),
                             ("rpki_withdraw", "incremental", "incremental withdrawal")):
        sites = fv.calls(re.compile(r"rustybgpd::table_manager::TableManager::" + name))
        if not sites:
            r1.unanalysable("serve_inner never calls %s" % name, fv.loc())
        for bi, t in sites:
            n += 1
            ph = phase(bi)
            if ph == want:
                r1.ok("%s only in the %s phase" % (name, want))
            else:
                r1.fail(prog.name(sk), "phase:%s" % name,
                        "%s runs %s: every End-of-Data re-installs the first snapshot and discards the incremental changes applied since"
                        % (name, "in both phases (no test of end_of_data)" if ph is None else "in the %s phase" % ph) if name == "rpki_reset" else
                        "%s (%s) is not restricted to the %s phase" % (name, what, want), fv.loc(bi))
    pushes = [(bi, t) for bi, t in fv.calls(re.compile(r".*Vec::<T, A>::push")) if "Roa" in t["f"].get("ga", "")]
    for bi, t in pushes:
        if phase(bi) == "snapshot":
            r1.ok("snapshot buffer filled only before the first End-of-Data")
        else:
            r1.fail(prog.name(sk), "phase:buffer-push", "the snapshot buffer is filled outside the snapshot phase", fv.loc(bi))
    # end_of_data is set on EndOfData
    sets = [bi for bi, si, s in field_writes(fv, flag)] + \
        [bi for l, nme in fv.local_name.items() if nme == flag for bi, si, s in fv.defs().get(l, [])]
    if sets:
        r1.ok("end_of_data is written in %d place(s)" % len(sets))
    else:
        r1.unanalysable("no write of end_of_data found", fv.loc())

    check_reset_scope(prog, r1)
    r2 = rep.rule("R13.2", "every PDU type a cache can send has a handler; Cache Reset restarts the snapshot")
    r2.analysed(prog.name(sk))
    handled = set()
    msg_sw = None
    for bi, br in brs.items():
        if br.expr[0] == "discr" and br.adt and br.adt.endswith("rpki::Message") and len(br.cases) >= 3:
            msg_sw = br
            for v, tgt in br.cases:
                handled.add(br.label(prog, v))
    if msg_sw is None:
        r2.unanalysable("serve_inner: match on rpki::Message not found", fv.loc())
    else:
        need = ["SerialNotify", "CacheResponse", "IpPrefix", "EndOfData", "CacheReset"]
        for v in need:
            if v in handled:
                r2.ok("PDU %s has an explicit arm" % v)
            else:
                extra = " (RFC 8210 §5.9: the router must send a Reset Query and rebuild its set; here the PDU falls into `_ => {}` and the stale set stays)" if v == "CacheReset" else ""
                r2.fail(prog.name(sk), "pdu-unhandled:" + v, "PDU %s has no handler in serve_inner%s" % (v, extra), fv.loc(msg_sw.bi))
        if "CacheReset" in handled:
            # arm must send ResetQuery and clear end_of_data
            ok_send = ok_phase = False
            for bi in sorted(fv.live):
                if any(g == msg_sw.expr and l == {"CacheReset"} for g, l, h in flat_guards(fv, bi, brs)):
                    for s in fv.blocks[bi]["s"]:
                        rv = s.get("rv")
                        if rv and rv["r"] == "agg" and rv.get("v") == "ResetQuery":
                            ok_send = True
                        if rv and rv["r"] == "use" and (rv["o"].get("k") or {}).get("variant") == "ResetQuery":
                            ok_send = True        # `&Message::ResetQuery` is a promoted constant
                        if "rv" in s and (s["p"].get("p") and any(isinstance(e, dict) and e.get("n") == flag for e in s["p"]["p"]) or fv.local_name.get(s["p"]["l"]) == flag):
                            if _const_value(fv, rv) == snap_v:
                                ok_phase = True
            if ok_send and ok_phase:
                r2.ok("CacheReset arm sends ResetQuery and returns to the snapshot phase")
            else:
                r2.fail(prog.name(sk), "cache-reset-arm", "the CacheReset arm does not %s" % ("send a Reset Query" if not ok_send else "return to the snapshot phase (end_of_data = false)"), fv.loc(msg_sw.bi))
    # the codec must deliver (not stall on) every PDU type: RtrCodec::decode has no Err->Ok(None) mapping
    dk = prog.find(r"rustybgp_packet::<rpki::RtrCodec as tokio_util::codec::Decoder>::decode")
    if len(dk) == 1:
        dv = view(prog, dk[0])
        r2.analysed(dv.name)
        stall = []
        for bi, si, s in dv.aggregates(None, "None"):
            for g, labels, how in flat_guards(dv, bi):
                if g[0] == "discr" and any(c.endswith("Message::from_bytes") for c in expr_calls(g)) and "Err" in labels:
                    stall.append(bi)
        if stall:
            r2.fail(dv.name, "decode-err-as-need-more", "RtrCodec::decode maps every Message::from_bytes error (including an unknown PDU type in a complete frame) to Ok(None) = 'need more bytes': the client stops making progress", dv.loc(stall[0]))
        else:
            r2.ok("RtrCodec::decode does not turn PDU errors into 'need more bytes'")
        # ... and "need more bytes" is said only when the buffer really is too short (a complete PDU behind a skipped one
        # must be decoded in the same call, or the stream waits for bytes that may never come)
        from . import c03 as _c03
        _c03.check_need_more(prog, r2, names=(r"rustybgp_packet::<rpki::RtrCodec as tokio_util::codec::Decoder>::decode",))
        # well-formed PDUs of a type the client does not use are skipped: parsing is reached only for the types the
        # parser has an arm for, and the "supported" predicate names exactly those types
        fb = prog.find(r"rustybgp_packet::rpki::Message::from_bytes")
        sp = prog.find(r"rustybgp_packet::rpki::Message::is_supported_type")
        parse_types = set()
        if len(fb) == 1:
            fbv = view(prog, fb[0])
            for bb, br in branches(fbv).items():
                if br.expr[0] == "var" and br.expr[1] == "message_type":
                    parse_types |= {int(c) for c, _ in br.cases}
        sup_types = set()
        if len(sp) == 1:
            spv = view(prog, sp[0])
            for bb, br in branches(spv).items():
                if br.expr[0] == "var" and br.expr[1] == "message_type":
                    sup_types |= {int(c) for c, _ in br.cases}
        guarded = all(any(g[0] == "call" and g[1].endswith("Message::is_supported_type") and l == {"true"} for g, l, h in flat_guards(dv, bi))
                      for bi, t in dv.calls(re.compile(r"rustybgp_packet::rpki::Message::from_bytes$")))
        if not sp:
            # the predicate written in place: `matches!(pdu[1], T0 | T1 | ..)` = a switch on a byte in decode itself whose listed
            # values lead to the parser
            fbs = [bi for bi, t in dv.calls(re.compile(r"rustybgp_packet::rpki::Message::from_bytes$"))]
            from ..paths import enumerate_paths, PathLimit
            try:
                dps = enumerate_paths(dv, Renderer(dv, depth=10), max_paths=20000)
            except PathLimit:
                dps = []
            ok_labels, leak = set(), False
            for conds, blocks, env in dps:
                if not (set(fbs) & set(blocks)):
                    continue
                tl = [labels for br, labels in conds if getattr(br, "ty", None) == "u8" and len(getattr(br, "cases", [])) >= 3]
                if not tl:
                    leak = True
                    continue
                for labels in tl:
                    if "else" in labels:
                        leak = True
                    else:
                        ok_labels |= {int(x) for x in labels if str(x).isdigit()}
            if ok_labels and not leak:
                sup_types |= ok_labels
                guarded = True
        if len(parse_types) < 8:
            r2.unanalysable("Message::from_bytes: PDU type switch not recognised (%d types)" % len(parse_types), dv.loc())
        elif guarded and sup_types == parse_types:
            r2.ok("RtrCodec::decode parses only the %d PDU types Message::from_bytes knows and skips the rest" % len(parse_types))
        else:
            r2.fail(dv.name, "unused-pdu-type-not-skipped", "a complete PDU of a type the parser has no arm for (e.g. Router Key, type 9) is %s: the session ends or stalls on a well-formed stream"
                    % ("handed to Message::from_bytes, which reports an error" if not guarded else "classified by a predicate (%s) that disagrees with the parser's arms (%s)" % (sorted(sup_types), sorted(parse_types))), dv.loc())
    else:
        r2.unanalysable("RtrCodec::decode anchor matched %d" % len(dk))

    r3 = rep.rule("R13.3", "every exit of the PDU loop removes the cache's VRPs; the session future is not dropped by a raced cancel")
    r3.analysed(prog.name(sk))
    drops = [b for b, t in main_fv.calls(re.compile(r"rustybgpd::table_manager::TableManager::rpki_drop_all"))]
    rets = main_fv.returns()
    if drops and rets and all(main_fv.dominated_by_any(x, drops) for x in rets):
        r3.ok("serve_inner: every return is dominated by rpki_drop_all (%d return block(s))" % len(rets))
    else:
        r3.fail(prog.name(sk), "exit-without-drop", "serve_inner can return without rpki_drop_all: a dead session's VRPs stay installed", fv.loc())
    # the purge itself: RpkiTable::drop_source walks each entry list with remove-while-indexing
    from ..util import remove_while_indexing
    dsk = prog.one(r"rustybgp_table::RpkiTable::drop_source")
    dsv = view(prog, dsk)
    r3.analysed(dsv.name)
    sites = remove_while_indexing(dsv)
    retains = [b for b, t in dsv.calls(re.compile(r".*Vec::<T(, A)?>::(retain|retain_mut)$")) if "Roa" in t["f"].get("ga", "")]
    if not sites and retains:
        r3.ok("drop_source: the entry lists are purged with Vec::retain (visits every element by construction)")
    elif not sites:
        r3.unanalysable("RpkiTable::drop_source: neither a remove-in-loop site nor a Vec::retain over the VRP list was recognised (purge idiom changed)", dsv.loc())
    for rb, il, bad in sites:
        if bad is None:
            r3.ok("drop_source: after Vec::remove(i) the index is not advanced (the next element has moved into slot i)")
        else:
            r3.fail(dsv.name, "remove-then-advance", "drop_source advances the index (line %d) on the path that has just removed element i: the element that moved into slot i is skipped, "
                    "so every second adjacent VRP of the dropped cache survives" % dsv.line(bad), dsv.loc(rb))
    # VRPs of one cache are untouched by another's: every mutator identifies a VRP by (cache, max-length, AS)
    from . import c12 as _c12
    _c12.check_vrp_identity(prog, r3)
    tk = prog.one(r"rustybgpd::rpki::RpkiClient::try_connect")
    raced = []
    for kk in prog.with_closures(tk):
        kv = view(prog, kk)
        for bi in sorted(kv.live):
            for s in kv.blocks[bi]["s"]:
                rv = s.get("rv")
                if rv and rv["r"] == "agg" and rv["k"] in ("tuple", "adt"):
                    tys = []
                    for f in rv["fields"]:
                        p = f.get("m") or f.get("c")
                        if p and not p.get("p"):
                            tys.append(kv.f["locals"][p["l"]])
                    if any("RpkiClient::serve" in t for t in tys) and any("WaitForCancellationFuture" in t for t in tys):
                        raced.append((kv, bi))
    if raced:
        kv, bi = raced[0]
        r3.fail(prog.name(tk), "serve-raced-with-cancel",
                "try_connect polls the session future in the same select! as cancel.cancelled(): when the cancel branch wins, serve()/serve_inner is dropped before it reaches rpki_drop_all, so a removed cache keeps its VRPs",
                kv.loc(bi))
    else:
        r3.ok("try_connect does not race the session future against cancellation")

    r4 = rep.rule("R13.4", "one cache identity (the same Arc) on VRPs, reset and drop")
    r4.analysed(prog.name(sk))
    n4 = 0
    for name, idx in (("rustybgp_table::Roa::new", 2), ("rustybgpd::table_manager::TableManager::rpki_reset", 1), ("rustybgpd::table_manager::TableManager::rpki_drop_all", 1)):
        for bv in [main_fv] + [hv for hv in helper_views if hv is not main_fv]:
            rend = Renderer(bv, depth=12)
            for bi, t in bv.calls(re.compile(re.escape(name))):
                n4 += 1
                e = rend.operand(t["args"][idx], 12)
                if _var_or_field(e, "remote_addr"):
                    r4.ok("%s keyed by remote_addr" % short(name))
                else:
                    r4.fail(prog.name(sk), "identity:" + short(name), "%s uses %s as the cache identity, not the session's remote_addr Arc" % (short(name), show(e, 60)), bv.loc(bi))
    r4.floor("cache-identity sites in serve_inner", n4, 3)


def check_reset_scope(prog, r):
    """TableManager::rpki_reset(cache, snapshot) replaces the VRPs of *that cache*: it drops the cache's VRPs (drop_source with the
    cache's address) and then inserts the snapshot.  Dropping after inserting removes what was just installed (the new VRPs carry
    the same source); building a fresh table and swapping it in wipes every other cache's VRPs."""
    k = prog.one(r"rustybgpd::table_manager::TableManager::rpki_reset")
    fv = view(prog, k)
    r.analysed(prog.name(k))
    drops = [b for b, t in fv.calls(re.compile(r"rustybgp_table::RpkiTable::drop_source$"))]
    ins = [b for b, t in fv.calls(re.compile(r"rustybgp_table::RpkiTable::insert$"))]
    if not ins:
        r.unanalysable("rpki_reset never inserts the snapshot", fv.loc())
        return
    if not drops:
        r.fail(prog.name(k), "reset-without-drop-source", "rpki_reset does not drop the cache's previous VRPs with drop_source(cache): either stale VRPs of the cache survive the reset, or "
               "(when the whole table is replaced instead) every other cache's VRPs are wiped", fv.loc())
    elif all(any(fv.dominates(d, i) for d in drops) for i in ins) and not any(d in fv.reach_after(i) for d in drops for i in ins):
        r.ok("rpki_reset: drop_source(cache) dominates every insert of the snapshot and never follows one")
    else:
        r.fail(prog.name(k), "reset-drop-after-insert", "rpki_reset can call drop_source(cache) after inserting snapshot VRPs: the VRPs just installed carry that source and are removed again, "
               "so the cache ends up with none", fv.loc(drops[0]))
    # the shared table is updated in place: no new RpkiTable is built or stored over the old one
    news = [b for b, t in fv.calls(re.compile(r"rustybgp_table::RpkiTable::(new|default)$|.*Default::default$")) if "RpkiTable" in (t["f"].get("name", "") + t["f"].get("ga", "") + fv.f["locals"][t["dest"]["l"]])]
    whole = [bi for bi in fv.live for st in fv.blocks[bi]["s"] if "rv" in st and (st["p"].get("p") or [])[-1:] == ["*"] and "RpkiTable" in fv.f["locals"][st["p"]["l"]]
             and st["rv"]["r"] == "use" and not (st["rv"]["o"].get("c") or st["rv"]["o"].get("m") or {}).get("p")]
    if news or whole:
        r.fail(prog.name(k), "reset-replaces-table", "rpki_reset builds a new RpkiTable / overwrites the shared one: the VRPs of every other cache disappear with the End-of-Data of this one", fv.loc((news or whole)[0]))
    else:
        r.ok("rpki_reset updates the shared table in place")
