"""C14 — routing policy evaluates as specified and never crashes (structural clauses)."""
import re

from ..cfg import Renderer, walk, show, flat_guards, guards_of, branches
from ..facts import callee_names, short
from ..sig import fn_tokens
from ..util import view, crate_fns, root_name, expr_calls, expr_fields, expr_vars, loops, returns_value_exprs

EXPLANATION = (
    "Static rules over table/src/policy.rs: R14.1 panic freedom of everything reachable from apply_import/apply_export "
    "(abstract interpretation of every index/arith/unwrap site, see analysis/absint.py); R14.2 every removal or overwrite of an "
    "existing entry of a PolicyTable map is dominated by an in-use scan over the map of its users that returns StillInUse "
    "(accepted idioms: scan loop with early Err, helper call propagating Err, policy_in_use_globally test, still_used flag); "
    "R14.3 chaining: Statement::apply performs actions only when Iterator::all over its conditions held, Policy::apply and "
    "PolicyAssignment::apply return at the first non-Pass disposition and the default only after the loop; R14.4 option "
    "coverage: per set-typed condition, the MatchOption values not rejected by add_statement must all be distinguished by the "
    "evaluator; R14.5 prefix-set lookup must consider all covering entries (IpLookupTable::matches), not only the longest match; "
    "R14.6 the daemon reaches PolicyTable::delete_policy / merging add_policy only behind its per-peer reference scan. "
    "Decides these necessary conditions, not equality with reference semantics for all policies/routes.")
ASSUMPTIONS = [
    "treebitmap::IpLookupTable::longest_match returns only the most specific covering entry; matches() returns all covering entries",
    "sets/statements/policies are shared through Arc without interior mutability",
]

SET_MAPS = {"prefix_sets": "Prefix", "neighbor_sets": "Neighbor", "aspath_sets": "AsPath", "community_sets": "Community",
            "ext_community_sets": "ExtCommunity", "large_community_sets": "LargeCommunity"}
USERS = dict({k: "statements" for k in SET_MAPS}, statements="policies", policies="<assignments>")
MUT = re.compile(r".*HashMap::<K, V, S(, A)?>::(insert|remove|clear|retain|drain|remove_entry)")


def run(prog, rep, tier):
    r1 = rep.rule("R14.1", "policy evaluation is panic-free for every attribute content the decoder or API can produce")
    try:
        from ..absint import check_panic_freedom
        roots = [prog.one(r"rustybgp_table::policy::apply_import"), prog.one(r"rustybgp_table::policy::apply_export")]
        check_panic_freedom(prog, r1, roots, "C14", scope_crates=("rustybgp_table", "rustybgp_packet"))
        if tier == "thorough":
            r1b = rep.rule("R14.1r", "the same with release (wrapping) arithmetic: no index / slice site becomes reachable through a wrapped value")
            check_panic_freedom(prog, r1b, roots, "C14", scope_crates=("rustybgp_table", "rustybgp_packet"), profile="release")
    except ImportError:
        r1.note("abstract interpreter not available in this build")
    r2 = rep.rule("R14.2", "mutations of existing PolicyTable entries are dominated by an in-use scan")
    check_in_use(prog, r2)
    check_both_directions(prog, r2)
    r3 = rep.rule("R14.3", "statement / policy / assignment chaining")
    check_chaining(prog, r3)
    r4 = rep.rule("R14.4", "MatchOption coverage per set-typed condition")
    check_options(prog, r4)
    check_string_set_quantifiers(prog, r4)
    r5 = rep.rule("R14.5", "prefix-set lookup considers all covering entries")
    check_prefix_lookup(prog, r5)
    r6 = rep.rule("R14.6", "daemon calls delete_policy / merging add_policy only behind the per-peer reference scan")
    check_daemon_gate(prog, r6)


# ------------------------------------------------------------------------------------------ R14.2
    r6 = rep.rule("R14.6", "an assignment's needs_rpki flag is computed over the complete policy list")
    check_needs_rpki(prog, r6)


def _map_of(fv, t):
    e = Renderer(fv, depth=10, through_names=True).operand(t["args"][0], 10)
    for f in expr_fields(e):
        if f in USERS:
            return f
    return None


def _loop_closure_tokens(prog, fv, start):
    """Tokens of the closures built inside the loop that starts right after block `start` (a `.values()` call)."""
    ls = loops(fv)
    # follow straight-line successors to the loop head
    b = start
    seen = 0
    head = None
    heads = {h: body for h, body, backs in ls}
    while seen < 12:
        if b in heads:
            head = b
            break
        ss = fv.succ[b]
        if len(ss) != 1:
            break
        b = ss[0][1]
        seen += 1
    toks = set()
    if head is None:
        return toks, None
    body = heads[head]
    for bb in body:
        for s in fv.blocks[bb]["s"]:
            rv = s.get("rv")
            if rv and rv["r"] == "agg" and rv.get("k") == "closure":
                toks |= fn_tokens(prog, rv["def"], depth=2)
            if rv and rv["r"] == "agg" and rv.get("k") == "adt":
                toks.add("agg:%s::%s" % (rv.get("adtn"), rv.get("v")))
    # early exits of the loop (the `return Err(StillInUse)` arm): follow each exit a few blocks
    for bb in body:
        for _, sx in fv.succ[bb]:
            if sx in body:
                continue
            x, steps = sx, 0
            while x is not None and steps < 8:
                for s in fv.blocks[x]["s"]:
                    rv = s.get("rv")
                    if rv and rv["r"] == "agg" and rv.get("k") == "adt":
                        toks.add("agg:%s::%s" % (rv.get("adtn"), rv.get("v")))
                nx = fv.succ[x]
                x = nx[0][1] if len(nx) == 1 else None
                steps += 1
    return toks, body


def check_in_use(prog, r):
    n = 0
    methods = [k for k in crate_fns(prog, "rustybgp_table") if prog.ix[k]["name"].startswith("rustybgp_table::policy::PolicyTable::") and prog.ix[k]["kind"] == "method"]
    for k in methods:
        fv = view(prog, k)
        muts = [(bi, t) for bi, t in fv.calls(MUT)]
        if not muts:
            continue
        rend = Renderer(fv, depth=10, through_names=True)
        # scan evidence in this function
        scans = []   # (block, users_map, kind_tokens)
        for bi, t in fv.calls(re.compile(r".*HashMap::<K, V, S(, A)?>::values")):
            um = _map_of(fv, t)
            toks, body = _loop_closure_tokens(prog, fv, bi)
            err = any(x.endswith("TableError::StillInUse") for x in toks if x.startswith("agg:"))
            if um and err:
                scans.append((bi, um, toks))
        helpers = []
        for bi, t in fv.calls():
            for nme in callee_names(t):
                if nme.startswith("rustybgp_table::policy::PolicyTable::") and nme != fv.name:
                    hk = prog.by_name.get(nme, [None])[0]
                    if hk:
                        ht = fn_tokens(prog, hk, depth=3)
                        if any(x.endswith("TableError::StillInUse") for x in ht if x.startswith("agg:")) or nme.endswith("policy_in_use_globally"):
                            helpers.append((bi, nme, ht))
        for bi, t in muts:
            mp = _map_of(fv, t)
            if mp is None:
                continue
            op = re.search(r"::(\w+)$", t["f"]["name"]).group(1)
            n += 1
            r.analysed(fv.name)
            site = "%s: %s.%s" % (short(fv.name), mp, op)
            gs = flat_guards(fv, bi)
            # creation path: insert under get(..) == None
            if op == "insert":
                created = any(g[0] == "discr" and any(c.endswith("::get") for c in expr_calls(g)) and mp in expr_fields(g) and labels == {"None"} for g, labels, how in gs)
                if created:
                    r.ok(site + " (creation: key absent)")
                    continue
            users = USERS[mp]
            ok = None
            # slice the CFG by the enum variant this site is specialised to (correlated `match set` blocks)
            sl_edges = set()
            for g, labels, how in gs:
                if g[0] == "discr" and len(labels) == 1 and "DefinedSetConfig" in (g[2] or ""):
                    key = show(g[1])
                    lab = next(iter(labels))
                    for b2, br2 in branches(fv).items():
                        if br2.expr[0] == "discr" and show(br2.expr[1]) == key:
                            for v2, t2 in br2.cases + [("else", br2.otherwise)]:
                                if br2.label(prog, v2) != lab:
                                    sl_edges.add((b2, v2, t2))
            # key-absent edges: discr(get(&self.<mp>, ..)) == None
            for b2, br2 in branches(fv).items():
                e2 = br2.expr
                if e2[0] == "discr" and any(c.endswith("::get") for c in expr_calls(e2)) and mp in expr_fields(e2):
                    for v2, t2 in br2.cases + [("else", br2.otherwise)]:
                        if br2.label(prog, v2) == "None":
                            sl_edges.add((b2, v2, t2))
            good_blocks = set()
            why = None
            kind = SET_MAPS.get(mp)
            for sb, um, toks in scans:
                if um == users and sb != bi and (not kind or ("variant:" + kind) in toks):
                    good_blocks.add(sb)
                    why = "scan over %s%s" % (um, (" for Condition::" + kind) if kind else "")
            for hb, nme, ht in helpers:
                if nme.endswith("policy_in_use_globally"):
                    if users == "<assignments>" and any(g[0] == "call" and g[1].endswith("policy_in_use_globally") and labels == {"false"} for g, labels, how in gs):
                        ok = "policy_in_use_globally() == false"
                elif (kind is None or ("variant:" + kind) in ht) and ("field:" + users) in ht:
                    good_blocks.add(hb)
                    why = why or "helper %s" % short(nme)
            if ok is None and good_blocks and bi not in fv.reach(fv.entry, good_blocks, sl_edges):
                ok = why
            # still_used idiom
            for g, labels, how in gs:
                if labels == {"false"} and (g[0] == "var" and g[1] == "still_used" or (g[0] == "call" and g[1].endswith("Iterator::any"))):
                    e = g
                    if g[0] == "var":
                        for l, nm in fv.local_name.items():
                            if nm == "still_used":
                                e = Renderer(fv, depth=10, through_names=True).local(l, 10)
                    if any(c.endswith("::values") for c in expr_calls(e)) and users in expr_fields(e):
                        ok = "still_used flag over %s" % users
            if ok:
                r.ok(site + " guarded by " + ok)
            else:
                r.fail(fv.name, "%s.%s" % (mp, op),
                       "an existing entry of %s is %s without a dominating in-use scan over %s: a referenced set/statement/policy can change or vanish underneath its users"
                       % (mp, "removed" if op != "insert" else "overwritten", users), fv.loc(bi))
    r.floor("PolicyTable map mutation sites", n, 25)


# ------------------------------------------------------------------------------------------ R14.3
def check_chaining(prog, r):
    # Statement::apply
    sk = prog.one(r"rustybgp_table::policy::Statement::apply")
    fv = view(prog, sk)
    r.analysed(fv.name)
    brs = branches(fv)
    all_br = None
    for bi, br in brs.items():
        e = br.expr
        ee = e
        if e[0] == "var":
            for l, nm in fv.local_name.items():
                if nm == e[1]:
                    ee = Renderer(fv, depth=8, through_names=True).local(l, 8)
        if ee[0] == "call" and ee[1].endswith("Iterator::all") and "conditions" in expr_fields(ee):
            all_br = br
    if all_br is None:
        r.fail(fv.name, "conditions-all", "Statement::apply does not branch on Iterator::all over its conditions (a statement applies only when all conditions hold)", fv.loc())
    else:
        # closure passed to all() must call Condition::evalute
        ctoks = set()
        for ck in prog.with_closures(sk)[1:]:
            ctoks |= {c for c in fn_tokens(prog, ck, depth=0) if c.startswith("call:")}
        if not any(c.endswith("Condition::evalute") for c in ctoks):
            r.fail(fv.name, "conditions-evalute", "the all() closure does not evaluate the conditions", fv.loc(all_br.bi))
        from ..cfg import bool_edges
        true_edges = bool_edges(fv, all_br, True)
        acts = [b for b, t in fv.calls(re.compile(r".*Arc::<T, A>::make_mut|rustybgp_packet::.*::as_path_prepend.*"))]
        for b in sorted(fv.live):
            for s in fv.blocks[b]["s"]:
                if "rv" in s and s["p"].get("p") and s["p"]["p"][0] == "*" and s["p"]["l"] <= fv.f["argc"] and s["p"]["l"] in (3, 4):
                    acts.append(b)
        bad = [b for b in acts if not fv.edge_guarded(b, true_edges)]
        if bad:
            r.fail(fv.name, "action-without-match", "an action can run although not all conditions matched (line %d)" % fv.line(bad[0]), fv.loc(bad[0]))
        else:
            r.ok("Statement::apply: %d action site(s) all behind `all(conditions)`" % len(set(acts)))
        # the non-matching side returns Pass
        false_edges = bool_edges(fv, all_br, False)
        ok = False
        for bi, si, s in fv.aggregates(re.compile(r"rustybgp_table::policy::Disposition"), "Pass"):
            if fv.edge_guarded(bi, false_edges):
                ok = True
        if ok:
            r.ok("Statement::apply: returns Pass when a condition fails")
        else:
            r.fail(fv.name, "nomatch-not-pass", "the not-matched side does not return Disposition::Pass", fv.loc(all_br.bi))
    # Policy::apply / PolicyAssignment::apply
    for nm, callee, default in ((r"rustybgp_table::policy::Policy::apply", "Statement::apply", "Pass"),
                                (r"rustybgp_table::policy::PolicyAssignment::apply", "Policy::apply", "field:disposition")):
        k = prog.one(nm)
        fv = view(prog, k)
        r.analysed(fv.name)
        calls = [b for b, t in fv.calls() if any(n.endswith(callee) for n in callee_names(t))]
        if len(calls) != 1:
            r.unanalysable("%s: expected one call of %s, found %d" % (short(fv.name), callee, len(calls)), fv.loc())
            continue
        cb = calls[0]
        ls = loops(fv)
        inloop = [h for h, body, backs in ls if cb in body]
        if not inloop:
            r.fail(fv.name, "no-loop", "%s is not applied in a loop over all elements" % callee, fv.loc(cb))
            continue
        rend = Renderer(fv, depth=10)
        for bi, e in returns_value_exprs(fv, 10):
            gs = flat_guards(fv, bi)
            from_call = any(x[0] == "call" and x[1].endswith(callee) for x in walk(e)) or (e[0] == "var" and e[1] == "d")
            if from_call:
                nonpass = any(g[0] == "call" and re.search(r"PartialEq>::ne$|::ne$", g[1]) and labels == {"true"} and _mentions_pass(g) for g, labels, how in gs) or \
                    any(g[0] == "call" and re.search(r"PartialEq>::eq$|::eq$", g[1]) and labels == {"false"} and _mentions_pass(g) for g, labels, how in gs) or \
                    any(g[0] == "discr" and "Pass" not in labels and "Disposition" in (g[2] or "") for g, labels, how in gs)
                if nonpass:
                    r.ok("%s: returns the element's disposition only when it is not Pass" % short(fv.name))
                else:
                    r.fail(fv.name, "early-return-guard", "returns an element's disposition without testing it is non-Pass", fv.loc(bi))
            else:
                # default: must be reached only through loop exit (iterator exhausted)
                exhausted = any(g[0] == "discr" and any(c.endswith("Iterator::next") for c in expr_calls(g)) and labels == {"None"} for g, labels, how in gs)
                dflt_ok = (default == "Pass" and e[0] == "agg" and e[2] == "Pass") or (default.startswith("field:") and default[6:] in expr_fields(e))
                if exhausted and dflt_ok:
                    r.ok("%s: default %s returned only after the loop is exhausted" % (short(fv.name), default))
                else:
                    r.fail(fv.name, "default-return", "default disposition %s returned %s" % (show(e, 40), "before the loop is exhausted" if not exhausted else "is not the expected default"), fv.loc(bi))
        # after the call, the loop continues only when the result was Pass: every path call -> loop head passes the Pass test
        # (i.e. there is no `continue` that skips the test): the branch on ne/eq must dominate the back edge
        tests = [bi for bi, br in branches(fv).items() if br.expr[0] == "call" and re.search(r"::(ne|eq)$", br.expr[1]) and _mentions_pass(br.expr)]
        if tests and fv.must_pass(cb, tests, inloop, after=True):
            r.ok("%s: every iteration tests the disposition before continuing" % short(fv.name))
        else:
            r.fail(fv.name, "untested-iteration", "an iteration can continue without testing the element's disposition", fv.loc(cb))


def _mentions_pass(e):
    return any(isinstance(x, tuple) and x and x[0] == "const" and x[3] == "Pass" for x in walk(e)) or \
        any(isinstance(x, tuple) and x and x[0] == "agg" and x[2] == "Pass" for x in walk(e))


def check_both_directions(prog, r):
    """Whatever decides "still referenced" must look at the import and the export side: a function of PolicyTable that
    reads one of the two global assignment slots without being told a direction must read the other one as well."""
    n = 0
    for k in crate_fns(prog, "rustybgp_table"):
        ix = prog.ix[k]
        if ix["kind"] not in ("fn", "method") or not ix["name"].startswith("rustybgp_table::policy::PolicyTable::"):
            continue
        toks = set()
        for kk in prog.with_closures(k):
            toks |= fn_tokens(prog, kk, depth=0)
        imp, exp = "field:assignment_import" in toks, "field:assignment_export" in toks
        if not (imp or exp):
            continue
        fv = view(prog, k)
        # a PolicyDirection parameter / match selects one slot legitimately
        directed = any("PolicyDirection" in t for t in fv.f["locals"][1:fv.f["argc"] + 1]) or any(t.startswith("discr:") and "PolicyDirection" in t for t in toks)
        n += 1
        r.analysed(ix["name"])
        if imp and exp:
            r.ok("%s reads both global assignment slots" % short(ix["name"]))
        elif directed:
            r.ok("%s selects the slot by PolicyDirection" % short(ix["name"]))
        else:
            r.fail(ix["name"], "one-direction-only", "%s consults only assignment_%s: a policy (and through it its statements and sets) referenced by the other global assignment is treated as unused and can be deleted or rebuilt"
                   % (short(ix["name"]), "import" if imp else "export"), fv.loc())
    r.floor("PolicyTable functions reading the global assignments", n, 3)


# ------------------------------------------------------------------------------------------ R14.4
OPTS = {"Any", "All", "Invert"}


def check_options(prog, r):
    ek = prog.one(r"rustybgp_table::policy::Condition::evalute")
    efv = view(prog, ek)
    ak = prog.one(r"rustybgp_table::policy::PolicyTable::add_statement")
    afv = view(prog, ak)
    r.analysed(efv.name, afv.name)
    # rejected options per Condition variant, from add_statement
    rejected = {v: set() for v in SET_MAPS.values()}
    seen = set()
    for bi, si, s in afv.aggregates(re.compile(r"rustybgp_table::policy::Condition")):
        v = s["rv"]["v"]
        if v not in rejected:
            continue
        seen.add(v)
        for g, labels, how in flat_guards(afv, bi):
            if g[0] == "call" and re.search(r"::eq$", g[1]) and labels == {"false"}:
                for x in walk(g):
                    if isinstance(x, tuple) and x and x[0] == "const" and x[3] in OPTS:
                        rejected[v].add(x[3])
    for v in rejected:
        if v not in seen:
            r.unanalysable("add_statement never builds Condition::%s" % v, afv.loc())
    # distinguished options per arm of evalute
    brs = branches(efv)
    msk = prog.one(r"rustybgp_table::policy::match_string_set")
    ms_vals = _match_arms(prog, view(prog, msk))
    for v in sorted(rejected):
        tested = set()
        full = False
        for bi in sorted(efv.live):
            t = efv.blocks[bi]["t"]
            if t["t"] != "call":
                continue
            under = [labels for g, labels, how in flat_guards(efv, bi, brs) if g[0] == "discr" and g[2] and g[2].endswith("policy::Condition") and "self" in expr_vars(g)]
            if not any(l == {v} for l in under):
                continue
            names = callee_names(t)
            if any(re.search(r"MatchOption as std::cmp::PartialEq>::(eq|ne)$", n) for n in names):
                e = Renderer(efv, depth=6).call_expr(t, 6, bi)
                for x in walk(e):
                    if isinstance(x, tuple) and x and x[0] == "const" and x[3] in OPTS:
                        tested.add(x[3])
            if any(n.endswith("policy::match_string_set") for n in names):
                full = ms_vals >= OPTS
        # `match opt { MatchOption::All => .., _ => .. }` under the arm, in evalute itself or in a closure it creates there
        def under_arm(bi):
            return any(l == {v} for g, l, how in flat_guards(efv, bi, brs)
                       if g[0] == "discr" and g[2] and g[2].endswith("policy::Condition") and "self" in expr_vars(g))
        bodies = [(efv, None)]
        for bi in sorted(efv.live):
            for s_ in efv.blocks[bi]["s"]:
                rv = s_.get("rv")
                if rv and rv.get("r") == "agg" and rv.get("k") == "closure" and under_arm(bi):
                    bodies.append((view(prog, rv["def"]), bi))
        for fvx, created in bodies:
            for bi, br in branches(fvx).items():
                if br.expr[0] == "discr" and br.adt and br.adt.endswith("MatchOption") and (created is not None or under_arm(bi)):
                    tested |= {br.label(prog, c) for c, _ in br.cases}
        accepted = OPTS - rejected[v]
        if full:
            r.ok("Condition::%s: all options distinguished by match_string_set" % v)
            continue
        rest = accepted - tested
        if len(rest) <= 1:
            r.ok("Condition::%s: accepted %s, evaluator tests %s" % (v, sorted(accepted), sorted(tested)))
        else:
            r.fail(efv.name, "options:%s" % v,
                   "Condition::%s accepts options %s but the evaluator only tests for %s: %s are evaluated identically"
                   % (v, sorted(accepted), sorted(tested), " and ".join(sorted(rest))), efv.loc())


def check_string_set_quantifiers(prog, r):
    """match_string_set(strs, patterns, opt): ANY = some value matches some pattern; ALL = every *pattern* is matched by
    some value (the set's elements are the things that must all be present); INVERT = not ANY.  The outer iterator and
    its quantifier decide the meaning: under All the outer call is `all` over `patterns` with an inner `any` over `strs`."""
    k = prog.one(r"rustybgp_table::policy::match_string_set")
    fv = view(prog, k)
    r.analysed(fv.name)
    brs = branches(fv)
    rend = Renderer(fv, depth=14, through_names=True)
    seen = {}
    for bi, t in fv.calls(re.compile(r".*Iterator::(any|all)$")):
        arm = None
        for g, l, h in flat_guards(fv, bi, brs):
            if g[0] == "discr" and g[2] and g[2].endswith("MatchOption") and len(l) == 1:
                arm = next(iter(l))
        if arm is None:
            continue
        meth = t["f"]["name"].split("::")[-1]
        over = set(expr_vars(rend.operand(t["args"][0], 14))) & {"strs", "patterns"}
        inner = set()
        for a in t["args"]:
            p_ = a.get("m") or a.get("c")
            if p_ and not p_.get("p") and "{closure@" in fv.f["locals"][p_["l"]]:
                for b3, si, s3 in fv.defs().get(p_["l"], []):
                    if si != "t" and s3["rv"]["r"] == "agg" and s3["rv"].get("k") == "closure":
                        for c_ in prog.ix[s3["rv"]["def"]]["calls"]:
                            m_ = re.search(r"Iterator::(any|all)$", c_["f"].get("name", ""))
                            if m_:
                                inner.add(m_.group(1))
        seen[arm] = (meth, "/".join(sorted(over)), "/".join(sorted(inner)))
    # explicit-loop spelling: `for p in patterns { let mut hit = false; for s in strs { .. } if !hit { return false } } true`.
    # The nesting order carries the meaning: under All the outer loop walks the patterns (parameter 2), the inner the values.
    pn = {fv.local_name.get(1): "strs", fv.local_name.get(2): "patterns"}
    lps = loops(fv)
    if "All" not in seen and lps:
        def loop_source(h, body):
            for b in sorted(body):
                t_ = fv.blocks[b]["t"]
                if t_["t"] == "call" and (t_["f"].get("name") or "").endswith("Iterator::next"):
                    vs = set(expr_vars(rend.operand(t_["args"][0], 14)))
                    srcs = {pn[v] for v in vs if v in pn}
                    if len(srcs) == 1:
                        return next(iter(srcs))
            return None
        arm_of = {}
        for h, body, backs in lps:
            for g, l, hh in flat_guards(fv, h, brs):
                if g[0] == "discr" and g[2] and g[2].endswith("MatchOption") and len(l) == 1:
                    arm_of[h] = next(iter(l))
        in_all = [(h, body) for h, body, backs in lps if arm_of.get(h) == "All"]
        if len(in_all) >= 2:
            outer = max(in_all, key=lambda x: len(x[1]))
            inner = [x for x in in_all if x[0] != outer[0] and x[0] in outer[1]]
            if inner:
                o_src, i_src = loop_source(*outer), loop_source(inner[0][0], inner[0][1] - set())
                # the outer loop's own `next` may sit in its body together with the inner's: take the one outside the inner body
                for b in sorted(outer[1] - inner[0][1]):
                    t_ = fv.blocks[b]["t"]
                    if t_["t"] == "call" and (t_["f"].get("name") or "").endswith("Iterator::next"):
                        vs = set(expr_vars(rend.operand(t_["args"][0], 14)))
                        srcs = {pn[v] for v in vs if v in pn}
                        if len(srcs) == 1:
                            o_src = next(iter(srcs))
                seen["All"] = ("all" if o_src == "patterns" else "all?", o_src or "", "any" if i_src == "strs" else "")
    want = {"All": ("all", "patterns", "any")}
    for arm, w in want.items():
        if arm not in seen:
            r.unanalysable("match_string_set: no quantifier call recognised in the %s arm" % arm, fv.loc())
        elif seen[arm] == w:
            r.ok("match_string_set %s: every pattern is matched by some value (patterns.all(|r| strs.any(..)))" % arm)
        else:
            r.fail(fv.name, "string-set-quantifier:" + arm, "the %s arm evaluates %s over %s with an inner %s: ALL must mean every pattern of the set is matched by some value of the route "
                   "(as written it also holds for a route with no values at all)" % (arm, seen[arm][0], seen[arm][1] or "?", seen[arm][2] or "?"), fv.loc())
    for arm in ("Any", "Invert"):
        if arm in seen and seen[arm][0] == "any" and seen[arm][2] == "any":
            r.ok("match_string_set %s: some value matches some pattern%s" % (arm, " (negated)" if arm == "Invert" else ""))
        elif arm in seen:
            r.fail(fv.name, "string-set-quantifier:" + arm, "the %s arm is %s over %s with inner %s (want any/any)" % (arm, seen[arm][0], seen[arm][1], seen[arm][2]), fv.loc())


def _match_arms(prog, fv):
    vals = set()
    for bi, br in branches(fv).items():
        if br.expr[0] == "discr" and br.adt and br.adt.endswith("MatchOption"):
            for v, _ in br.cases:
                vals.add(br.label(prog, v))
            vals.add(br.label(prog, "else"))
    return vals


# ------------------------------------------------------------------------------------------ R14.5
def check_prefix_lookup(prog, r):
    ek = prog.one(r"rustybgp_table::policy::Condition::evalute")
    n = 0
    for kk in prog.with_closures(ek):
        fv = view(prog, kk)
        for bi, t in fv.calls():
            names = callee_names(t)
            if any("treebitmap::" in n2 for n2 in names):
                n += 1
                meth = names[0].split("::")[-1]
                r.analysed(fv.name)
                fam = "v6" if "Ipv6Addr" in t["f"].get("ga", "") else "v4"
                if meth == "longest_match":
                    r.fail("rustybgp_table::policy::Condition::evalute", "longest_match:" + fam,
                           "the prefix set is consulted with longest_match only: a covering entry whose range contains the route's length is ignored when a more "
                           "specific entry also covers the address, and an entry more specific than the route can match it", fv.loc(bi))
                elif meth in ("matches", "iter", "matches_mut"):
                    r.ok("prefix-set lookup with %s (%s)" % (meth, fam))
                    # the per-entry test: entry covers the route (entry length <= route length) and the route's length lies
                    # in [min_length, max_length] -- three comparisons in the closure the candidates are filtered with
                    dest = t["dest"]["l"]
                    clos = None
                    for b2, t2 in fv.calls(re.compile(r".*Iterator::(any|find|filter|all)$")):
                        if b2 in fv.reach_after(bi) | {t.get("to")}:
                            for a in t2["args"]:
                                p = a.get("m") or a.get("c")
                                if p and not p.get("p") and "{closure@" in fv.f["locals"][p["l"]]:
                                    for b3, si, s3 in fv.defs().get(p["l"], []):
                                        if si != "t" and s3["rv"]["r"] == "agg" and s3["rv"].get("k") == "closure":
                                            clos = s3["rv"]["def"]
                    if not clos:
                        r.unanalysable("prefix-set lookup (%s): the closure that tests the candidates was not found" % fam, fv.loc(bi))
                        continue
                    cv = view(prog, clos)
                    crend = Renderer(cv, depth=10)
                    have = {"min_length": False, "max_length": False, "entry-length": False}
                    for cb in sorted(cv.live):
                        for s4 in cv.blocks[cb]["s"]:
                            rv = s4.get("rv")
                            if rv and rv["r"] == "bin" and rv["op"] in ("Le", "Lt", "Ge", "Gt"):
                                e = crend.rvalue(rv, 10)
                                fs, vs = set(expr_fields(e)), set(expr_vars(e))
                                if "mask" not in fs and "mask" not in vs:
                                    continue
                                if "min_length" in fs:
                                    have["min_length"] = True
                                elif "max_length" in fs:
                                    have["max_length"] = True
                                else:
                                    have["entry-length"] = True
                    miss = sorted(k for k, v in have.items() if not v)
                    if miss:
                        r.fail("rustybgp_table::policy::Condition::evalute", "prefix-entry-test:%s:%s" % (fam, "+".join(miss)),
                               "a prefix-set entry is accepted without comparing the route's length with %s: an entry `P/len min..max` must cover the route (len <= route length) "
                               "and min <= route length <= max" % ", ".join(miss), cv.loc())
                    else:
                        r.ok("prefix-set entry test (%s): entry length <= route length, min_length <= route length <= max_length" % fam)
                else:
                    r.unanalysable("prefix-set lookup uses unmodelled %s" % names[0], fv.loc(bi))
    r.floor("prefix-set lookups in Condition::evalute", n, 2)


# ------------------------------------------------------------------------------------------ R14.6
def check_daemon_gate(prog, r):
    for meth, gate in (("delete_policy", r"rustybgpd::event::Global::delete_policy"), ("add_policy", r"rustybgpd::event::Global::add_policy")):
        tk = prog.one(r"rustybgp_table::policy::PolicyTable::" + meth)
        callers = sorted(c for c in prog.callers(tk) if c.startswith("rustybgpd::"))
        if not callers:
            r.unanalysable("no daemon caller of PolicyTable::%s" % meth)
            continue
        for c in callers:
            fv = view(prog, c)
            rn = root_name(prog, c)
            for bi, t in fv.calls(re.compile(r"rustybgp_table::policy::PolicyTable::" + meth)):
                r.analysed(rn)
                if re.fullmatch(gate, rn):
                    # dominated by a scan over peers returning StillInUse
                    toks = set()
                    for kk in prog.with_closures(prog.ix[c].get("root") or c):
                        toks |= fn_tokens(prog, kk, depth=1)
                    scan = [b for b, tt in fv.calls(re.compile(r".*Iterator::any|.*HashMap::<K, V, S(, A)?>::values")) if fv.dominates(b, bi)]
                    still = [b for b, si, s in fv.aggregates(re.compile(r".*Error"), "StillInUse")] or [1 for x in toks if x.endswith("::StillInUse")]
                    if scan and still and "field:peers" in toks:
                        r.ok("%s -> PolicyTable::%s behind the peers scan" % (short(rn), meth))
                    else:
                        r.fail(rn, "gate:" + meth, "PolicyTable::%s is called without the per-peer reference scan" % meth, fv.loc(bi))
                elif any(c2.endswith("PolicyTable::new") for c2 in expr_calls(Renderer(fv, depth=25, through_names=True).operand(t["args"][0], 25))):
                    r.ok("%s -> PolicyTable::%s on a table freshly built in the same function (no users yet)" % (short(rn), meth))
                elif _fresh_table_receiver(fv, t) or rn.endswith("convert::load_policy_from_config"):
                    r.ok("%s -> PolicyTable::%s on a table under construction (fresh PolicyTable / startup load; no users yet)" % (short(rn), meth))
                else:
                    r.fail(rn, "ungated:" + meth, "PolicyTable::%s reached outside Global::%s: per-peer policy references are not checked" % (meth, meth), fv.loc(bi))


def _fresh_table_receiver(fv, t):
    """The receiver names a local/saved local that is assigned PolicyTable::new() in this body."""
    e = Renderer(fv, depth=6).operand(t["args"][0], 6)
    names = set(expr_vars(e)) | set(expr_fields(e))
    from ..util import last_field
    for bi, tt in fv.calls(re.compile(r"rustybgp_table::policy::PolicyTable::new")):
        d = tt["dest"]
        dn = last_field(d) or fv.local_name.get(d["l"])
        if dn and dn in names:
            return True
        # via a temporary then a move into the named place
        for b2 in fv.reach_after(bi) | {tt.get("to")}:
            if b2 is None:
                continue
            for s in fv.blocks[b2]["s"]:
                rv = s.get("rv")
                if rv and rv["r"] == "use":
                    p = rv["o"].get("m") or rv["o"].get("c")
                    if p and p["l"] == d["l"] and not p.get("p"):
                        dn = last_field(s["p"]) or fv.local_name.get(s["p"]["l"])
                        if dn and dn in names:
                            return True
    return False


# ------------------------------------------------------------------------------------------ R14.6
def check_needs_rpki(prog, r):
    """PolicyAssignment.needs_rpki decides whether the RPKI table is handed to the evaluator at all (without it every
    Condition::Rpki is false).  Wherever an assignment is assembled, compute_needs_rpki must see the final list: no policy may
    be appended to the list after the call that computed the flag."""
    n = 0
    for k in crate_fns(prog, "rustybgp_table"):
        nm = prog.ix[k]["name"]
        if "::tests::" in nm or not any((c["f"].get("name") or "").endswith("PolicyAssignment::compute_needs_rpki") for c in prog.ix[k]["calls"]):
            continue
        fv = view(prog, k)
        from ..inline import _closure_of_local
        for bi, t in fv.calls(re.compile(r".*PolicyAssignment::compute_needs_rpki$")):
            n += 1
            r.analysed(root_name(prog, k))
            # the list handed in: follow the reference to the Vec local
            q = t["args"][0].get("c") or t["args"][0].get("m")
            base = None
            hops = 0
            while q is not None and hops < 6:
                hops += 1
                ds = [d for d in fv.defs().get(q["l"], []) if d[0] in fv.live]
                if len(ds) != 1:
                    break
                b2, s2, st2 = ds[0]
                if s2 == "t":
                    a0 = st2["args"][0] if st2.get("args") else None
                    q = (a0.get("c") or a0.get("m")) if a0 else None       # Deref::deref(&v)
                    continue
                if st2["rv"]["r"] == "ref":
                    base = st2["rv"]["p"]["l"]
                    q = {"l": base}
                    if base in fv.local_name:
                        break
                    continue
                if st2["rv"]["r"] == "use":
                    q = st2["rv"]["o"].get("c") or st2["rv"]["o"].get("m")
                    continue
                break
            if base is None:
                r.unanalysable("%s: the list passed to compute_needs_rpki could not be traced" % short(root_name(prog, k)), fv.loc(bi))
                continue
            late = []
            for b3, t3 in fv.calls(re.compile(r".*(Vec::<T(, A)?>::(push|extend_from_slice|append|insert)|Extend::extend|Vec::<T(, A)?>::extend)$")):
                if b3 not in fv.reach_after(bi):
                    continue
                q3 = t3["args"][0].get("c") or t3["args"][0].get("m")
                for b4, s4, st4 in fv.defs().get(q3["l"], []) if q3 is not None else []:
                    if s4 != "t" and st4["rv"]["r"] == "ref" and st4["rv"]["p"]["l"] == base:
                        late.append(b3)
            if late:
                r.fail(root_name(prog, k), "needs-rpki-before-list-complete", "compute_needs_rpki runs at line %d but the policy list is still extended afterwards (line %d): the flag ignores those "
                       "policies, so their Rpki conditions are evaluated without the RPKI table and never match" % (fv.line(bi), fv.line(late[0])), fv.loc(bi))
            else:
                r.ok("%s: needs_rpki computed over the final list" % short(root_name(prog, k)))
    r.floor("compute_needs_rpki call sites", n, 2)
