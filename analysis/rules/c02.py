"""C02 — selected/ranked paths are maximal under the stated decision order (structural clauses)."""
import re

from ..cfg import FnView, Renderer, walk, show, strip, branches
from ..facts import callee_names, short
from ..sig import fn_tokens
from ..util import expr_vars

EXPLANATION = (
    "Static rules over the MIR of table/src/lib.rs and packet/src/bgp.rs: R02.1 extracts the ordered list of "
    "(key, direction) steps from <RibEntry as Ord>::cmp (then_with chain / tuple key idioms) and compares it with the "
    "decision order in the property text; R02.2 checks every step compares Ord primitives with Ord::cmp (total preorder by "
    "construction); R02.3 compares the ECMP key tuple with the comparator minus its last step; R02.4 checks every ordering "
    "operation on Destination.entry selects the comparator the same way (EVPN type-2 aware) and selects the minimum (Less = "
    "better); R02.5 checks every writer of the stale flags is followed by a re-sort; R02.6 checks ranked lists handed out "
    "derive from Destination::unfiltered_iter; R02.7/8 check the AS-hop counter's width and per-segment increments. "
    "Decides these necessary structural conditions, not the value-level maximality over all histories.")
ASSUMPTIONS = [
    "Ord::cmp on u8/u32/usize/bool is a total order (std)",
    "slice::sort_unstable/partition_point/Iterator::min are correct for a total preorder (std)",
    "accessor concepts are recognised by the attribute-code constants / Source fields they read (analysis/rules/c02.py CONCEPTS)",
]

# Decision order from the property statement: (concept, direction) — 'asc' = smaller key is better.
SPEC_ORDER = [
    ("llgr_stale", "asc"),     # not LLGR-stale (false) first            RFC 9494
    ("local_pref", "desc"),    # higher LOCAL_PREF first
    ("as_path_len", "asc"),    # shorter AS_PATH
    ("origin", "asc"),         # lower ORIGIN
    ("ebgp", "desc"),          # eBGP (true) first
    ("stale", "asc"),          # not GR-stale first
    ("cluster_len", "asc"),    # shorter CLUSTER_LIST
    ("originator", "asc"),     # lower ORIGINATOR_ID / router-id
]

# concept -> tokens (any) that identify an accessor, tokens that must be absent
CONCEPTS = [
    ("mac_mobility", [r"call:rustybgp_packet::evpn::mac_mobility"], []),
    ("llgr_stale", [r"field:llgr_stale", r"call:.*has_llgr_stale_community"], []),
    ("local_pref", [r"const:.*Attribute::LOCAL_PREF"], []),
    ("as_path_len", [r"call:.*Attribute::as_path_length"], []),
    ("origin", [r"const:.*Attribute::ORIGIN$"], []),
    ("ebgp", [r"call:.*PeerRole::prefers_over_ibgp", r"discr:rustybgp_table::PeerRole"], []),
    ("stale", [r"field:stale"], [r"field:llgr_stale"]),
    ("cluster_len", [r"const:.*Attribute::CLUSTER_LIST"], []),
    ("originator", [r"const:.*Attribute::ORIGINATOR_ID", r"field:router_id"], []),
]

PRIM_ORD = re.compile(r"\[(u8|u16|u32|u64|usize|i8|i16|i32|i64|isize|bool)\]")


def classify_tokens(toks):
    hits = []
    for name, anyof, noneof in CONCEPTS:
        if any(re.fullmatch(p, t) for p in anyof for t in toks) and not any(re.fullmatch(p, t) for p in noneof for t in toks):
            hits.append(name)
    return hits


def expr_tokens(prog, e):
    """Tokens of an operand expression: tokens of every local callee in it plus fields it reads directly."""
    toks = set()
    for x in walk(e):
        if not isinstance(x, tuple) or not x:
            continue
        if x[0] == "call":
            toks.add("call:" + x[1])
            for name in [x[1]]:
                for k in prog.by_name.get(name, []):
                    toks |= fn_tokens(prog, k, depth=3)
        elif x[0] == "field":
            toks.add("field:" + x[2])
        elif x[0] == "const" and x[3]:
            toks.add("const:" + str(x[3]))
    return toks


class SideResolver:
    """Which parameter (1 = self/a, 2 = other/b) an expression is derived from."""

    def __init__(self, prog, fv, parent=None):
        self.prog, self.fv, self.parent = prog, fv, parent
        self.rend = Renderer(fv, depth=30, through_names=True)

    def var_roots(self, name):
        fv = self.fv
        for l, n in fv.local_name.items():
            if n == name:
                if 1 <= l <= fv.f["argc"] and not (fv.f["kind"] in ("closure",) and l == 1):
                    return {l}
                e = self.rend.local(l, 30)
                if e == ("var", name):
                    # assigned in several places (an expanded Option::map, a `let x = if ..`): every definition counts
                    if getattr(self, "_busy", None) is None:
                        self._busy = set()
                    if l in self._busy:
                        return set()
                    self._busy.add(l)
                    out = set()
                    for bi, si, st in fv.defs().get(l, []):
                        if bi not in fv.live:
                            continue
                        de = self.rend.call_expr(st, 30, bi) if si == "t" else self.rend.rvalue(st["rv"], 30)
                        out |= self.roots(de)
                    self._busy.discard(l)
                    return out
                return self.roots(e)
        # captured variable of a closure: resolve in the parent
        if self.parent is not None:
            return self.parent.var_roots(name)
        return set()

    def roots(self, e):
        out = set()
        for x in walk(e):
            if isinstance(x, tuple) and x and x[0] == "var":
                n = x[1]
                if n.startswith("arg") and n[3:].isdigit():
                    out.add(int(n[3:]))
                else:
                    out |= self.var_roots(n)
        return out


def _def_tokens(prog, side, e, depth=3):
    from ..util import var_def_expr
    out = set()
    if depth <= 0:
        return out
    for v in set(expr_vars(e)):
        sd = side
        while sd is not None:
            d = var_def_expr(sd.fv, v, depth=30)
            if d is not None and d != ("var", v):
                out |= expr_tokens(prog, d) | _def_tokens(prog, sd, d, depth - 1)
                break
            sd = sd.parent
    return out


def parse_chain(prog, fv, e, side, flip=False, out=None, problems=None):
    """Parse an Ordering-valued expression into steps [(a_expr, b_expr, flipped, fv, side, ga)]."""
    out = [] if out is None else out
    problems = [] if problems is None else problems
    e0 = e
    if not isinstance(e, tuple):
        problems.append("non-expression in chain")
        return out, problems
    if e[0] == "call":
        name = e[1]
        args = e[2]
        if name.endswith("Ordering::then_with"):
            parse_chain(prog, fv, args[0], side, flip, out, problems)
            clo = args[1]
            if clo[0] == "agg" and clo[1] == "closure":
                ck = clo[2]
                cfv = FnView(prog, ck)
                crend = Renderer(cfv, depth=30)
                cside = SideResolver(prog, cfv, side)
                ce = crend.local(0, 30)
                parse_chain(prog, cfv, ce, cside, flip, out, problems)
            else:
                problems.append("then_with argument is not a closure literal: " + show(clo))
            return out, problems
        if name.endswith("Ordering::then"):
            parse_chain(prog, fv, args[0], side, flip, out, problems)
            parse_chain(prog, fv, args[1], side, flip, out, problems)
            return out, problems
        if name.endswith("Ordering::reverse"):
            return parse_chain(prog, fv, args[0], side, not flip, out, problems)
        if re.search(r"(^|::)(Ord|PartialOrd)::(cmp|partial_cmp)$", name) or re.search(r"as std::cmp::(Ord|PartialOrd)>::(cmp|partial_cmp)$", name) \
                or re.search(r"impl std::cmp::Ord for .*>::cmp$", name):
            a, b = strip(args[0]), strip(args[1])
            if a[0] == "agg" and a[1] == "tuple" and b[0] == "agg" and b[1] == "tuple" and len(a[3]) == len(b[3]):
                for x, y in zip(a[3], b[3]):
                    out.append((strip(x), strip(y), flip, fv, side, e[4] + " " + e[5]))
            else:
                out.append((a, b, flip, fv, side, e[4] + " " + e[5]))
            return out, problems
    problems.append("unrecognised comparator shape: " + show(e0, 120))
    return out, problems


def parse_early_returns(prog, fv, side, rdefs):
    """The guard-clause spelling of a lexicographic comparator:
        let by_x = a.x.cmp(&b.x); if by_x.is_ne() { return by_x; } ... last_step
    Every definition of the return value but the last must sit under `that very ordering is not Equal`; the definitions are
    taken in control-flow order and each is parsed like a chain element."""
    from ..cfg import branches, flat_guards, guards_of
    rend = Renderer(fv, depth=40, through_names=True)
    brs = branches(fv, rend)
    items = []
    problems = []
    for bi, si, st in rdefs:
        e = rend.call_expr(st, 40, bi) if si == "t" else rend.rvalue(st["rv"], 40)
        items.append((bi, e))
    # control-flow order: along the chain every later definition sits behind strictly more decided branches
    def depth_of(x):
        return (sum(1 for br, l in guards_of(fv, x[0], brs)), sum(1 for b in fv.live if fv.dominates(b, x[0])))
    def own_guard(x):
        return any(g[0] == "call" and re.search(r"Ordering::is_(ne|eq)$", g[1]) and show(strip(g[2][0]), 400) == show(strip(x[1]), 400) for g, l, h in flat_guards(fv, x[0], brs))
    items.sort(key=lambda x: (not own_guard(x)) * 10 ** 6 + depth_of(x)[0] * 1000 + depth_of(x)[1])
    out = []
    for i, (bi, e) in enumerate(items):
        n0 = len(out)
        parse_chain(prog, fv, e, side, False, out, problems)
        if i == len(items) - 1:
            continue
        # guard: the returned ordering itself was tested to be non-Equal on the way here
        ok = False
        for g, labels, how in flat_guards(fv, bi, brs):
            if g[0] == "call" and re.search(r"Ordering::is_(ne|eq)$", g[1]) and show(strip(g[2][0]), 400) == show(strip(e), 400):
                ok = ok or (g[1].endswith("is_ne") == (labels == {"true"}))
            if g[0] == "discr" and show(strip(g[1]), 400) == show(strip(e), 400) and "Equal" not in labels:
                ok = True
            if g[0] == "bin" and g[1] in ("Ne", "Eq") and show(strip(g[2]), 400) == show(strip(e), 400):
                ok = ok or ((g[1] == "Ne") == (labels == {"true"}))
        if not ok:
            problems.append("early return of a comparator step (line %d) is not guarded by `that step is not Equal`" % fv.line(bi))
    return out, problems


def extract_order(prog, key):
    fv = FnView(prog, key)
    rend = Renderer(fv, depth=40)
    side = SideResolver(prog, fv)
    e = rend.local(0, 40)
    rdefs = [d for d in fv.defs().get(0, []) if d[0] in fv.live]
    if len(rdefs) > 1:
        steps, problems = parse_early_returns(prog, fv, side, rdefs)
    else:
        steps, problems = parse_chain(prog, fv, e, side)
    res = []
    for a, b, flip, sfv, sside, cmpname in steps:
        ra, rb = sside.roots(a), sside.roots(b)
        if ra == {1} and rb == {2}:
            d = "asc"
        elif ra == {2} and rb == {1}:
            d = "desc"
        else:
            d = "?"
            problems.append("cannot attribute operands of step to self/other: %s vs %s (roots %s/%s)" % (show(a, 60), show(b, 60), ra, rb))
        if flip and d != "?":
            d = "desc" if d == "asc" else "asc"
        ta, tb = expr_tokens(prog, a), expr_tokens(prog, b)
        ca, cb = classify_tokens(ta), classify_tokens(tb)
        if not ca or not cb:
            # the operands are named locals (`let self_id = ..; self_id.cmp(&other_id)`), possibly of the enclosing body and
            # captured by the then_with closure: what they are is what their definitions compute
            ta, tb = ta | _def_tokens(prog, sside, a), tb | _def_tokens(prog, sside, b)
            ca, cb = classify_tokens(ta), classify_tokens(tb)
        # a RibEntry::cmp deferral
        is_defer = any(re.search(r"RibEntry as std::cmp::Ord>::cmp", t) for t in (cmpname,))
        res.append({"a": show(a, 80), "b": show(b, 80), "dir": d, "concept_a": ca, "concept_b": cb, "cmp": cmpname,
                    "defer": is_defer, "fn": sfv.name, "line": None})
    return res, problems, fv


def run(prog, rep, tier):
    cmp_key = prog.one(r"rustybgp_table::<RibEntry as std::cmp::Ord>::cmp")
    # ---------------------------------------------------------------- R02.1 / R02.2
    r1 = rep.rule("R02.1", "decision order of <RibEntry as Ord>::cmp equals the order in the property text")
    r2 = rep.rule("R02.2", "every comparator step is Ord::cmp on an Ord primitive (total preorder by construction)")
    steps, problems, fv = extract_order(prog, cmp_key)
    r1.analysed(fv.name)
    for p in problems:
        r1.unanalysable(p, fv.loc())
    got = []
    for i, s in enumerate(steps):
        if len(s["concept_a"]) != 1 or s["concept_a"] != s["concept_b"]:
            r1.unanalysable("step %d key not recognised: %s / %s -> %s / %s" % (i + 1, s["a"], s["b"], s["concept_a"], s["concept_b"]), fv.loc())
            got.append(("?", s["dir"]))
        else:
            got.append((s["concept_a"][0], s["dir"]))
        # R02.2
        if re.search(r"partial_cmp", s["cmp"]) or not (PRIM_ORD.search(_ga(prog, s)) or re.search(r"impl std::cmp::Ord for (u8|u16|u32|u64|usize|bool|i32|i64)>", s["cmp"])):
            r2.fail(fv.name, "step%d:%s" % (i + 1, got[-1][0]), "step compares with %s (not Ord::cmp on an integer/bool)" % s["cmp"], fv.loc())
        else:
            r2.ok("%s step %d (%s): %s" % (short(fv.name), i + 1, got[-1][0], s["cmp"]))
    r1.note("extracted order: " + ", ".join("%s:%s" % g for g in got))
    r1.note("spec order: " + ", ".join("%s:%s" % g for g in SPEC_ORDER))
    if not problems:
        # compare as sequences; report the concepts outside the longest common subsequence (the moved ones)
        gseq = [c for c, _ in got]
        sseq = [c for c, _ in SPEC_ORDER]
        keep = _lcs(gseq, sseq)
        gd = dict(got)
        for i, (c, d) in enumerate(SPEC_ORDER):
            if c not in gd:
                r1.fail(fv.name, "missing:%s" % c, "the comparator has no '%s' step (stated order: %s)" % (c, " > ".join(sseq)), fv.loc())
            elif gd[c] != d:
                r1.fail(fv.name, "direction:%s" % c, "step '%s' compares in direction %s, the stated order needs %s" % (c, gd[c], d), fv.loc())
            elif c not in keep:
                r1.fail(fv.name, "position:%s" % c,
                        "step '%s' is number %d in the comparator but number %d in the stated decision order (extracted: %s)"
                        % (c, gseq.index(c) + 1, i + 1, " > ".join(gseq)), fv.loc())
            else:
                r1.ok("%s: step %s %s in stated position" % (short(fv.name), c, d))
        for c in gseq:
            if c not in sseq:
                r1.fail(fv.name, "extra:%s" % c, "the comparator has a step '%s' that the stated order does not have" % c, fv.loc())

    # evpn_type2_cmp: MAC mobility first, then defer to cmp with the same operand order
    r1b = rep.rule("R02.1b", "evpn_type2_cmp ranks MAC-mobility sequence (higher first, present beats absent) ahead of RibEntry::cmp")
    ek = prog.one(r"rustybgp_table::evpn_type2_cmp")
    efv = FnView(prog, ek)
    r1b.analysed(efv.name)
    check_evpn_cmp(prog, efv, r1b)

    # ---------------------------------------------------------------- R02.1c
    r1c = rep.rule("R02.1c", "the eBGP-over-iBGP step classifies the peer roles as stated: Ebgp and RsClient before Ibgp, IbgpRrClient and ConfedEbgp")
    check_role_class(prog, r1c)

    # ---------------------------------------------------------------- R02.3
    r3 = rep.rule("R02.3", "ECMP key tuple = comparator steps minus the final router-id step, same order")
    ek = prog.one(r"rustybgp_table::NlriChange::ecmp_paths")
    efv = FnView(prog, ek)
    r3.analysed(efv.name)
    check_ecmp(prog, efv, got, r3)

    # ---------------------------------------------------------------- R02.4
    r4 = rep.rule("R02.4", "every ordering operation on Destination.entry selects the comparator EVPN-type-2-aware and picks the Less end")
    check_ordering_ops(prog, r4)

    # ---------------------------------------------------------------- R02.5
    r5 = rep.rule("R02.5", "every writer of Source.stale / llgr_stale is followed by a re-sort of the visited lists")
    check_resort(prog, r5)

    # ---------------------------------------------------------------- R02.6
    r6 = rep.rule("R02.6", "ranked path lists handed out derive from Destination::unfiltered_iter")
    from .c06 import check_current_paths
    check_current_paths(prog, r6)

    # ---------------------------------------------------------------- R02.7 / R02.8
    r7 = rep.rule("R02.7", "AS-hop accumulator of Attribute::as_path_length is wider than u8")
    r8 = rep.rule("R02.8", "hop-count table: SET +1, SEQ +count, CONFED 0; as_path_length and count_as_hops agree")
    check_as_path_length(prog, r7, r8)


def _lcs(a, b):
    n, m = len(a), len(b)
    t = [[0] * (m + 1) for _ in range(n + 1)]
    for i in range(n):
        for j in range(m):
            t[i + 1][j + 1] = t[i][j] + 1 if a[i] == b[j] else max(t[i][j + 1], t[i + 1][j])
    out, i, j = [], n, m
    while i and j:
        if a[i - 1] == b[j - 1]:
            out.append(a[i - 1]); i -= 1; j -= 1
        elif t[i - 1][j] >= t[i][j - 1]:
            i -= 1
        else:
            j -= 1
    return set(out)


def _ga(prog, s):
    # generic args of the cmp call are embedded in resolved impl names, e.g. "<impl Ord for u32>::cmp"
    m = re.search(r"impl std::cmp::Ord for (\w+)>", s["cmp"])
    return "[%s]" % m.group(1) if m else ""


def check_role_class(prog, r):
    """PeerRole::prefers_over_ibgp is the key of the 'eBGP over iBGP / confed-eBGP' step (comparator and ECMP tuple alike): true
    exactly for Ebgp and RsClient (RFC 5065 section 9: a confederation-eBGP path is not preferred over iBGP).  Truth table over the
    role, however the predicate is written (matches!, negated matches!, match with arms)."""
    from .. import predicates
    ks = prog.find(r"rustybgp_table::PeerRole::prefers_over_ibgp")
    if len(ks) != 1:
        r.unanalysable("PeerRole::prefers_over_ibgp anchor matched %d" % len(ks))
        return
    ROLES = ["RsClient", "Ibgp", "IbgpRrClient", "ConfedEbgp", "Ebgp"]

    def cls(e, labels, fvx):
        lab = set(labels)
        if e[0] == "discr" and e[2] and e[2].endswith("PeerRole") and "else" not in lab:
            return ("role", frozenset(lab))
        if e[0] == "call" and re.search(r"PartialEq(>)?::(eq|ne)$", e[1]) and "PeerRole" in (e[5] or "") and len(lab) == 1 and lab <= {"true", "false"}:
            c = [x[3] for x in walk(e) if isinstance(x, tuple) and x and x[0] == "const" and x[3] in ROLES]
            if len(c) == 1:
                same = e[1].endswith("::eq") == (lab == {"true"})
                return ("role", frozenset({c[0]}) if same else frozenset(set(ROLES) - {c[0]}))
        return None
    rws, fv = predicates.rows(prog, ks[0], cls)
    r.analysed(fv.name)
    if rws is None:
        r.unanalysable("prefers_over_ibgp: too many paths", fv.loc())
        return
    bad = predicates.counterexamples(rws, {"role": ROLES}, lambda v: v["role"] in ("Ebgp", "RsClient"))
    unk = sorted({u for f_, res_, us in rws for u in us})
    if unk:
        r.unanalysable("prefers_over_ibgp: conditions not understood: %s" % [u[0] for u in unk][:3], fv.loc())
    elif bad:
        kind, v, res_ = bad[0]
        r.fail(fv.name, "role-class:" + str(v.get("role") if isinstance(v, dict) else "?"), "prefers_over_ibgp answers %s for role %s: the decision step ranks Ebgp and RsClient paths ahead of Ibgp, IbgpRrClient and "
               "ConfedEbgp ones (a confederation-eBGP path must not beat an iBGP path at this step)" % (res_, v.get("role") if isinstance(v, dict) else v), fv.loc())
    else:
        r.ok("prefers_over_ibgp: true exactly for Ebgp and RsClient (%d paths)" % len(rws))


def check_evpn_cmp(prog, efv, r):
    """Decision table of evpn_type2_cmp over its entry->return paths (deep view: Option::map / and_then expanded):
         a has MAC mobility, b has not -> Less;  b has, a has not -> Greater;  neither -> RibEntry::cmp(a, b);
         both -> higher sequence first (descending), ties broken by RibEntry::cmp(a, b).
    The same table whether it is a `match` on the tuple, let-else guards, or a then_with chain."""
    from ..paths import enumerate_paths, PathLimit
    from ..util import view_deep
    _check_mac_mobility_selector(prog, r)
    if not efv.calls(re.compile(r".*evpn::mac_mobility")):
        r.unanalysable("evpn_type2_cmp no longer calls mac_mobility", efv.loc())
        return
    dv = view_deep(prog, efv.key)
    rend = Renderer(dv, depth=40, through_names=True)
    side = SideResolver(prog, dv)
    try:
        paths = enumerate_paths(dv, rend, max_paths=4000)
    except PathLimit:
        r.unanalysable("evpn_type2_cmp: too many paths", efv.loc())
        return
    seen = {}
    problems = {}
    for conds, blocks, env in paths:
        has = {}
        eq_seq = None
        for br, labels in conds:
            e, lab = br.expr, set(labels)
            if len(lab) != 1:
                continue
            calls = [x for x in walk(e) if isinstance(x, tuple) and x and x[0] == "call"]
            if any(c[1].endswith("evpn::mac_mobility") for c in calls) and (e[0] == "discr" and lab <= {"Some", "None"} or
                                                                             e[0] == "call" and re.search(r"Option::<T>::is_(some|none)$", e[1])):
                roots = side.roots(e)
                present = (lab == {"Some"}) if e[0] == "discr" else ((lab == {"true"}) == e[1].endswith("is_some"))
                if roots == {1}:
                    has.setdefault("a", present)
                elif roots == {2}:
                    has.setdefault("b", present)
            if e[0] == "call" and re.search(r"Ordering::is_(ne|eq)$", e[1]) and lab <= {"true", "false"}:
                eq_seq = (lab == {"true"}) == e[1].endswith("is_eq")
        res = env.get((0, ()))
        pos = {b: i for i, b in enumerate(blocks)}
        if res in ("Less", "Greater", "Equal"):
            kind = ("const", res)
        else:
            ds = [d for d in dv.defs().get(0, []) if d[0] in pos]
            if not ds:
                continue
            bi, si, st = max(ds, key=lambda d: pos[d[0]])
            e0 = rend.call_expr(st, 40, bi) if si == "t" else rend.rvalue(st["rv"], 40)
            steps, probs = parse_chain(prog, dv, e0, side)
            if probs:
                problems.setdefault("shape", probs[0])
                continue
            desc = []
            for a, b, flip, sfv, sside, cmpname in steps:
                ra, rb = sside.roots(a), sside.roots(b)
                d = "asc" if (ra, rb) == ({1}, {2}) else "desc" if (ra, rb) == ({2}, {1}) else "?"
                if flip and d != "?":
                    d = "desc" if d == "asc" else "asc"
                if re.search(r"RibEntry as std::cmp::Ord>::cmp", cmpname):
                    desc.append(("defer", d))
                else:
                    desc.append(("seq" if (_from_mac_mobility(sfv, a) or "mac_mobility" in show(a, 600) or "u32" in cmpname) else "?", d))
            kind = ("chain", tuple(desc))
        key = (has.get("a"), has.get("b"))
        seen.setdefault(key, set()).add((kind, eq_seq))
    want_const = {(True, False): "Less", (False, True): "Greater"}
    for key, kinds in sorted(seen.items(), key=str):
        a_, b_ = key
        for kind, eq_seq in kinds:
            if a_ is None or b_ is None:
                # one side never examined on this path: only legitimate when the result does not depend on it
                if (a_, b_) == (False, None) or (a_, b_) == (None, None):
                    pass
            if key in want_const:
                if kind != ("const", want_const[key]):
                    problems.setdefault("const:%s" % want_const[key], "with MAC mobility on %s only the result is %s (want %s)" % ("a" if a_ else "b", kind, want_const[key]))
            elif key == (False, False):
                if kind != ("chain", (("defer", "asc"),)):
                    problems.setdefault("arm@none", "without MAC mobility on either side the result is %s (want RibEntry::cmp(a, b))" % (kind,))
            elif key == (True, True):
                ok = kind in (("chain", (("seq", "desc"), ("defer", "asc"))),) or \
                    (kind == ("chain", (("seq", "desc"),)) and eq_seq is False) or (kind == ("chain", (("defer", "asc"),)) and eq_seq is True)
                if not ok:
                    problems.setdefault("arm@both", "with MAC mobility on both sides the result is %s (sequence tie=%s); want the higher sequence first, ties by RibEntry::cmp(a, b)" % (kind, eq_seq))
            else:
                problems.setdefault("arm@partial", "a result (%s) is produced on a path that examined MAC mobility of %s only" % (kind, "a" if b_ is None else "b"))
    for k_, msg in sorted(problems.items()):
        if k_ == "shape":
            r.unanalysable(msg, efv.loc())
        else:
            r.fail(efv.name, k_, "evpn_type2_cmp: " + msg, efv.loc())
    need = {(True, False), (False, True), (False, False), (True, True)}
    if not problems:
        if need <= set(seen):
            r.ok("evpn_type2_cmp: Less / Greater when only one side has MAC mobility, higher sequence first when both have, RibEntry::cmp otherwise (%d paths)" % len(paths))
        else:
            r.unanalysable("evpn_type2_cmp: decision table incomplete: %s" % sorted(map(str, set(seen))), efv.loc())


def _from_mac_mobility(fv, e):
    """True if the expression is a payload of the Option returned by mac_mobility (through the matched tuple)."""
    rend = Renderer(fv, depth=40, through_names=True)
    for x in walk(e):
        if isinstance(x, tuple) and x and x[0] == "var":
            for l, n in fv.local_name.items():
                if n == x[1]:
                    ee = rend.local(l, 40)
                    if any(isinstance(y, tuple) and y and y[0] == "call" and y[1].endswith("evpn::mac_mobility") for y in walk(ee)):
                        return True
        if isinstance(x, tuple) and x and x[0] == "call" and x[1].endswith("evpn::mac_mobility"):
            return True
    return False


def _local_tokens(fv, e, prog):
    return set()


def _tuple_match_conds(fv, target, rend, side):
    """For a block inside `match (x, y)`: which variant of x (derived from parameter 1) / y (parameter 2) is
    required to reach it (edge dominance).  Keys '0' / '1'."""
    from ..cfg import guards_of
    out = {}
    for br, labels in guards_of(fv, target):
        e = br.expr
        if e[0] == "discr" and len(labels) == 1:
            roots = side.roots(e[1])
            if roots == {1}:
                out["0"] = next(iter(labels))
            elif roots == {2}:
                out["1"] = next(iter(labels))
    return out


def check_ecmp(prog, efv, cmp_order, r):
    """The tuple compared in ecmp_paths (both the `key` tuple and the per-path tuple) lists the comparator's
    concepts, in order, without the last one."""
    want = [c for c, _ in cmp_order[:-1]]
    tuples = []
    for key in prog.with_closures(efv.key):
        fv = FnView(prog, key)
        rend = Renderer(fv, depth=30)
        for bi in sorted(fv.live):
            for si, s in enumerate(fv.blocks[bi]["s"]):
                rv = s.get("rv")
                if rv and rv["r"] == "agg" and rv["k"] == "tuple" and len(rv["fields"]) >= 3:
                    fields = [strip(rend.operand(x, 30)) for x in rv["fields"]]
                    cs = []
                    for fe, fo in zip(fields, rv["fields"]):
                        toks = expr_tokens(prog, fe)
                        q = fo.get("c") or fo.get("m")
                        if isinstance(fe, tuple) and fe and fe[0] == "tmp" and q is not None and not q.get("p"):
                            # `a || b` / `a && b` written in place: a bool temporary assigned in several arms; its meaning is
                            # what the arms compute and what they are conditioned on
                            from ..cfg import flat_guards as _fg
                            for db, dsi, dst in fv.defs().get(q["l"], []):
                                if db not in fv.live:
                                    continue
                                if dsi == "t":
                                    toks |= expr_tokens(prog, rend.call_expr(dst, 30, db))
                                else:
                                    toks |= expr_tokens(prog, rend.rvalue(dst["rv"], 30))
                                for g, l_, h_ in _fg(fv, db):
                                    toks |= expr_tokens(prog, g)
                        c = classify_tokens(toks)
                        cs.append(c[0] if len(c) == 1 else "?")
                    tuples.append((fv, bi, cs))
    if len(tuples) == 1 and tuples[0][0].key != efv.key:
        # one closure builds the tuple and is called both for the best path and per path (`let tie_key = |p| (..)`): the two
        # tuples agree by construction; the closure must be called from the body and from the take_while closure
        ck = tuples[0][0].key
        callers = [k2 for k2 in prog.with_closures(efv.key) if k2 != ck and any((c["f"].get("rkey") or c["f"].get("key")) == ck or
                   (re.search(r"ops::(Fn|FnMut|FnOnce)::call", c["f"].get("name", "")) and ck in (c["f"].get("ga", "") + str(c["f"].get("rkey")))) for c in prog.ix[k2]["calls"])]
        if len(callers) >= 2 or (callers and len(set(callers)) >= 1 and sum(1 for k2 in prog.with_closures(efv.key) for c in prog.ix[k2]["calls"]
                                                                                if re.search(r"ops::(Fn|FnMut|FnOnce)::call", c["f"].get("name", ""))) >= 2):
            tuples = [tuples[0], tuples[0]]
    if len(tuples) < 2:
        r.unanalysable("ecmp_paths: expected the key tuple and the per-path tuple, found %d tuple(s)" % len(tuples), efv.loc())
        return
    for fv, bi, cs in tuples:
        which = "key" if (fv.key == efv.key or (fv, bi, cs) is tuples[0] and tuples[0] is tuples[1]) else "per-path"
        if "?" in cs:
            r.unanalysable("ecmp_paths %s tuple has an unrecognised component: %s" % (which, cs), fv.loc(bi))
        elif cs != want:
            missing = [c for c in want if c not in cs]
            r.fail(efv.name, "tuple:%s" % which,
                   "ECMP %s tuple is (%s) but the comparator before the router-id step is (%s)%s"
                   % (which, ", ".join(cs), ", ".join(want), ("; missing: " + ", ".join(missing)) if missing else ""), fv.loc(bi))
        else:
            r.ok("ecmp_paths %s tuple = %s" % (which, cs))
        # the per-path tuple describes the path under test: every component is computed from the closure's own argument. A
        # component computed from the captured best path compares the best path with itself, so that step never ends the tied run.
        if which == "per-path" and fv.key != efv.key:
            rn = Renderer(fv, depth=30, through_names=True)
            params = {fv.local_name.get(l) for l in range(2, fv.f.get("argc", 0) + 1)} - {None}
            rv = [s_ for s_ in fv.blocks[bi]["s"] if s_.get("rv") and s_["rv"]["r"] == "agg" and s_["rv"]["k"] == "tuple" and len(s_["rv"]["fields"]) >= 3][0]["rv"]
            for c, fo in zip(cs, rv["fields"]):
                vs = set(expr_vars(rn.operand(fo, 30)))
                q = fo.get("c") or fo.get("m")
                if q is not None and not q.get("p"):
                    for db, dsi, dst in fv.defs().get(q["l"], []):
                        if db in fv.live:
                            vs |= set(expr_vars(rn.call_expr(dst, 30, db) if dsi == "t" else rn.rvalue(dst["rv"], 30)))
                if params and not (vs & params):
                    r.fail(efv.name, "tuple-component-not-of-path:%s" % c, "the `%s` component of the per-path tuple is not computed from the path under test (it reads %s): that step compares the best "
                           "path with itself, so a path that loses to the best only at this step is reported as tied and its next hop goes into the FIB request" % (c, sorted(vs)[:3]), fv.loc(bi))


ORDER_OPS = re.compile(r".*(slice::<impl \[T\]>::(sort|sort_unstable|sort_by|sort_unstable_by|sort_by_key|sort_unstable_by_key|partition_point|binary_search|binary_search_by|select_nth_unstable))"
                       r"|.*Iterator::(max|min|max_by|min_by|max_by_key|min_by_key)")


DISORDER = re.compile(r".*(Vec::<T, A>::swap_remove|slice::<impl \[T\]>::(swap|reverse|rotate_left|rotate_right|swap_with_slice|fill_with))$")


def check_ordering_ops(prog, r):
    """Enumerate sorts / partition_points / min / max whose element type is RibEntry, inside the table crate."""
    # .. and nothing may shuffle the ranked list behind the comparator's back: the path list is kept sorted by insertion at the
    # binary-search position and by order-preserving removal (Vec::remove / retain); swap_remove moves the worst path into the
    # hole, after which new_best() and every later binary search are wrong
    nd = 0
    for key, ix in prog.ix.items():
        if not key.startswith("rustybgp_table::") or "::tests::" in ix["name"]:
            continue
        if not any(DISORDER.fullmatch(c["f"].get("name", "")) for c in ix["calls"]):
            continue
        fvd = FnView(prog, key)
        for bi, t in fvd.calls(DISORDER):
            if "RibEntry" not in t["f"].get("ga", ""):
                continue
            nd += 1
            rootname = prog.name(prog.ix[key].get("root") or key)
            r.fail(rootname, "order-destroying:" + t["f"]["name"].split("::")[-1], "%s is applied to a ranked path list (Vec<RibEntry>): the list is no longer sorted by the decision order, "
                   "so the best path and the add-path window depend on the history of withdrawals" % t["f"]["name"].split("::")[-1], fvd.loc(bi))
    if nd == 0:
        r.ok("no order-destroying operation (swap_remove / swap / reverse / rotate) on a Vec<RibEntry> in the table crate")
    n = 0
    for key, ix in prog.ix.items():
        if not key.startswith("rustybgp_table::"):
            continue
        if not any(ORDER_OPS.fullmatch(c["f"].get("name", "")) for c in ix["calls"]):
            continue
        fv = FnView(prog, key)
        for bi, t in fv.calls(ORDER_OPS):
            ga = t["f"].get("ga", "")
            if "RibEntry" not in ga:
                continue
            n += 1
            name = t["f"]["name"]
            op = name.split("::")[-1]
            root = prog.ix[key].get("root") or key
            rootname = prog.name(root)
            site = "%s:%s" % (short(rootname), op)
            r.analysed(rootname)
            if op in ("max", "max_by", "max_by_key"):
                r.fail(rootname, "%s#max" % op, "selects the maximum under RibEntry's order, but Less = better: this picks the worst path", fv.loc(bi))
                continue
            if op in ("sort", "sort_unstable", "min"):
                # plain Ord: acceptable only if dominated by a test that the NLRI is not EVPN type 2
                if _evpn_aware(prog, fv, bi):
                    r.ok(site + " (plain Ord on the non-EVPN-type-2 side)")
                else:
                    r.fail(rootname, "%s#plain-ord" % op,
                           "orders Destination.entry with plain Ord for every NLRI: EVPN type-2 lists lose the MAC-mobility step (insert uses evpn_type2_cmp)",
                           fv.loc(bi))
                continue
            if op in ("partition_point", "sort_by", "sort_unstable_by", "min_by", "binary_search_by"):
                # comparator closure: must call evpn_type2_cmp, or RibEntry::cmp under the non-EVPN test
                clos = [a for a in t["args"] if True]
                ck = _closure_arg(prog, fv, t)
                toks = fn_tokens(prog, ck, depth=1) if ck else set()
                # a comparator passed as a function item (`sort_by(evpn_type2_cmp)`)
                for a in t["args"]:
                    fnk = (a.get("k") or {}).get("fn")
                    if fnk:
                        toks = set(toks) | {"call:" + prog.name(fnk) if fnk in prog.ix else "call:" + fnk}
                if any(x.endswith("evpn_type2_cmp") for x in toks if x.startswith("call:")):
                    r.ok(site + " (evpn_type2_cmp)")
                elif any(re.search(r"RibEntry as std::cmp::Ord>::cmp", x) for x in toks):
                    if _evpn_aware(prog, fv, bi):
                        r.ok(site + " (RibEntry::cmp on the non-EVPN-type-2 side)")
                    else:
                        r.fail(rootname, "%s#plain-ord" % op, "closure compares with plain RibEntry::cmp regardless of EVPN type-2", fv.loc(bi))
                else:
                    r.unanalysable("ordering closure at %s calls neither comparator" % site, fv.loc(bi))
                continue
            r.unanalysable("ordering operation %s on RibEntry not classified" % op, fv.loc(bi))
    r.floor("ordering operations on RibEntry lists", n, 5)


def _closure_arg(prog, fv, t):
    for a in t["args"]:
        p = a.get("m") or a.get("c")
        if p and not p.get("p"):
            ty = fv.f["locals"][p["l"]]
            m = re.search(r"\{closure@", ty)
            if m:
                # find the aggregate that builds it
                for bi, si, s in fv.defs().get(p["l"], []):
                    if si != "t" and s["rv"]["r"] == "agg" and s["rv"]["k"] == "closure":
                        return s["rv"]["def"]
    return None


def _evpn_aware(prog, fv, bi):
    """True iff block bi is reached only through a branch on an EVPN-type-2 test (matches! on Nlri::Evpn(MacIpAdv))."""
    from ..cfg import flat_guards
    for e, labels, how in flat_guards(fv, bi):
        if how == "not" and e[0] == "matches":
            # false side of `matches!(net, Nlri::Evpn(EvpnNlri::MacIpAdvertisement(_)))`
            conj = e[1]
            if any(x[0] == "discr" and x[2] and "evpn::EvpnNlri" in x[2] and ls == ("MacIpAdvertisement",) for x, ls in conj):
                return True
        if e[0] == "call" and re.search(r"is_evpn_type2|is_mac_ip", e[1]):
            return True
        if e[0] == "discr" and e[2] and "evpn::EvpnNlri" in e[2] and "MacIpAdvertisement" not in labels:
            return True
    return False


STALE_WRITERS = re.compile(r"rustybgp_table::Source::(mark_stale|mark_llgr_stale|clear_llgr_stale)")
RESORT = re.compile(r".*slice::<impl \[T\]>::(sort|sort_unstable|sort_by|sort_unstable_by)")


def check_resort(prog, r):
    """Callers of the stale-flag writers: every path from the write to a return must re-sort (a sort call on a
    RibEntry list inside a loop over destinations counts when the write dominates the loop)."""
    writers = prog.find(r"rustybgp_table::Source::(mark_stale|mark_llgr_stale|clear_llgr_stale)")
    if len(writers) < 3:
        r.unanalysable("stale-flag writers: found %d of 3" % len(writers))
        return
    # direct field writers other than these three methods (store on the atomics)
    n = 0
    for w in writers:
        for caller in sorted(prog.callers(w)):
            if caller in writers:
                continue
            fv = FnView(prog, caller)
            for bi, t in fv.calls(STALE_WRITERS):
                n += 1
                r.analysed(fv.name)
                wname = t["f"]["name"].split("::")[-1]
                if not caller.startswith("rustybgp_table::"):
                    # daemon-side use: must go through a Table method that re-sorts; flag it
                    r.fail(fv.name, "call:%s" % wname, "stale flag written outside the table crate: no list can be re-sorted here", fv.loc(bi))
                    continue
                # is there any re-sort reachable after the write, and does every path to return pass... the
                # sort sits in a `for` loop that may run zero times, so we require: a sort call on RibEntry is
                # reachable after the write and lies in a loop whose body is the only place entries are visited.
                sorts = [b for b, tt in fv.calls(RESORT) if "RibEntry" in tt["f"].get("ga", "")]
                for ck in prog.with_closures(caller)[1:]:
                    cfv = FnView(prog, ck)
                    if any("RibEntry" in tt["f"].get("ga", "") for _, tt in cfv.calls(RESORT)):
                        sorts.append(-1)
                after = fv.reach_after(bi)
                # per destination: from the write, the next iteration of the loop over destinations (or the return) must not be
                # reachable without passing a re-sort of this destination's list
                real_sorts = [s_ for s_ in sorts if s_ != -1]
                skipped = None
                from ..util import loops as _loops
                outer = [(h, body) for h, body, backs in _loops(fv) if bi in body and any(s_ in body for s_ in real_sorts)]
                if outer and real_sorts:
                    h, body = max(outer, key=lambda x: len(x[1]))
                    # an inner loop that contains the write itself is crossed freely; only the outer head counts
                    reach_wo_sort = fv.reach_after(bi, real_sorts)
                    if h in reach_wo_sort or any(x in reach_wo_sort for x in fv.returns()):
                        skipped = h
                if skipped is not None:
                    # the plain CFG says a path skips the sort; a flag set together with the write (`seen = true; mark(); ..
                    # if !seen { continue }`) makes that path infeasible: re-examine with constants propagated along paths
                    from ..paths import enumerate_paths, PathLimit
                    try:
                        ps_ = enumerate_paths(fv, Renderer(fv, depth=8), max_paths=20000)
                        with_write = [blocks for conds, blocks, env in ps_ if bi in blocks]
                        if with_write and all(any(s_ in blocks[blocks.index(bi):] for s_ in real_sorts) for blocks in with_write):
                            skipped = None
                    except PathLimit:
                        pass
                if skipped is not None:
                    r.fail(fv.name, "resort-skipped:%s" % wname, "after %s the destination's entry list can be left unsorted: a path from the write reaches the next destination (or the return) "
                           "without passing the re-sort — the stale flag changes the order of this source's entries whether or not they are filtered" % wname, fv.loc(bi))
                elif any(s in after or s == -1 for s in sorts):
                    r.ok("%s: %s followed by re-sort" % (short(fv.name), wname))
                elif wname == "clear_llgr_stale" and _clears_on_reestablish(prog, fv):
                    r.ok("%s: %s (no entry of this source remains LLGR-stale-ranked)" % (short(fv.name), wname))
                else:
                    r.fail(fv.name, "call:%s" % wname, "%s is not followed by a re-sort of the destination lists" % wname, fv.loc(bi))
    r.floor("call sites of stale-flag writers", n, 2)


def _clears_on_reestablish(prog, fv):
    return False


def check_as_path_length(prog, r7, r8):
    k = prog.one(r"rustybgp_packet::bgp::Attribute::as_path_length")
    fv = FnView(prog, k)
    r7.analysed(fv.name)
    # accumulator: the returned local's type and every local that receives an Add result
    accs = set()
    for bi in sorted(fv.live):
        t = fv.blocks[bi]["t"]
        if t["t"] == "assert" and t["kind"].startswith("Overflow(Add"):
            for s in fv.blocks[bi]["s"]:
                rv = s.get("rv")
                if rv and rv["r"] == "bin" and rv["op"].startswith("Add"):
                    for o in (rv["a"], rv["b"]):
                        p = o.get("c") or o.get("m")
                        if p:
                            accs.add((p["l"], fv.f["locals"][p["l"]], fv.local_name.get(p["l"], "_%d" % p["l"]), bi))
    ret_ty = fv.f["locals"][0]
    narrow = [(l, ty, n, bi) for l, ty, n, bi in accs if ty in ("u8", "i8")]
    if not accs:
        r7.note("no checked additions found in as_path_length (iterator sum?)")
    if narrow:
        names = sorted({n for _, _, n, _ in narrow if not n.startswith("_")}) or sorted({n for _, _, n, _ in narrow})
        r7.fail(fv.name, "acc:u8", "hop accumulator %s is u8: an AS_PATH of more than 255 hops traps in debug builds and wraps in release (a 4096-byte UPDATE carries up to ~1000 ASes)"
                % ",".join(names), fv.loc(narrow[0][3]))
    else:
        r7.ok("%s: additions on %s" % (short(fv.name), sorted({ty for _, ty, _, _ in accs}) or ret_ty))
    # R02.8: per-segment increments
    tables = {}
    for nm in (r"rustybgp_packet::bgp::Attribute::as_path_length", r"rustybgp_packet::bgp::count_as_hops|rustybgp_packet::.*count_as_hops"):
        ks = prog.find(nm)
        if len(ks) != 1:
            r8.unanalysable("anchor %s matched %d" % (nm, len(ks)))
            continue
        f2 = FnView(prog, ks[0])
        r8.analysed(f2.name)
        tables[f2.name] = seg_table(prog, f2)
    want = {"1": "+1", "2": "+count", "3": "0", "4": "0"}
    names = {"1": "AS_SET", "2": "AS_SEQUENCE", "3": "AS_CONFED_SEQUENCE", "4": "AS_CONFED_SET"}
    for fname, tab in tables.items():
        for code, exp in want.items():
            got = tab.get(code)
            if got is None:
                r8.unanalysable("%s: no arm found for segment type %s" % (short(fname), names[code]))
            elif got != exp:
                r8.fail(fname, "seg:%s" % names[code], "segment type %s contributes %s hops, the decision order needs %s" % (names[code], got, exp), "packet/src/bgp.rs")
            else:
                r8.ok("%s: %s -> %s" % (short(fname), names[code], got))


def seg_table(prog, fv):
    """Map segment-type switch value -> '+1' | '+count' | '0': which increment of the hop accumulator each case of the
    switch on the segment type leads to.  An increment is an addition `acc + x` whose result flows to the return value; `x`
    is either written in the arm itself (`acc += 1` in one arm, `acc += n` in another) or computed per arm and added once
    behind the match (`acc += match t { SET => 1, SEQ => n, _ => 0 }`): then each definition of `x` counts in its arm."""
    from ..cfg import branches as _br
    rend = Renderer(fv, depth=12)
    brs = _br(fv, rend)

    def kind_of_operand(o):
        k = o.get("k")
        if k is not None and isinstance(k.get("v"), int):
            return "+1" if k["v"] == 1 else ("0" if k["v"] == 0 else "+%d" % k["v"])
        return None

    contrib = []      # (block, effect)
    for b in sorted(fv.live):
        for s in fv.blocks[b]["s"]:
            rv = s.get("rv")
            if not (rv and rv["r"] == "bin" and rv["op"].startswith("Add") and _is_acc(fv, rv, s)):
                continue
            acc = None
            for o in (rv["a"], rv["b"]):
                p = o.get("c") or o.get("m")
                if p and not p.get("p") and p["l"] in fv.local_name and _flows_to_return(fv, p["l"]):
                    acc = o
            x = rv["b"] if acc is rv["a"] else rv["a"]
            kc = kind_of_operand(x)
            if kc is not None:
                contrib.append((b, kc))
                continue
            p = x.get("c") or x.get("m")
            ds = [d for d in fv.defs().get(p["l"], []) if d[0] in fv.live] if (p and not p.get("p")) else []
            if len(ds) > 1:
                for db, si, st in ds:
                    kc = kind_of_operand(st["rv"]["o"]) if (si != "t" and st["rv"]["r"] == "use") else None
                    contrib.append((db, kc or "+count"))
            else:
                contrib.append((b, "+count"))
    tab = {}
    for bi, br in brs.items():
        vals = [v for v, _ in br.cases]
        if not vals or not set(vals) <= {1, 2, 3, 4} or br.ty not in ("u8",):
            continue
        def effect(edge, tgt):
            effs = {e for b, e in contrib if b == tgt or fv.edge_guarded(b, {edge})}
            effs.discard("0")
            if not effs:
                return "0"
            return sorted(effs)[0] if len(effs) == 1 else "+".join(sorted(effs))
        for v, tgt in br.cases:
            tab[str(v)] = effect((bi, v, tgt), tgt)
        missing = {1, 2, 3, 4} - set(vals)
        for m in missing:
            tab[str(m)] = effect((bi, "else", br.otherwise), br.otherwise)
        break
    return tab


def _is_acc(fv, rv, s):
    """The addition updates a named accumulator (a user variable that is also an operand)."""
    for o in (rv["a"], rv["b"]):
        p = o.get("c") or o.get("m")
        if p and not p.get("p") and p["l"] in fv.local_name:
            n = fv.local_name[p["l"]]
            if n not in ("pos", "i", "idx", "offset", "seg_end", "c"):
                # cursor variables are not hop accumulators: accumulator = variable that is returned or
                # whose name is not a cursor.  Prefer: variable flows to return.
                return _flows_to_return(fv, p["l"])
    return False


def _flows_to_return(fv, l):
    name = fv.local_name.get(l)
    e = Renderer(fv, depth=6).local(0, 6)
    if name and any(isinstance(x, tuple) and x and x[0] == "var" and x[1] == name for x in walk(e)):
        return True
    for bi, si, s in fv.defs().get(0, []):
        if si != "t":
            rv = s["rv"]
            if rv["r"] == "use":
                p = rv["o"].get("c") or rv["o"].get("m")
                if p and p["l"] == l:
                    return True
            if rv["r"] == "cast":
                p = rv["o"].get("c") or rv["o"].get("m")
                if p and p["l"] == l:
                    return True
    return False


def _check_mac_mobility_selector(prog, r):
    """The sequence number that ranks EVPN type-2 routes is read from the MAC Mobility extended community only: type 0x06 *and*
    sub-type 0x00 (RFC 7432 7.7).  The other EVPN communities share the type octet (ESI Label 0x01, ES-Import 0x02, Router's MAC
    0x03); reading their payload as a sequence number ranks paths by garbage."""
    from ..cfg import flat_guards
    ks = prog.find(r"rustybgp_packet::evpn::mac_mobility")
    if len(ks) != 1:
        r.unanalysable("evpn::mac_mobility anchor matched %d" % len(ks))
        return
    r.analysed(prog.name(ks[0]))
    sites = 0
    for kk in prog.with_closures(ks[0]):
        fv = FnView(prog, kk)
        brs = branches(fv, Renderer(fv, depth=10, through_names=True))
        for bi, si, st in fv.aggregates(None, "Some"):
            if not any(x.get("r") == "agg" for x in [st["rv"]]) or "u32" not in fv.f["locals"][st["p"]["l"]]:
                continue
            sites += 1
            pairs = set()
            for g, l, h in flat_guards(fv, bi, brs):
                if g[0] == "bin" and g[1] in ("Eq", "Ne") and ((g[1] == "Eq") == (l == {"true"})):
                    for a, b in ((g[2], g[3]), (g[3], g[2])):
                        a = strip(a)
                        if a[0] == "index" and strip(a[2])[0] == "const" and strip(b)[0] == "const":
                            pairs.add((strip(a[2])[1], strip(b)[1]))
                        if a[0] == "call" and a[1].endswith("Index::index") and strip(a[2][1])[0] == "const" and strip(b)[0] == "const":
                            pairs.add((strip(a[2][1])[1], strip(b)[1]))
            if {(0, 6), (1, 0)} <= pairs:
                r.ok("mac_mobility: the sequence number is read only under type octet 0x06 and sub-type octet 0x00")
            else:
                r.fail(prog.name(ks[0]), "mac-mobility-selector", "mac_mobility() yields a sequence number under the octet tests %s; it must require type 0x06 (octet 0) and sub-type 0x00 (octet 1): "
                       "otherwise ESI Label / ES-Import / Router's MAC communities are read as MAC Mobility and EVPN type-2 paths are ranked by their payload" % sorted(pairs), fv.loc(bi))
    if sites == 0:
        r.unanalysable("mac_mobility: no `Some((seq, sticky))` result found", FnView(prog, ks[0]).loc())
