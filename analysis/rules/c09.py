"""C09 — routes propagate only where BGP allows, with correct rewrites (structural clauses)."""
import re

from ..cfg import Renderer, walk, show, flat_guards, branches
from ..facts import callee_names, short
from ..sig import fn_tokens
from ..util import view, crate_fns, root_name, expr_calls, expr_fields, expr_vars, loops
from .c01 import arm_tokens, _arm, PNC

EXPLANATION = (
    "Static rules over daemon/src/event/export.rs and event/mod.rs (MIR): R09.1 the per-role rewrite matrix is extracted from "
    "export_attrs / pre_policy_defaults / export_nexthop (attribute codes filtered per PeerRole arm, AS_PATH transform calls, "
    "LOCAL_PREF injection, next-hop rule) and compared with the matrix in the property text; the match on PeerRole enumerates "
    "all five roles; R09.2 on every emission path the echo, iBGP split-horizon and route-server isolation filters were applied, "
    "export_attrs dominates sink.reach, reflection is guarded by (cluster id set and iBGP-learned), LLGR_STALE by the source "
    "flag; the suppress predicates have the stated truth tables; R09.3 inbound loop checks dominate installation (AS loop "
    "before rx_msg, ORIGINATOR_ID / CLUSTER_LIST before insert_route); R09.4 unknown attributes: transitive forwarded with "
    "Partial, non-transitive dropped, for every role. Decides rewrite structure, not AS_PATH byte contents.")
ASSUMPTIONS = ["Attribute::as_path_prepend / as_path_prepend_confed / as_path_strip_confed implement their names (covered by the repo's tests)"]

ROLES = ["Ebgp", "RsClient", "Ibgp", "IbgpRrClient", "ConfedEbgp"]
EA = r"rustybgpd::event::export::PeerExportContext::export_attrs"


def role_of(fv, b, brs=None):
    for g, l, h in flat_guards(fv, b, brs):
        if g[0] == "discr" and g[2] and g[2].endswith("PeerRole") and "role" in expr_fields(g):
            return frozenset(l)
    return None


def run(prog, rep, tier):
    r1 = rep.rule("R09.1", "per-role rewrite matrix of export_attrs / pre_policy_defaults / export_nexthop")
    fv = view(prog, prog.one(EA))
    r1.analysed(fv.name)
    brs = branches(fv)
    per = {}
    for b in sorted(fv.live):
        ro = role_of(fv, b, brs)
        if ro is None:
            continue
        d = per.setdefault(ro, {"calls": set(), "codes": set(), "toks": set()})
        t = fv.blocks[b]["t"]
        if t["t"] == "call":
            for n in callee_names(t):
                d["calls"].add(n)
        for s in fv.blocks[b]["s"]:
            rv = s.get("rv")
            if rv and rv["r"] == "agg" and rv.get("k") == "closure":
                ck = rv["def"]
                toks = fn_tokens(prog, ck, depth=0)
                d["toks"] |= toks
                cfv = view(prog, ck)
                for bb, br in branches(cfv).items():
                    if br.ty == "u8" and any(c.endswith("Attribute::code") for c in expr_calls(br.expr)):
                        # filter closure: the matched codes
                        if any(c.endswith("Iterator::filter") for c in _consumers(fv, s["p"]["l"])):
                            d["codes"] |= {v for v, _ in br.cases}
                for c in toks:
                    if c.startswith("call:"):
                        d["calls"].add(c[5:])
    # loop spelling of the same filter: `for a in attrs { match a.code() { 5 | 9 | 10 | 26 => {} .. => out.push(..) } }` — a code is
    # dropped when its case leads back to the loop head without a push of an Attribute
    lps = loops(fv)
    for bb, br in brs.items():
        if br.ty != "u8" or not any(c.endswith("Attribute::code") for c in expr_calls(br.expr)):
            continue
        ro = role_of(fv, bb, brs)
        inner = [(h, body) for h, body, backs in lps if bb in body]
        if ro is None or not inner:
            continue
        h, body = min(inner, key=lambda x: len(x[1]))
        d = per.setdefault(ro, {"calls": set(), "codes": set(), "toks": set()})
        for v, tgt in br.cases:
            region = fv._reach_from(tgt, {h}, set()) & body
            pushes = [b for b in region if fv.blocks[b]["t"]["t"] == "call" and any(n.endswith("::push") for n in callee_names(fv.blocks[b]["t"])) and "Attribute" in fv.blocks[b]["t"]["f"].get("ga", "")]
            if not pushes:
                d["codes"].add(v)
    groups = {frozenset({"RsClient"}): "RsClient", frozenset({"Ibgp", "IbgpRrClient"}): "Ibgp", frozenset({"ConfedEbgp"}): "ConfedEbgp", frozenset({"Ebgp"}): "Ebgp"}
    seen_roles = set()
    for ro in per:
        seen_roles |= set(ro)
    for want in groups:
        if want not in per:
            # RsClient arm may have no calls other than clone
            if want == frozenset({"RsClient"}) and all("RsClient" not in ro or ro == want for ro in per):
                continue
            r1.fail(fv.name, "role-arm:" + "+".join(sorted(want)), "export_attrs has no arm for exactly %s (arms found: %s): a catch-all arm would silently absorb a new role" % (sorted(want), [sorted(x) for x in per]), fv.loc())

    def has(ro, suffix):
        d = per.get(frozenset(ro), {"calls": set()})
        return any(c.endswith(suffix) for c in d["calls"])
    # Ebgp
    eb = per.get(frozenset({"Ebgp"}), {"codes": set(), "calls": set()})
    if eb["codes"] == {5, 9, 10, 26}:
        r1.ok("Ebgp: strips {LOCAL_PREF, ORIGINATOR_ID, CLUSTER_LIST, AIGP}")
    else:
        r1.fail(fv.name, "ebgp-strip-set", "towards eBGP peers the attribute codes %s are removed; the stated set is {5 LOCAL_PREF, 9 ORIGINATOR_ID, 10 CLUSTER_LIST, 26 AIGP}" % sorted(eb["codes"]), fv.loc())
    for suf, what in (("Attribute::as_path_strip_confed", "confederation segments removed"), ("Attribute::as_path_prepend", "local AS prepended")):
        if has({"Ebgp"}, suf):
            r1.ok("Ebgp: " + what)
        else:
            r1.fail(fv.name, "ebgp-aspath:" + suf.split("::")[-1], "towards eBGP peers %s is missing" % suf.split("::")[-1], fv.loc())
    n_prep = _count_calls_in_arm(prog, fv, {"Ebgp"}, "Attribute::as_path_prepend", brs)
    if n_prep == (1, 1):
        r1.ok("Ebgp: local AS prepended exactly once (map closure under code == AS_PATH, fallback under !has_as_path)")
    else:
        r1.fail(fv.name, "ebgp-prepend-count", "as_path_prepend call sites in the eBGP arm: %s in the attribute map, %s fallback (want 1 and 1, mutually exclusive)" % n_prep, fv.loc())
    if has({"Ebgp"}, "Attribute::as_path_prepend_confed") or has({"Ebgp"}, "inject_local_pref_if_absent"):
        r1.fail(fv.name, "ebgp-foreign-rewrite", "the eBGP arm applies an iBGP/confederation rewrite", fv.loc())
    # prepend_asn = confederation_id if != 0 else local_asn
    ok = False
    for l, n in fv.local_name.items():
        if n == "prepend_asn":
            flds = set()
            for bi, si, s in fv.defs().get(l, []):
                e = Renderer(fv, depth=6).rvalue(s["rv"], 6) if si != "t" else None
                if e:
                    flds |= set(expr_fields(e))
            ok = {"confederation_id", "local_asn"} <= flds
    if ok:
        r1.ok("Ebgp: prepended AS = confederation id if configured else local AS")
    else:
        r1.fail(fv.name, "ebgp-prepend-asn", "the AS prepended towards eBGP peers is not (confederation id | local AS)", fv.loc())
    # ConfedEbgp
    if has({"ConfedEbgp"}, "Attribute::as_path_prepend_confed") and not has({"ConfedEbgp"}, "Attribute::as_path_strip_confed") and not per.get(frozenset({"ConfedEbgp"}), {"codes": set()})["codes"]:
        r1.ok("ConfedEbgp: member AS prepended in a confed segment; nothing stripped")
    else:
        r1.fail(fv.name, "confed-rewrite", "the confed-eBGP arm does not (only) prepend the member AS in a confederation segment", fv.loc())
    # .. on both ways the AS_PATH can come about (rewritten in the attribute map, or created when the route has none)
    if has({"ConfedEbgp"}, "Attribute::as_path_prepend"):
        r1.fail(fv.name, "confed-plain-prepend", "the confed-eBGP arm prepends the member AS with as_path_prepend (an AS_SEQUENCE) on some path: the member AS then counts as a real hop and "
                "survives as_path_strip_confed at the next member; it belongs in an AS_CONFED_SEQUENCE (as_path_prepend_confed)", fv.loc())
    else:
        n_cp = _count_calls_in_arm(prog, fv, {"ConfedEbgp"}, "Attribute::as_path_prepend_confed", brs)
        if n_cp == (1, 1):
            r1.ok("ConfedEbgp: member AS prepended in a confed segment exactly once (attribute map and AS_PATH-less fallback)")
        else:
            r1.fail(fv.name, "confed-prepend-count", "as_path_prepend_confed call sites in the confed-eBGP arm: %s in the attribute map, %s fallback (want 1 and 1, mutually exclusive)" % n_cp, fv.loc())
    # Ibgp
    if has({"Ibgp", "IbgpRrClient"}, "inject_local_pref_if_absent") and not any(has({"Ibgp", "IbgpRrClient"}, s) for s in ("as_path_prepend", "as_path_prepend_confed", "as_path_strip_confed")):
        r1.ok("Ibgp/IbgpRrClient: LOCAL_PREF injected if absent, AS_PATH untouched")
    else:
        r1.fail(fv.name, "ibgp-rewrite", "the iBGP arm does not (only) inject LOCAL_PREF", fv.loc())
    # RsClient: no rewrite calls
    rs = per.get(frozenset({"RsClient"}), {"calls": set(), "codes": set()})
    if not any(re.search(r"as_path_|inject_local_pref", c) for c in rs["calls"]) and not rs["codes"]:
        r1.ok("RsClient: attributes passed through")
    else:
        r1.fail(fv.name, "rs-rewrite", "the route-server-client arm rewrites attributes", fv.loc())
    # pre_policy_defaults: MED removed for Ebgp only
    pv = view(prog, prog.one(r"rustybgpd::event::export::PeerExportContext::pre_policy_defaults"))
    r1.analysed(pv.name)
    ret = [b for b, t in pv.calls(re.compile(r".*Vec::<T, A>::retain"))]
    okmed = False
    for b in ret:
        for g, l, h in flat_guards(pv, b):
            if g[0] == "call" and re.search(r"PartialEq(>)?::eq$", g[1]) and "role" in expr_fields(g) and l == {"true"} and any(isinstance(x, tuple) and x and x[0] == "const" and x[3] == "Ebgp" for x in walk(g)):
                okmed = True
    toks = set()
    for kk in prog.with_closures(pv.key):
        toks |= fn_tokens(prog, kk, depth=0)
    if okmed and any(re.fullmatch(r"const:.*Attribute::MULTI_EXIT_DESC", t) for t in toks):
        r1.ok("pre_policy_defaults: received MED removed for eBGP peers only")
    else:
        r1.fail(pv.name, "med-strip", "a received MED is not removed (only) towards eBGP peers before export policy", pv.loc())
    # export_nexthop
    # the next-hop rule lives in export_nexthop, or (helper inlined) in its only caller pre_policy_defaults
    _nk = prog.find(r"rustybgpd::event::export::PeerExportContext::export_nexthop") or prog.find(r"rustybgpd::event::export::PeerExportContext::pre_policy_defaults")
    if not _nk:
        raise __import__("analysis.facts", fromlist=["AnchorError"]).AnchorError("neither export_nexthop nor pre_policy_defaults found")
    nv = view(prog, _nk[0])
    r1.analysed(nv.name)
    # decision table over the entry->return paths: for a peer-learned route (is_local false) that has a stored next hop, the
    # value left in *nexthop is the stored one for RsClient / Ibgp / IbgpRrClient and the local address for Ebgp / ConfedEbgp.
    # (match on a tuple, guard clauses, let-else: all the same table)
    from ..paths import enumerate_paths, PathLimit
    ROLES = {"RsClient", "Ibgp", "IbgpRrClient", "ConfedEbgp", "Ebgp"}
    # parameters by type: the `&mut Option<Nexthop>` being rewritten and the (last) bool `is_local`
    NH = next((i for i in range(1, nv.f["argc"] + 1) if "&mut" in nv.f["locals"][i] and "Option<" in nv.f["locals"][i] and "Nexthop" in nv.f["locals"][i]), 2)
    LOC = max([i for i in range(1, nv.f["argc"] + 1) if nv.f["locals"][i] == "bool"] or [4])
    nh_name, loc_name = nv.local_name.get(NH), nv.local_name.get(LOC)
    try:
        npaths = enumerate_paths(nv, Renderer(nv, depth=12), max_paths=20000)
    except PathLimit:
        npaths = None
        r1.unanalysable("export_nexthop: too many paths", nv.loc())
    keep, selfnh, probs = set(), set(), []
    for conds, blocks, env in (npaths or []):
        has_nh = is_loc = None
        roles = set(ROLES)
        for br, labels in conds:
            e, lab = br.expr, set(labels)
            if e[0] == "discr" and e[2] and e[2].endswith("PeerRole") and "else" not in lab:
                roles &= lab
            elif e[0] == "discr" and nh_name in expr_vars(e) and lab <= {"Some", "None"} and len(lab) == 1 and not expr_calls(e):
                has_nh = (lab == {"Some"}) if has_nh is None else has_nh
            elif e[0] == "var" and e[1] == loc_name and len(lab) == 1:
                is_loc = (lab == {"true"}) if is_loc is None else is_loc
        if has_nh is not True or is_loc is True or not roles:
            continue
        # last write to *nexthop on this path
        pos = {b: i for i, b in enumerate(blocks)}
        act = "keep"
        last = None
        for b in blocks:
            for s_ in nv.blocks[b]["s"]:
                if "rv" in s_ and s_["p"]["l"] == NH and s_["p"].get("p") == ["*"]:
                    last = s_
        if last is not None:
            # follow the value to its definition on this path
            rv_ = last["rv"]
            hops = 0
            while hops < 8:
                hops += 1
                if rv_["r"] == "use":
                    q = rv_["o"].get("c") or rv_["o"].get("m")
                    if q is None:
                        break
                    if q["l"] == NH:
                        act = "keep"
                        break
                    ds = [d for d in nv.defs().get(q["l"], []) if d[0] in pos]
                    if not ds:
                        break
                    bi2, si2, st2 = max(ds, key=lambda d: pos[d[0]])
                    if si2 == "t":
                        act = "self"
                        break
                    rv_ = st2["rv"]
                    continue
                if rv_["r"] == "agg" and rv_.get("v") == "Some":
                    fo = rv_["fields"][0]
                    q = fo.get("c") or fo.get("m")
                    if q is None:
                        act = "?"
                        break
                    if q["l"] == NH:
                        act = "keep"
                        break
                    ds = [d for d in nv.defs().get(q["l"], []) if d[0] in pos]
                    if not ds:
                        act = "?"
                        break
                    bi2, si2, st2 = max(ds, key=lambda d: pos[d[0]])
                    if si2 == "t":
                        act = "self"          # the value of a call: the `local()` closure / helper building the local address
                        break
                    rv_ = st2["rv"]
                    continue
                if rv_["r"] == "agg" and rv_.get("v") == "None":
                    act = "none"
                if rv_["r"] == "agg" and str(rv_.get("adt") or rv_.get("adtn") or "").endswith("Nexthop"):
                    # a next hop built in place (`let self_nexthop = match self.local_addr {..}` computed up front): whose
                    # address is it made of?
                    rn_ = Renderer(nv, depth=12, through_names=True)
                    fl = set()
                    for fo_ in rv_["fields"]:
                        fl |= set(expr_fields(rn_.operand(fo_, 12)))
                    if "local_addr" in fl:
                        act = "self"
                break
        if act == "self":
            selfnh |= roles
        elif act == "keep":
            keep |= roles
        else:
            probs.append((sorted(roles), act))
    if npaths is not None:
        if keep == {"RsClient", "Ibgp", "IbgpRrClient"} and selfnh == {"ConfedEbgp", "Ebgp"} and not probs:
            r1.ok("export_nexthop: peer-learned next hop kept for RsClient/Ibgp/IbgpRrClient, self for Ebgp/ConfedEbgp")
        else:
            r1.fail(nv.name, "nexthop-matrix", "next-hop rule by role: unchanged for %s, self for %s%s (want unchanged {Ibgp, IbgpRrClient, RsClient}, self {Ebgp, ConfedEbgp})"
                    % (sorted(keep), sorted(selfnh), (", unreadable: %s" % probs[:2]) if probs else ""), nv.loc())

    r2 = rep.rule("R09.2", "filters and rewrites on every emission path; suppress predicates have the stated truth tables")
    check_emit(prog, r2)
    # the non-add-path and the add-path arm of process_nlri_change apply the same propagation filters (shared with C01 R01.3)
    from . import c01 as _c01
    _c01.check_arms(prog, view(prog, prog.one(_c01.PNC)), r2)
    r3 = rep.rule("R09.3", "inbound loop checks dominate installation")
    check_inbound(prog, r3)
    r4 = rep.rule("R09.4", "unknown attributes: transitive -> Partial, non-transitive -> dropped, for every role")
    check_opaque(prog, fv, brs, r4)


def _consumers(fv, local):
    out = []
    for b, t in fv.calls():
        for a in t["args"]:
            p = a.get("m") or a.get("c")
            if p and p["l"] == local and not p.get("p"):
                out += callee_names(t)
    return out


def _count_calls_in_arm(prog, fv, role, suffix, brs):
    """(sites applied per attribute: in a map closure or inside a loop of the arm, sites in the arm's straight-line code)"""
    in_map = in_body = 0
    lps = loops(fv)
    for b in sorted(fv.live):
        ro = role_of(fv, b, brs)
        if ro != frozenset(role):
            continue
        t = fv.blocks[b]["t"]
        if t["t"] == "call" and any(n.endswith(suffix) for n in callee_names(t)):
            if any(b in body and role_of(fv, h, brs) == frozenset(role) for h, body, backs in lps):
                in_map += 1
            else:
                in_body += 1
        for s in fv.blocks[b]["s"]:
            rv = s.get("rv")
            if rv and rv["r"] == "agg" and rv.get("k") == "closure":
                cfv = view(prog, rv["def"])
                in_map += len([1 for bb, tt in cfv.calls() if any(n.endswith(suffix) for n in callee_names(tt))])
    return (in_map, in_body)


def check_emit(prog, r):
    fv = view(prog, prog.one(PNC))
    r.analysed(fv.name)
    arms = arm_tokens(prog, fv)
    for a in ("plain", "addpath"):
        for w in ("ibgp_split_horizon_suppress", "rs_isolation_suppress"):
            if any(t.endswith(w) for t in arms[a] if t.startswith("call:")):
                r.ok("%s arm applies %s" % (a, w))
            else:
                r.fail(fv.name, "emit-without:%s@%s" % (w, a), "the %s arm can emit a route without %s" % (a, w), fv.loc())
    reaches = fv.calls(re.compile(r"rustybgpd::event::export::NlriSink::reach"))
    ea = [b for b, t in fv.calls(re.compile(re.escape(EA)))]
    for b, t in reaches:
        if fv.dominated_by_any(b, ea):
            r.ok("sink.reach @%d dominated by export_attrs" % fv.line(b))
        else:
            r.fail(fv.name, "reach-without-export_attrs@" + _arm(fv, b), "a route can be emitted without the per-role attribute rewrite", fv.loc(b))
    # reflection and LLGR guards (in the function body or its closures)
    for callee, need in (("rr_reflect_attrs", ("cluster_id", "is_ibgp_learned")), ("with_llgr_stale_community", ("is_llgr_stale",))):
        n = 0
        for kk in prog.with_closures(fv.key):
            kv = view(prog, kk)
            for b, t in kv.calls(re.compile(r"rustybgpd::event::export::" + callee)):
                n += 1
                txt = " ".join(show(g, 200) + ":" + "|".join(sorted(l)) for g, l, h in flat_guards(kv, b))
                miss = [x for x in need if x not in txt]
                if miss:
                    r.fail(fv.name, "%s-guard" % callee, "%s is applied without testing %s" % (callee, miss), kv.loc(b))
                else:
                    r.ok("%s guarded by %s" % (callee, ", ".join(need)))
        if n < 2:
            r.unanalysable("%s: %d call sites in process_nlri_change (want one per arm)" % (callee, n), fv.loc())
    # truth tables of the suppress predicates (analysis/predicates.py)
    from .. import predicates
    ROLES = ["RsClient", "Ibgp", "IbgpRrClient", "ConfedEbgp", "Ebgp"]
    ik = prog.one(r"rustybgpd::event::export::ibgp_split_horizon_suppress")
    r.analysed(prog.name(ik))

    def cls_sh(e, labels, fvx):
        lab = set(labels)
        calls = expr_calls(e)
        if e[0] == "discr" and e[2] and e[2].endswith("PeerRole") and "else" not in lab:
            return ("dest", frozenset(lab))
        if e[0] == "call" and re.search(r"PartialEq(>)?::(eq|ne)$", e[1]) and "PeerRole" in (e[5] or "") and len(lab) == 1 and lab <= {"true", "false"}:
            c = [x[3] for x in walk(e) if isinstance(x, tuple) and x and x[0] == "const" and x[3] in ROLES]
            c += [x[2] for x in walk(e) if isinstance(x, tuple) and x and x[0] == "agg" and x[2] in ROLES]
            if len(c) == 1:
                same = e[1].endswith("::eq") == (lab == {"true"})
                return ("dest", frozenset({c[0]}) if same else frozenset(set(ROLES) - {c[0]}))
        if len(lab) == 1 and lab <= {"true", "false"}:
            t_ = lab == {"true"}
            if e[0] == "call" and e[1].endswith("is_ibgp_learned"):
                return ("ibgp_learned", t_)
            if e[0] == "call" and e[1].endswith("Source::is_rr_client"):
                return ("from_client", t_)
            if e[0] == "call" and re.search(r"Option::<T>::is_(some|none)$", e[1]) and "Ipv4Addr" in (e[4] or "") + (e[5] or ""):
                return ("reflector", t_ == e[1].endswith("is_some"))
        if e[0] == "discr" and e[2] and e[2].endswith("Option") and lab <= {"Some", "None"} and len(lab) == 1 and not calls:
            return ("reflector", lab == {"Some"})
        return None
    rws, iv = predicates.rows(prog, ik, cls_sh)
    uni = {"dest": ROLES, "ibgp_learned": [False, True], "reflector": [False, True], "from_client": [False, True]}
    spec_sh = lambda v: v["dest"] in ("Ibgp", "IbgpRrClient") and v["ibgp_learned"] and ((not v["reflector"]) or ((not v["from_client"]) and v["dest"] == "Ibgp"))
    if rws is None:
        r.unanalysable("ibgp_split_horizon_suppress: too many paths", iv.loc())
    else:
        unk = sorted({u for f_, res_, us in rws for u in us})
        bad = predicates.counterexamples(rws, uni, spec_sh)
        if unk:
            r.unanalysable("ibgp_split_horizon_suppress: conditions not understood: %s" % [u[0] for u in unk][:3], iv.loc())
        elif bad:
            kind, v, res_ = bad[0]
            if kind != "mismatch":
                r.unanalysable("ibgp_split_horizon_suppress: a path's result could not be read", iv.loc())
            else:
                clause = ("only-iBGP-receivers-are-subject-" if v["dest"] not in ("Ibgp", "IbgpRrClient") else
                          "only-iBGP-learned-paths-are-supp" if not v["ibgp_learned"] else
                          "plain-iBGP-(no-cluster-id)" if not v["reflector"] else "route-reflector")
                r.fail(iv.name, "split-horizon:" + clause, "ibgp_split_horizon_suppress answers %s for receiver %s, iBGP-learned=%s, reflector=%s, from client=%s (want: suppress iBGP-learned paths "
                       "towards iBGP receivers, except on a reflector where only non-client -> non-client is suppressed)" % (res_, v["dest"], v["ibgp_learned"], v["reflector"], v["from_client"]), iv.loc())
        else:
            r.ok("ibgp_split_horizon_suppress: truth table over (receiver role, iBGP-learned, reflector, from client) equals the stated rule (%d paths)" % len(rws))
    # is_ibgp_learned feeds split horizon and reflection: it must hold for paths learned from *every* kind of iBGP neighbour
    # (plain and route-reflector client alike): decided by AS equality, or by a role test that names both iBGP roles
    lk_ = prog.find(r"rustybgpd::event::export::is_ibgp_learned")
    if len(lk_) == 1:
        r.analysed(prog.name(lk_[0]))

        def cls_l(e, labels, fvx):
            lab = set(labels)
            if e[0] == "discr" and e[2] and e[2].endswith("PeerRole") and "else" not in lab:
                return ("role", frozenset(lab))
            if e[0] == "call" and re.search(r"PartialEq(>)?::(eq|ne)$", e[1]) and "PeerRole" in (e[5] or "") and len(lab) == 1 and lab <= {"true", "false"}:
                c = [x[3] for x in walk(e) if isinstance(x, tuple) and x and x[0] == "const" and x[3] in ROLES]
                if len(c) == 1:
                    same = e[1].endswith("::eq") == (lab == {"true"})
                    return ("role", frozenset({c[0]}) if same else frozenset(set(ROLES) - {c[0]}))
            if len(lab) == 1 and lab <= {"true", "false"}:
                t_ = lab == {"true"}
                if e[0] == "call" and e[1].endswith("Source::is_local"):
                    return ("local", t_)
                if e[0] == "bin" and e[1] in ("Eq", "Ne") and {"remote_asn", "local_asn"} <= set(expr_fields(e)):
                    return ("same_as", t_ == (e[1] == "Eq"))
            return None
        rws, lv_ = predicates.rows(prog, lk_[0], cls_l)
        if rws is None:
            r.unanalysable("is_ibgp_learned: too many paths", lv_.loc())
        else:
            unk = sorted({u for f_, res_, us in rws for u in us})
            uses_role = any("role" in f_ for f_, res_, us in rws)
            spec_l = (lambda v: (not v["local"]) and v["role"] in ("Ibgp", "IbgpRrClient")) if uses_role else (lambda v: (not v["local"]) and v["same_as"])
            uni_l = {"local": [False, True], "role": ROLES} if uses_role else ["local", "same_as"]
            bad = predicates.counterexamples(rws, uni_l, spec_l)
            if unk:
                r.unanalysable("is_ibgp_learned: conditions not understood: %s" % [u[0] for u in unk][:3], lv_.loc())
            elif bad:
                kind, v, res_ = bad[0]
                r.fail(lv_.name, "ibgp-learned-predicate", "is_ibgp_learned answers %s for %s: a path counts as iBGP-learned iff its (non-local) source is an iBGP neighbour of either kind "
                       "(Ibgp or IbgpRrClient / remote AS = local AS); otherwise client-learned routes are reflected without ORIGINATOR_ID / CLUSTER_LIST" % (res_, v), lv_.loc())
            else:
                r.ok("is_ibgp_learned: true exactly for non-local sources that are iBGP neighbours (%s)" % ("both iBGP roles" if uses_role else "remote AS = local AS"))
    else:
        r.unanalysable("is_ibgp_learned anchor matched %d" % len(lk_))
    rv_ = view(prog, prog.one(r"rustybgpd::event::export::rs_isolation_suppress"))
    r.analysed(rv_.name)
    e = Renderer(rv_, depth=12).local(0, 12)
    s_ = show(e, 300)
    toks = fn_tokens(prog, rv_.key, depth=0)
    if any(t.endswith("Source::is_rs_client") for t in toks if t.startswith("call:")) and (e[0] == "bin" and e[1] == "Ne" or "!=" in s_):
        r.ok("rs_isolation_suppress: source-is-RS-client XOR receiver-is-RS-client")
    else:
        r.fail(rv_.name, "rs-isolation-table", "rs_isolation_suppress is no longer (source is RS client) != (receiver is RS client): %s" % s_[:100], rv_.loc())


def check_inbound(prog, r):
    rs = prog.one(r"rustybgpd::event::PeerSession::run_select")
    from ..util import body_holding
    fv = body_holding(prog, rs, r"rustybgpd::event::PeerSession::rx_msg")
    r.analysed(prog.name(rs))
    rx = fv.calls(re.compile(r"rustybgpd::event::PeerSession::rx_msg"))
    lo = fv.calls(re.compile(r"rustybgpd::event::export::is_as_loop"))
    if not rx or not lo:
        r.fail(prog.name(rs), "no-as-loop-check", "run_select hands messages to rx_msg without an AS-loop check", fv.loc())
    else:
        lb = [b for b, t in lo]
        # only Update::Reach messages need the test: slice the CFG to the paths on which msg is Update(Reach{..})
        sl = set()
        for bb, br in branches(fv).items():
            if br.expr[0] == "discr" and br.adt and (br.adt.endswith("bgp::Message") or br.adt.endswith("bgp::Update")) and any(fv.dominates(bb, x) for x in lb):
                want = "Update" if br.adt.endswith("bgp::Message") else "Reach"
                for v, tgt in br.cases + [("else", br.otherwise)]:
                    if want not in ({br.label(prog, v)} if v != "else" else {"else"}):
                        sl.add((bb, v, tgt))
        if all(b not in fv.reach(fv.entry, lb, sl) for b, t in rx):
            # and the looping side skips rx_msg: rx_msg not reachable on the true edge of the loop test without returning to the loop head
            r.ok("run_select: is_as_loop dominates rx_msg")
        else:
            r.fail(prog.name(rs), "as-loop-after-install", "a received route can reach rx_msg without passing the AS-loop check", fv.loc(rx[0][0]))
        # ... and a looped announcement does not reach rx_msg as an announcement: on the `true` outcome of the test either rx_msg
        # is skipped, or the message handed over is rebuilt as a route-less UPDATE (the FSM still has to see that an UPDATE
        # arrived, C08) and the original message cannot flow into the call
        from ..cfg import bool_edges
        lbr = [(bb, br) for bb, br in branches(fv).items() if br.expr[0] == "call" and br.expr[1].endswith("export::is_as_loop")]
        if not lbr:
            lbr = [(bb, br) for bb, br in branches(fv, Renderer(fv, depth=10, through_names=True)).items() if any(c.endswith("export::is_as_loop") for c in expr_calls(br.expr)) and br.ty == "bool"]
        if not lbr:
            r.unanalysable("run_select: the branch on is_as_loop(..) was not found", fv.loc(lb[0]))
        for bb, br in lbr:
            for (x_, y_) in bool_edges(fv, br, True):
                reached = [b for b, t in rx if b == y_ or b in fv.reach(y_)]
                # rx_msg calls reachable before the next loop iteration (do not go round through the message loop again)
                direct = [b for b in reached if b in fv.reach(y_, {bb})]
                if not direct:
                    r.ok("run_select: a looped announcement skips rx_msg")
                    continue
                rebuilt = False
                for b2 in sorted(fv.reach(y_, set(direct) | {bb}) | {y_}):
                    for s2 in fv.blocks[b2]["s"]:
                        rv2 = s2.get("rv")
                        if rv2 and rv2["r"] == "agg" and rv2.get("v") == "Unreach" and str(rv2.get("adtn", "")).endswith("bgp::Update"):
                            rebuilt = True
                if rebuilt:
                    r.ok("run_select: a looped announcement is handed to the FSM as a route-less UPDATE (no route of it reaches rx_update)")
                else:
                    r.fail(prog.name(rs), "as-loop-after-install", "on the `AS loop detected` outcome the received announcement still reaches rx_msg unchanged: the looped route is installed", fv.loc(bb))
        # the check's arguments: local_asn and confederation_id
        e = Renderer(fv, depth=8)
        t = lo[0][1]
        a1, a2 = e.operand(t["args"][1], 8), e.operand(t["args"][2], 8)
        if "local_asn" in expr_fields(a1) and "confederation_id" in expr_fields(a2):
            r.ok("is_as_loop(local_asn, confederation_id)")
        else:
            r.fail(prog.name(rs), "as-loop-args", "is_as_loop is not given (local AS, confederation id)", fv.loc(lo[0][0]))
    # the predicate itself, as a truth table over its paths (analysis/predicates.py): true iff an AS_PATH is present and it
    # contains the local (member) AS, or a confederation identifier is configured, differs from the local AS and is contained
    from .. import predicates
    lk = prog.one(r"rustybgpd::event::export::is_as_loop")
    r.analysed(prog.name(lk))

    def _who(e, fvx):
        ln, cn = fvx.local_name.get(2), fvx.local_name.get(3)
        who = "?"
        for x in walk(e):
            if isinstance(x, tuple) and x and x[0] == "call" and x[1].endswith("Attribute::as_path_count") and len(x[2]) > 1:
                vs = set(expr_vars(x[2][1]))
                who = "l" if vs == {ln} else ("c" if vs == {cn} else "?")
        return who

    def cls_loop(e, labels, fvx):
        ln, cn = fvx.local_name.get(2), fvx.local_name.get(3)
        lab = set(labels)
        calls = expr_calls(e)
        if e[0] == "discr" and any(c.endswith("Attribute::as_path_count") for c in calls) and lab <= {"Ok", "Err"} and len(lab) == 1:
            return ("ok_" + _who(e, fvx), lab == {"Ok"})
        if e[0] == "discr" and any(c.endswith("Iterator::find") or c.endswith("Iterator::position") for c in calls) and lab <= {"Some", "None"} and len(lab) == 1:
            return ("has_aspath", lab == {"Some"})
        if e[0] == "call" and re.search(r"Option::<T>::is_(some|none)$", e[1]) and any(c.endswith("Iterator::find") for c in calls) and len(lab) == 1:
            return ("has_aspath", (lab == {"true"}) == e[1].endswith("is_some"))
        if e[0] == "call" and re.search(r"Result::<T, E>::is_(ok|err)$", e[1]) and any(c.endswith("Attribute::as_path_count") for c in calls) and len(lab) == 1:
            return ("ok_" + _who(e, fvx), (lab == {"true"}) == e[1].endswith("is_ok"))
        # explicit search loop: `for a in attr { if a.code() == AS_PATH { found = Some(a); break } }`
        if e[0] == "discr" and any(c.endswith("Iterator::next") for c in calls) and not any(c.endswith("Attribute::as_path_count") for c in calls) and lab <= {"Some", "None"} and len(lab) == 1:
            return ("has_aspath", False) if lab == {"None"} else "skip"
        if e[0] == "bin" and e[1] in ("Eq", "Ne") and any(c.endswith("Attribute::code") for c in calls) and len(lab) == 1 and lab <= {"true", "false"}:
            cs_ = [x[1] for x in (e[2], e[3]) if isinstance(x, tuple) and x and x[0] == "const"]
            if cs_ == [2]:
                hit = (e[1] == "Eq") == (lab == {"true"})
                return ("has_aspath", True) if hit else "skip"
        if e[0] == "bin" and e[1] in ("Gt", "Ne", "Eq", "Ge", "Lt", "Le") and len(lab) == 1 and lab <= {"true", "false"}:
            t_ = lab == {"true"}
            consts = [x[1] for x in (e[2], e[3]) if isinstance(x, tuple) and x and x[0] == "const"]
            if any(c.endswith("Attribute::as_path_count") for c in calls):
                if e[1] in ("Gt", "Ne") and consts == [0]:
                    return ("pos_" + _who(e, fvx), t_)
                if e[1] == "Eq" and consts == [0]:
                    return ("pos_" + _who(e, fvx), not t_)
                if e[1] == "Ge" and consts == [1]:
                    return ("pos_" + _who(e, fvx), t_)
                return None
            vs = set(expr_vars(e))
            if vs == {cn} and consts == [0] and e[1] in ("Ne", "Eq", "Gt"):
                return ("confed_nonzero", t_ if e[1] in ("Ne", "Gt") else not t_)
            if vs == {cn, ln} and e[1] in ("Ne", "Eq"):
                return ("confed_ne_local", t_ if e[1] == "Ne" else not t_)
        return None
    rws, lv = predicates.rows(prog, lk, cls_loop)
    uni = ["has_aspath", "ok_l", "pos_l", "confed_nonzero", "confed_ne_local", "ok_c", "pos_c"]
    spec = lambda v: v["has_aspath"] and ((v["ok_l"] and v["pos_l"]) or (v["confed_nonzero"] and v["confed_ne_local"] and v["ok_c"] and v["pos_c"]))
    if rws is None:
        r.unanalysable("is_as_loop: too many paths", lv.loc())
    else:
        odd = sorted({a for f_, res_, unk in rws for a in f_ if a not in uni})
        unk = sorted({u for f_, res_, us in rws for u in us})
        bad = predicates.counterexamples(rws, uni + odd, spec)
        if not bad and not unk:
            r.ok("is_as_loop: true iff the AS_PATH contains the local AS, or a configured confederation identifier different from it (truth table over %d paths)" % len(rws))
        elif not bad:
            r.unanalysable("is_as_loop: conditions not understood: %s" % [u[0] for u in unk][:3], lv.loc())
        else:
            kind, v, res_ = bad[0]
            missed_local = kind == "mismatch" and res_ is False and v.get("ok_l") and v.get("pos_l")
            r.fail(lv.name, "as-loop-predicate:" + ("no-local-asn" if missed_local or odd else "no-confederation-id"),
                   "is_as_loop answers %s for %s: inside a confederation the AS_PATH must be checked for the member AS (always) and for the confederation identifier "
                   "(when configured and different)" % (res_, {k_: v_ for k_, v_ in sorted(v.items())} if kind == "mismatch" else v), lv.loc())
    # the CLUSTER_LIST loop check is keyed on the session's cluster_id: every iBGP session of a reflector needs one
    # (a looped route can come back through a non-client iBGP peer just as well as through a client)
    ak = prog.one(r"rustybgpd::event::accept_connection")
    av = view(prog, prog.body_key(ak))
    r.analysed(prog.name(ak))
    abrs = branches(av)
    some_roles, n_cid = set(), 0
    for l_, nm_ in av.local_name.items():
        if nm_ != "cluster_id":
            continue
        for bi, si, s_ in av.defs().get(l_, []):
            if bi not in av.live:
                continue
            is_some = (si != "t" and s_["rv"]["r"] == "agg" and s_["rv"].get("v") == "Some") or si == "t"
            roles = set()
            for g, ll, h in flat_guards(av, bi, abrs):
                if g[0] == "discr" and g[2] and g[2].endswith("PeerRole"):
                    roles |= set(ll)
            n_cid += 1
            if is_some and roles:
                some_roles |= roles
    if n_cid == 0:
        r.unanalysable("accept_connection: the per-session cluster_id definition was not found", av.loc())
    elif {"Ibgp", "IbgpRrClient"} <= some_roles and not (some_roles & {"Ebgp", "RsClient", "ConfedEbgp"}):
        r.ok("accept_connection: cluster_id is set for Ibgp and IbgpRrClient sessions (CLUSTER_LIST loop check active on both)")
    else:
        r.fail(prog.name(ak), "cluster-id-roles", "the session's cluster_id is set for roles %s: the CLUSTER_LIST loop check in rx_update only runs where it is set, so it must cover every iBGP "
               "session (Ibgp and IbgpRrClient) and no eBGP one" % sorted(some_roles), av.loc())
    ru = prog.one(r"rustybgpd::event::PeerSession::rx_update")
    r.analysed(prog.name(ru))
    # Reflection loop tests (RFC 4456 section 8) on the expanded body (is_some_and / closures in place): a test T is the branch
    # that compares the ORIGINATOR_ID attribute's value, resp. searches the CLUSTER_LIST chunks.  Necessary: (a) T's "loop"
    # outcome never reaches insert_route, (b) on every path to insert_route on which T's own preconditions hold (attribute
    # present, cluster id configured, ..) T is evaluated.  The names of the locals and the spelling (flags, early returns,
    # if-let chains) do not matter.
    from ..util import view_deep
    from ..cfg import bool_edges
    uv = view_deep(prog, prog.body_key(ru))
    ubrs = branches(uv, Renderer(uv, depth=14, through_names=True))
    ins = [b for b, t in uv.calls(re.compile(r"rustybgpd::table_manager::TableManager::insert_route"))]
    if not ins:
        r.unanalysable("rx_update: no insert_route call", uv.loc())
        return

    def find_code(e):
        """Attribute code constant tested by the closure of an Iterator::find / position inside `e`."""
        for x in walk(e):
            ck = None
            if isinstance(x, tuple) and x and x[0] == "agg" and x[1] == "closure":
                ck = x[2]
            if isinstance(x, tuple) and x and x[0] == "call" and x[1].startswith("closure::"):
                ck = x[1][len("closure::"):]
            if ck and ck in prog.ix:
                for c_ in fn_tokens(prog, ck, depth=0):
                    m_ = re.fullmatch(r"const:.*Attribute::(ORIGINATOR_ID|CLUSTER_LIST)", c_)
                    if m_:
                        return m_.group(1)
        return None
    from ..paths import enumerate_paths, PathLimit
    try:
        upaths = enumerate_paths(uv, Renderer(uv, depth=14, through_names=True), max_paths=60000)
    except PathLimit:
        r.unanalysable("rx_update: too many paths for the reflection-loop table", uv.loc())
        return

    def cls(e, labels):
        lab = set(labels)
        if len(lab) != 1:
            return None
        code = find_code(e)
        calls = expr_calls(e)
        if code and e[0] == "bin" and e[1] in ("Eq", "Ne") and any(c.endswith("Attribute::value") for c in calls) and lab <= {"true", "false"}:
            return ("loop:" + code, (e[1] == "Eq") == (lab == {"true"}))
        if code and e[0] == "call" and e[1].endswith("Iterator::any") and lab <= {"true", "false"}:
            return ("loop:" + code, lab == {"true"})
        if code and e[0] == "discr" and lab <= {"Some", "None"} and any(c.endswith("Iterator::find") for c in calls) and not any(c.endswith("Attribute::binary") for c in calls):
            return ("present:" + code, lab == {"Some"})
        if code and e[0] == "call" and re.search(r"Option::<T>::is_(some|none)$", e[1]) and lab <= {"true", "false"} and not any(c.endswith("Attribute::binary") for c in calls):
            return ("present:" + code, (lab == {"true"}) == e[1].endswith("is_some"))
        if code == "CLUSTER_LIST" and e[0] == "discr" and any(c.endswith("Attribute::binary") for c in calls) and lab <= {"Some", "None"}:
            return ("bytes:" + code, lab == {"Some"})
        if e[0] == "discr" and "cluster_id" in expr_fields(e) and lab <= {"Some", "None"} and not calls:
            return ("cid", lab == {"Some"})
        if e[0] == "call" and re.search(r"Option::<T>::is_(some|none)$", e[1]) and "cluster_id" in expr_fields(e) and not [c for c in calls if c != e[1]]:
            return ("cid", (lab == {"true"}) == e[1].endswith("is_some"))
        return None
    n_ins, probs, seen_tests = 0, {}, set()
    for conds, blocks, env in upaths:
        hit = [b for b in blocks if b in ins]
        if not hit:
            continue
        n_ins += 1
        upto = set(blocks[:blocks.index(hit[0])])
        facts = {}
        for br, labels in conds:
            if br.bi not in upto:
                continue
            a = cls(br.expr, labels)
            if a:
                facts.setdefault(a[0], a[1])
        seen_tests |= {k_ for k_ in facts if k_.startswith("loop:")}
        if facts.get("loop:ORIGINATOR_ID") is True:
            probs.setdefault("installed-although-originator-loop", facts)
        if facts.get("loop:CLUSTER_LIST") is True:
            probs.setdefault("installed-although-cluster-loop", facts)
        if facts.get("present:ORIGINATOR_ID") is True and "loop:ORIGINATOR_ID" not in facts:
            probs.setdefault("originator-test-skipped", facts)
        if facts.get("cid") is True and facts.get("present:CLUSTER_LIST") is True and facts.get("bytes:CLUSTER_LIST", True) is True and "loop:CLUSTER_LIST" not in facts:
            probs.setdefault("cluster-test-skipped", facts)
    if n_ins == 0:
        r.unanalysable("rx_update: no path reaches insert_route", uv.loc())
    for code, what in (("ORIGINATOR_ID", "the ORIGINATOR_ID equals the local router id"), ("CLUSTER_LIST", "the CLUSTER_LIST contains the local cluster id")):
        if "loop:" + code not in seen_tests and not probs:
            probs.setdefault("no-test:" + code, {})
    if probs:
        k0 = sorted(probs)[0]
        r.fail(prog.name(ru), "reflection-loop-check", "insert_route is reachable %s (%s): a route reflected back to this router is installed" %
               ({"installed-although-originator-loop": "although the ORIGINATOR_ID equals the local router id", "installed-although-cluster-loop": "although the CLUSTER_LIST contains the local cluster id",
                 "originator-test-skipped": "with an ORIGINATOR_ID present but never compared with the local router id", "cluster-test-skipped": "with a cluster id configured and a CLUSTER_LIST present that is never searched"}.get(k0, "without the %s test" % k0.split(":")[-1]),
                sorted(probs[k0].items())), uv.loc(ins[0]))
    else:
        r.ok("rx_update: over %d paths to insert_route, none with ORIGINATOR_ID = local router id or the local cluster id in CLUSTER_LIST; both tests are evaluated whenever the attribute is present" % n_ins)
    return
    uv = view(prog, prog.body_key(ru))
    r.analysed(prog.name(ru))
    ins = uv.calls(re.compile(r"rustybgpd::table_manager::TableManager::insert_route"))
    if not ins:
        r.unanalysable("rx_update: no insert_route call", uv.loc())
        return
    for b, t in ins:
        gs = flat_guards(uv, b)
        txt = " & ".join(show(g, 120) + ":" + "|".join(sorted(l)) for g, l, h in gs)
        needs = {"originator_loop": False, "cluster_loop": False}
        for g, l, h in gs:
            for k in needs:
                if k in expr_vars(g) and l == {"false"}:
                    needs[k] = True
        # `a || b` makes neither outcome necessary by itself; use the early return: the insert must be unreachable
        # from the blocks that set either flag true... approximate with dominance by the test block
        toks = set()
        for kk in prog.with_closures(ru):
            toks |= fn_tokens(prog, kk, depth=0)
        tested = [bb for bb, br in branches(uv).items() if br.expr[0] == "var" and br.expr[1] in needs]
        # the tests apply to announcements only: slice away the `reach.is_some() == false` edge
        sl = set()
        from ..cfg import bool_edges
        for bb, br in branches(uv).items():
            if br.expr[0] == "call" and br.expr[1].endswith("Option::<T>::is_some") and ("reach" in expr_vars(br.expr) or "reach" in expr_fields(br.expr)):
                for (x, y) in bool_edges(uv, br, False):
                    sl.add((x, y))
        if len(tested) >= 2 and b in uv.reach(uv.entry, tested, sl):
            tested = []
        # each test's true edge must not reach insert_route
        for tb in list(tested):
            for (x, y) in bool_edges(uv, branches(uv)[tb], True):
                if b in uv.reach(y):
                    tested = []
        has_o = any(re.fullmatch(r"const:.*Attribute::ORIGINATOR_ID", x) for x in toks)
        has_c = any(re.fullmatch(r"const:.*Attribute::CLUSTER_LIST", x) for x in toks)
        if has_o and has_c and (len(tested) >= 2 or all(needs.values())):
            r.ok("rx_update: ORIGINATOR_ID and CLUSTER_LIST loop tests dominate insert_route")
        else:
            r.fail(prog.name(ru), "reflection-loop-check", "insert_route is reachable without the ORIGINATOR_ID / CLUSTER_LIST loop tests (tests dominating: %d; ORIGINATOR_ID read: %s; CLUSTER_LIST read: %s)" % (len(tested), has_o, has_c), uv.loc(b))


def check_opaque(prog, fv, brs, r):
    r.analysed(fv.name)
    # the tail: a filter_map closure calling is_opaque / is_transitive / with_partial_bit; not under any role guard
    found = False
    for b in sorted(fv.live):
        for s in fv.blocks[b]["s"]:
            rv = s.get("rv")
            if rv and rv["r"] == "agg" and rv.get("k") == "closure":
                cfv = view(prog, rv["def"])
                toks = fn_tokens(prog, rv["def"], depth=0)
                if any(t.endswith("Attribute::with_partial_bit") for t in toks if t.startswith("call:")):
                    found = True
                    if role_of(fv, b, brs) is not None:
                        r.fail(fv.name, "opaque-role-specific", "the unknown-attribute policy is applied for some roles only", fv.loc(b))
                        continue
                    # inside: Some(with_partial_bit) under is_opaque && is_transitive; None under is_opaque && !is_transitive
                    okp = okd = False
                    for bb, tt in cfv.calls(re.compile(r".*Attribute::with_partial_bit")):
                        g = [(show(x, 60), l) for x, l, h in flat_guards(cfv, bb)]
                        if any("is_opaque" in a and l == {"true"} for a, l in g) and any("is_transitive" in a and l == {"true"} for a, l in g):
                            okp = True
                    for bb, si, ss in cfv.aggregates(None, "None"):
                        if ss["p"]["l"] != 0:
                            continue
                        g = [(show(x, 60), l) for x, l, h in flat_guards(cfv, bb)]
                        if any("is_opaque" in a and l == {"true"} for a, l in g) and any("is_transitive" in a and l == {"false"} for a, l in g):
                            okd = True
                    if okp:
                        r.ok("opaque and transitive -> forwarded with Partial")
                    else:
                        r.fail(fv.name, "opaque-partial", "unknown transitive attributes are not forwarded with the Partial bit", cfv.loc())
                    if okd:
                        r.ok("opaque and non-transitive -> dropped")
                    else:
                        r.fail(fv.name, "opaque-drop", "unknown non-transitive attributes are not dropped", cfv.loc())
    if not found:
        # loop spelling in the body itself
        sites = fv.calls(re.compile(r".*Attribute::with_partial_bit"))
        lps = loops(fv)
        for bb, tt in sites:
            found = True
            if role_of(fv, bb, brs) is not None:
                r.fail(fv.name, "opaque-role-specific", "the unknown-attribute policy is applied for some roles only", fv.loc(bb))
                continue
            gl = flat_guards(fv, bb, brs)
            g = [(show(x, 60), l) for x, l, h in gl]
            if any("is_opaque" in a and l == {"true"} for a, l in g) and any("is_transitive" in a and l == {"true"} for a, l in g):
                r.ok("opaque and transitive -> forwarded with Partial")
            else:
                r.fail(fv.name, "opaque-partial", "unknown transitive attributes are not forwarded with the Partial bit", fv.loc(bb))
            # the other outcome of the is_transitive test (still under is_opaque) reaches the loop head without a push
            okd = False
            for b2, br in brs.items():
                if br.expr[0] == "call" and br.expr[1].endswith("Attribute::is_transitive") and fv.dominates(b2, bb):
                    from ..cfg import bool_edges
                    inner = [(h, body) for h, body, backs in lps if b2 in body]
                    if not inner:
                        continue
                    h, body = min(inner, key=lambda x: len(x[1]))
                    for e_ in bool_edges(fv, br, False):
                        tgt = e_[1]
                        region = (fv._reach_from(tgt, {h}, set()) & body) | {tgt}
                        if not any(fv.blocks[b]["t"]["t"] == "call" and any(n.endswith("::push") for n in callee_names(fv.blocks[b]["t"])) for b in region):
                            okd = True
            if okd:
                r.ok("opaque and non-transitive -> dropped")
            else:
                r.fail(fv.name, "opaque-drop", "unknown non-transitive attributes are not dropped", fv.loc(bb))
    if not found:
        r.fail(fv.name, "no-opaque-policy", "export_attrs has no unknown-attribute (Partial bit) step", fv.loc())
