"""C11 — restarting speaker defers selection until EOR / timer (structural clauses)."""
import re

from ..cfg import Renderer, walk, show, flat_guards, branches
from ..facts import callee_names, short
from ..sig import fn_tokens
from ..tables import extract_arms
from ..util import view, crate_fns, root_name, expr_calls, expr_fields, expr_vars, field_writes
from . import c06

EXPLANATION = (
    "Static rules over daemon/src/gr.rs (RestartingDeferral), the table crate and the driver glue: R11.1 the deferral table "
    "extracted from RestartingDeferral::{new,process} and its finish_* helpers: Completed is absorbing and silent; every edge "
    "into Completed from a deferring state carries EndDeferral; every arm that can shrink `pending` ends in an emptiness test "
    "(finish_awaiting / finish_deferring / inline is_empty) so the machine cannot stay deferring with nothing pending; "
    "StartDeferralTimer only on AwaitingStart -> Deferring; TimerExpired is handled in Deferring and ends deferral for the "
    "remaining families; a peer established without GR families takes the remove_peer arm; wherever a family is taken out of a "
    "peer's awaited set the peer leaves the map under nothing more than that set's emptiness test (no empty entry can keep the "
    "map non-empty); new() with no GR peer starts "
    "Completed; R11.2 table side = R06.4 (NoChange only after storing; end_deferral re-emits everything); R11.3 glue: "
    "FamilyDeferralComplete / EndDeferral(remaining) reach end_deferral_families, EndDeferral clears selection_deferral and "
    "aborts the timer, the timer task feeds TimerExpired, disconnect feeds PeerWithdrawn. Decides the machine's structure, not "
    "'announced exactly once' across shards (value/history-level).")
ASSUMPTIONS = ["RestartingDeferral is only driven under the Global write lock (not checked)"]

RDP = r"rustybgpd::gr::RestartingDeferral::process"
DEFERRING = {"AwaitingStart", "Deferring"}


def helper_summary(prog, name):
    """For finish_awaiting / finish_deferring: {result state variant: (must outputs, guard on pending.is_empty)}"""
    fv = view(prog, prog.one(name))
    res = {}
    for bi, si, s in fv.defs().get(0, []):
        if bi not in fv.live or si == "t":
            continue
        rv = s["rv"]
        if not (rv["r"] == "agg" and rv["k"] == "tuple"):
            continue
        e0 = Renderer(fv, depth=8).operand(rv["fields"][0], 8)
        st = e0[2] if e0[0] == "agg" else "?"
        empt = None
        for g, labels, how in flat_guards(fv, bi):
            if g[0] == "call" and g[1].endswith("::is_empty") and "pending" in expr_vars(g):
                empt = labels == {"true"}
        outs = set()
        for b2, si2, s2 in fv.aggregates(re.compile(r"rustybgpd::gr::RestartingOutput")):
            if fv.dominates(b2, bi):
                outs.add(s2["rv"]["v"])
        res[st] = (outs, empt)
    return fv, res


def run(prog, rep, tier):
    r1 = rep.rule("R11.1", "RestartingDeferral transition table satisfies the deferral invariants")
    fv = view(prog, prog.one(RDP))
    r1.analysed(fv.name)
    arms = extract_arms(prog, fv, r"gr::RestartingInner", r"rustybgpd::gr::RestartingOutput") or []
    if len(arms) < 10:
        r1.unanalysable("RestartingDeferral::process: %d arms extracted (want >= 10)" % len(arms), fv.loc())
    helpers = {}
    for h, kind in (("finish_awaiting", "AwaitingStart"), ("finish_deferring", "Deferring")):
        hv, res = helper_summary(prog, r"rustybgpd::gr::RestartingDeferral::" + h)
        r1.analysed(hv.name)
        helpers["rustybgpd::gr::RestartingDeferral::" + h] = (kind, res)
        c = res.get("Completed")
        k = res.get(kind)
        if c and c[1] is True and "EndDeferral" in c[0] and k and k[1] is False and "EndDeferral" not in k[0]:
            r1.ok("%s: pending empty => (Completed, EndDeferral); else stays %s" % (h, kind))
        else:
            r1.fail(hv.name, "finish-helper", "%s does not map 'pending empty' to (Completed, +EndDeferral) and non-empty to %s: %s" % (h, kind, {x: (sorted(v[0]), v[1]) for x, v in res.items()}), hv.loc())
    n_timer = 0
    for a in arms:
        src = a.cond(r"state") or frozenset({"*"})
        inp = a.cond(r"input") or frozenset({"*"})
        must = {m[0] for m in a.must}
        may = {m[0] for m in a.may} | must
        ns = {s for s in a.new_states if s not in ("same",) and not s.startswith("call:std::mem::replace")} or {"same"}
        via = [s[5:] for s in ns if s.startswith("call:")]
        real = {s for s in ns if not s.startswith("call:")}
        for v in via:
            if v in helpers:
                kind, res = helpers[v]
                real |= set(res)
        desc = "(%s, %s) -> %s" % ("|".join(sorted(src)), "|".join(sorted(inp)), "|".join(sorted(real)))
        key = "%s+%s" % ("|".join(sorted(src)), "|".join(sorted(inp)))
        # (i) Completed absorbing
        if src == frozenset({"Completed"}):
            if real == {"Completed"} and not may:
                r1.ok("Completed is absorbing and silent")
            else:
                r1.fail(fv.name, "completed-not-absorbing", "from Completed the machine goes to %s with outputs %s" % (sorted(real), sorted(may)), fv.loc(a.block))
            continue
        # (ii) into Completed carries EndDeferral
        if "Completed" in real and src <= DEFERRING:
            if via and all(v in helpers for v in via):
                r1.ok(desc + ": via " + ",".join(short(v) for v in via) + " (EndDeferral on the Completed side)")
            elif "EndDeferral" in must:
                r1.ok(desc + ": EndDeferral")
            else:
                r1.fail(fv.name, "completed-without-EndDeferral:" + key, "edge %s reaches Completed without EndDeferral: deferred families would never be released" % desc, fv.loc(a.block))
        # (iii) arms that shrink pending must end in an emptiness test
        shrinks = any(c.endswith("RestartingDeferral::remove_peer") or re.search(r"Hash(Map|Set)::<.*>::remove$", c) for c in a.may_calls | a.calls)
        if shrinks and src <= DEFERRING:
            tested = bool(via) or any(g[0] == "call" and g[1].endswith("::is_empty") and "pending" in expr_vars(g) for g, l in a.raw_conds)
            if tested:
                r1.ok(desc + ": pending shrinks and emptiness is tested")
            else:
                r1.fail(fv.name, "shrink-without-empty-test:" + key, "arm %s removes from `pending` but does not test whether it became empty: the machine can stay deferring with nothing pending" % desc, fv.loc(a.block))
        # (iv) StartDeferralTimer only AwaitingStart -> Deferring
        if "StartDeferralTimer" in may:
            n_timer += 1
            if src == frozenset({"AwaitingStart"}) and real == {"Deferring"}:
                r1.ok(desc + ": StartDeferralTimer")
            else:
                r1.fail(fv.name, "timer-start:" + key, "StartDeferralTimer emitted on %s" % desc, fv.loc(a.block))
        if src == frozenset({"AwaitingStart"}) and "Deferring" in real and "StartDeferralTimer" not in must:
            r1.fail(fv.name, "deferring-without-timer:" + key, "edge %s enters Deferring without StartDeferralTimer" % desc, fv.loc(a.block))
        # (v) TimerExpired
        if inp == frozenset({"TimerExpired"}):
            if src == frozenset({"Deferring"}) and real == {"Completed"} and "EndDeferral" in must:
                # remaining derives from pending
                ed = [m for m in a.must if m[0] == "EndDeferral"][0]
                e = Renderer(fv, depth=25, through_names=True).operand(ed[1]["rv"]["fields"][0], 25)
                if "pending" in show(e, 600):
                    r1.ok(desc + ": EndDeferral(remaining from pending)")
                else:
                    r1.fail(fv.name, "timer-remaining", "EndDeferral on timer expiry does not carry the still-pending families (%s)" % show(e, 60), fv.loc(a.block))
            else:
                r1.fail(fv.name, "timer-expired-arm:" + key, "TimerExpired arm is %s with %s" % (desc, sorted(may)), fv.loc(a.block))
        # (vii) peer without GR families takes remove_peer
        if inp == frozenset({"PeerEstablished"}):
            emp = [l for g, l in a.raw_conds if g[0] == "call" and g[1].endswith("::is_empty") and "families" in expr_vars(g)]
            if emp and emp[0] == {"true"}:
                if any(c.endswith("RestartingDeferral::remove_peer") for c in a.calls):
                    r1.ok(desc + ": peer without GR is removed from pending")
                else:
                    r1.fail(fv.name, "nogr-peer:" + key, "a peer established without GR families is not removed from pending: it would block completion", fv.loc(a.block))
    # (vii') ... in every deferring state: a peer that comes back without GR leaves `pending` (sibling agreement of the arms)
    covered = set()
    for a in arms:
        if a.cond(r"input") == frozenset({"PeerEstablished"}):
            emp = [l for g, l in a.raw_conds if g[0] == "call" and g[1].endswith("::is_empty") and "families" in expr_vars(g)]
            if emp and emp[0] == {"true"} and any(c.endswith("RestartingDeferral::remove_peer") for c in a.calls):
                covered |= set(a.cond(r"state") or ())
    # the same thing said once, before the match: `PeerEstablished(addr, [])` is rewritten to `PeerWithdrawn(addr)` and the
    # PeerWithdrawn arms do the removal
    rewritten = False
    for bi_, si_, s_ in fv.aggregates(re.compile(r"rustybgpd::gr::RestartingInput$"), "PeerWithdrawn"):
        gs_ = flat_guards(fv, bi_, branches(fv))
        if any(g[0] == "call" and g[1].endswith("::is_empty") and l == {"true"} for g, l, h in gs_) and \
                any(g[0] == "discr" and l == {"PeerEstablished"} for g, l, h in gs_):
            rewritten = True
    if rewritten:
        for a in arms:
            if a.cond(r"input") == frozenset({"PeerWithdrawn"}) and any(c.endswith("RestartingDeferral::remove_peer") for c in a.calls):
                covered |= set(a.cond(r"state") or ())
    for st_ in sorted(DEFERRING):
        if st_ in covered:
            r1.ok("%s + PeerEstablished(no GR families): peer removed from pending" % st_)
        else:
            r1.fail(fv.name, "nogr-peer-arm-missing:" + st_, "in state %s a peer established without GR families is not taken out of `pending` (the sibling state does it): "
                    "its empty entry keeps `pending` non-empty for ever, so EndDeferral is never emitted" % st_, fv.loc())
    # (viii) a family is reported complete only after checking that no other peer still awaits it: every
    # FamilyDeferralComplete is built by complete_for (which filters by `pending`) or under such a test
    n_fc = 0
    for k2 in crate_fns(prog, "rustybgpd"):
        nm2 = prog.ix[k2]["name"]
        if not nm2.startswith("rustybgpd::gr::RestartingDeferral::") or "::tests::" in nm2:
            continue
        if not any(a_.endswith("RestartingOutput::FamilyDeferralComplete") for a_ in prog.ix[k2].get("aggs", [])):
            continue
        v2 = view(prog, k2)
        b2rs = branches(v2)
        for bi, si, s_ in v2.aggregates(re.compile(r"rustybgpd::gr::RestartingOutput"), "FamilyDeferralComplete"):
            n_fc += 1
            root2 = root_name(prog, k2)
            if root2.endswith("::complete_for"):
                # inside complete_for: the closure chain filter(..).map(FamilyDeferralComplete)
                toks2 = set()
                for kk in prog.with_closures(prog.ix[k2].get("root") or k2):
                    toks2 |= fn_tokens(prog, kk, depth=0)
                if any(t.endswith("Iterator::filter") for t in toks2 if t.startswith("call:")) and any(t.endswith("HashSet::<T, S>::contains") or t.endswith("::contains") for t in toks2 if t.startswith("call:")):
                    r1.ok("complete_for: candidates filtered by the remaining `pending` sets")
                else:
                    r1.fail(root2, "complete_for-no-filter", "complete_for reports families complete without filtering out those another peer still awaits", v2.loc(bi))
                continue
            tested = any(g[0] == "call" and g[1].endswith("Iterator::any") and "pending" in expr_vars(g) and l == {"false"} for g, l, h in flat_guards(v2, bi, b2rs))
            # .. and only on the transition pending -> not pending: the family was in this peer's set until now (the removal
            # from the set, or a membership test before it, said so). Without that a repeated End-of-RIB, or one for a family
            # that was never deferred, finds "nobody awaits it" again and releases the family a second time.
            was = any(l == {"true"} and any(isinstance(x, tuple) and x and x[0] == "call" and re.search(r"HashSet::<T, S(, A)?>::(remove|contains|take)$", x[1]) for x in walk(g))
                      for g, l, h in flat_guards(v2, bi, branches(v2, Renderer(v2, depth=12, through_names=True)), named=True))
            if tested and not was:
                r1.fail(root2, "family-complete-without-transition", "%s reports a family complete whenever no peer awaits it, without checking that the family was still awaited from this "
                        "peer: a repeated End-of-RIB (or one for a family that was never deferred) releases the family again and every prefix of it is announced a second time" % short(root2), v2.loc(bi))
            elif tested:
                r1.ok("%s: FamilyDeferralComplete under `was pending for this peer` and `no peer still pending for the family`" % short(root2))
            else:
                r1.fail(root2, "family-complete-without-pending-check", "%s reports a family complete without checking that no other configured helper still awaits End-of-RIB for it: "
                        "the family is released early (and a second time when that helper's End-of-RIB arrives)" % short(root2), v2.loc(bi))
    if n_fc < 1:
        r1.unanalysable("FamilyDeferralComplete constructions found: %d (want >= 1)" % n_fc)
    if not any((a.cond(r"input") == frozenset({"TimerExpired"})) for a in arms):
        r1.fail(fv.name, "no-timer-arm", "RestartingDeferral::process has no TimerExpired arm", fv.loc())
    if n_timer == 0:
        r1.fail(fv.name, "no-timer-start", "StartDeferralTimer is never emitted", fv.loc())
    # new()
    nv = view(prog, prog.one(r"rustybgpd::gr::RestartingDeferral::new"))
    r1.analysed(nv.name)
    seen = {}
    for bi, si, s in nv.aggregates(re.compile(r"rustybgpd::gr::RestartingInner")):
        v = s["rv"]["v"]
        empt = None
        for g, labels, how in flat_guards(nv, bi):
            if g[0] == "call" and g[1].endswith("::is_empty") and "HashMap" in (g[1] + str(g[4]) + str(g[5])):
                empt = labels == {"true"}       # the map of awaited peers, whatever the local is called
        outs = {s2["rv"]["v"] for b2, si2, s2 in nv.aggregates(re.compile(r"rustybgpd::gr::RestartingOutput")) if nv.edge_guarded(b2, []) or True}
        seen[v] = empt
    if seen.get("Completed") is True and seen.get("AwaitingStart") in (False, None) and "AwaitingStart" in seen:
        r1.ok("new(): no GR peer => Completed; else AwaitingStart")
    else:
        r1.fail(nv.name, "new-initial-state", "new() initial states: %s" % seen, nv.loc())
    dfs = [b for b, si, s in nv.aggregates(re.compile(r"rustybgpd::gr::RestartingOutput"), "DeferFamilies")]
    if dfs:
        r1.ok("new(): emits DeferFamilies")
    else:
        r1.fail(nv.name, "new-no-defer", "new() never emits DeferFamilies", nv.loc())

    check_emptied_sets(prog, r1)

    r2 = rep.rule("R11.2", "table side of deferral (shared with R06.4)")
    c06.check_deferral(prog, r2)

    r3 = rep.rule("R11.3", "driver glue honours the deferral outputs and feeds the inputs")
    check_glue(prog, r3)
    r4 = rep.rule("R11.4", "the families named by FamilyDeferralComplete and by EndDeferral are released (end_deferral_families) where the outputs are applied")
    check_outputs_applied(prog, r4)
    check_end_deferral_dedup(prog, r4)


def check_established_fed(prog, r):
    """Every configured helper that re-establishes is reported to the deferral machine (RestartingInput::PeerEstablished with the
    families it re-negotiated, possibly none).  If the report is made only when graceful restart was negotiated, a helper that comes
    back without it stays pending and blocks completion until the timer -- or for ever when the timer was never started."""
    pk = prog.one(r"rustybgpd::event::PeerSession::process_effects")
    n = 0
    for kk in [prog.body_key(pk)] + [k2 for k2 in prog.with_closures(prog.body_key(pk)) if k2 != prog.body_key(pk)]:
        fv = view(prog, kk)
        brs = branches(fv, Renderer(fv, depth=12, through_names=True))
        for bi, si, st in fv.aggregates(re.compile(r"rustybgpd::gr::RestartingInput$"), "PeerEstablished"):
            n += 1
            cond = [g for g, l, h in flat_guards(fv, bi, brs, named=True) if "negotiated_gr" in (set(expr_fields(g)) | set(expr_vars(g)))
                    and ((g[0] == "discr" and l == {"Some"}) or (g[0] == "call" and g[1].endswith("is_some") and l == {"true"}) or (g[0] == "call" and g[1].endswith("is_none") and l == {"false"}))]
            if cond:
                r.fail(prog.name(pk), "peer-established-needs-gr", "PeerEstablished is fed to the deferral machine only when the new session negotiated graceful restart (%s): a configured helper that "
                       "re-establishes without it is never taken off `pending`, so its families stay deferred" % show(cond[0], 50), fv.loc(bi))
            else:
                r.ok("process_effects: PeerEstablished is fed for every re-established helper, with or without GR")
    if n == 0:
        r.unanalysable("process_effects never builds RestartingInput::PeerEstablished", view(prog, prog.body_key(pk)).loc())


def check_glue(prog, r):
    check_established_fed(prog, r)
    pk = prog.one(r"rustybgpd::event::process_restarting_outputs")
    bodies = [view(prog, k) for k in prog.with_closures(prog.body_key(pk))] + [view(prog, prog.body_key(pk))]
    r.analysed(prog.name(pk))
    handled = set()
    for b in bodies:
        for bi, br in branches(b).items():
            if br.expr[0] == "discr" and br.adt and br.adt.endswith("gr::RestartingOutput"):
                for v, tgt in br.cases:
                    handled.add(br.label(prog, v))
    need = {"DeferFamilies", "StartDeferralTimer", "FamilyDeferralComplete", "EndDeferral"}
    # DeferFamilies is consumed at startup where new() is called
    miss = need - handled - {"DeferFamilies"}
    if miss:
        r.fail(prog.name(pk), "unhandled:" + ",".join(sorted(miss)), "process_restarting_outputs never matches on %s" % sorted(miss), "daemon/src/event/mod.rs")
    else:
        r.ok("process_restarting_outputs matches %s" % sorted(handled))
    toks = set()
    for b in bodies:
        toks |= fn_tokens(prog, b.key, depth=1)
    if any(t.endswith("TableManager::end_deferral_families") for t in toks if t.startswith("call:")):
        r.ok("completed families reach TableManager::end_deferral_families")
    else:
        r.fail(prog.name(pk), "no-end-deferral", "completed / remaining families never reach end_deferral_families", "daemon/src/event/mod.rs")
    # EndDeferral clears selection_deferral and aborts the timer
    cleared = aborted = False
    for b in bodies:
        for bi, si, s in field_writes(b, "selection_deferral"):
            cleared = True
        for bi, t in b.calls():
            nms = callee_names(t)
            if any(n.endswith("AbortHandle::abort") for n in nms):
                aborted = True
            if any(n.endswith("Option::<T>::take") for n in nms):
                e = Renderer(b, depth=6).operand(t["args"][0], 6)
                if "selection_deferral" in expr_fields(e):
                    cleared = True
                if "selection_deferral_timer" in expr_fields(e):
                    aborted = aborted or True
    if cleared:
        r.ok("EndDeferral clears Global.selection_deferral")
    else:
        r.fail(prog.name(pk), "restarting-flag", "Global.selection_deferral is never cleared: the speaker would stay 'restarting'", "daemon/src/event/mod.rs")
    if aborted:
        r.ok("EndDeferral disposes of the selection-deferral timer")
    else:
        r.fail(prog.name(pk), "timer-not-aborted", "the selection-deferral timer is not aborted/taken on EndDeferral", "daemon/src/event/mod.rs")
    # inputs: TimerExpired from the timer task; PeerWithdrawn on disconnect; EorReceived; PeerEstablished
    feeds = {}
    rp = prog.one(RDP)
    for c in sorted(prog.callers(rp)):
        if c.startswith("rustybgpd::gr::"):
            continue
        cv = view(prog, c)
        for bi, t in cv.calls(re.compile(RDP)):
            e = Renderer(cv, depth=10).operand(t["args"][1], 10)
            if e[0] == "agg":
                feeds.setdefault(e[2], set()).add(root_name(prog, c))
    # PeerWithdrawn is owed for *every* session end while a deferral is active (a helper that never reached Established,
    # or ended without GR eligibility, must leave `pending` too): its construction depends on nothing but
    # `selection_deferral` being Some
    rk = prog.one(r"rustybgpd::event::PeerSession::run")
    rv_ = view(prog, prog.body_key(rk))
    rbrs = branches(rv_)
    for bi, si, s_ in rv_.aggregates(re.compile(r"rustybgpd::gr::RestartingInput"), "PeerWithdrawn"):
        extra = []
        for g, l, h in flat_guards(rv_, bi, rbrs):
            if g[0] == "discr" and (g[2] or "").endswith("task::poll::Poll"):
                continue
            if g[0] == "discr" and "selection_deferral" in expr_fields(g) and l == {"Some"}:
                continue
            extra.append(show(g, 60) + ":" + "|".join(sorted(l)))
        if extra:
            r.fail(prog.name(rk), "peer-withdrawn-conditional", "RestartingInput::PeerWithdrawn is fed only when %s: a helper whose session ends otherwise stays in `pending`, and the deferral never "
                   "completes (with the timer not yet started, for ever)" % "; ".join(extra), rv_.loc(bi))
        else:
            r.ok("run(): PeerWithdrawn is fed for every session end while a deferral is active")
    want = {"TimerExpired": r".*gr_selection_deferral_timer_expired", "PeerWithdrawn": r".*PeerSession::run", "EorReceived": r".*process_effects", "PeerEstablished": r".*process_effects"}
    for inp, rx in want.items():
        srcs = feeds.get(inp, set())
        if any(re.fullmatch(rx, s) for s in srcs):
            r.ok("%s fed by %s" % (inp, sorted(short(s) for s in srcs)))
        else:
            r.fail("rustybgpd::event", "input-not-fed:" + inp, "RestartingInput::%s is not fed from %s (fed from: %s)" % (inp, rx, sorted(srcs)), "daemon/src/event/mod.rs")


# ---------------------------------------------------------------------------------------------- R11.4
def check_outputs_applied(prog, r):
    """process_restarting_outputs turns the state machine's outputs into table operations.  The payload of each of the two
    releasing outputs must reach an argument of TableManager::end_deferral_families (may-flow over the body, through
    collections, Option wrappers, closures and spliced helpers): a payload that only feeds a log line leaves the family's
    `deferring` flag set for ever."""
    from ..util import taint_flow
    k = prog.one(r"rustybgpd::event::process_restarting_outputs")
    fv = view(prog, prog.body_key(k))
    r.analysed(prog.name(k))
    sinks = fv.calls(re.compile(r"rustybgpd::table_manager::TableManager::end_deferral_families$"))
    if not sinks:
        r.fail(prog.name(k), "outputs-not-applied:all", "process_restarting_outputs never calls end_deferral_families", fv.loc())
        return
    for variant in ("FamilyDeferralComplete", "EndDeferral"):
        src = lambda p, v=variant: any(isinstance(e, dict) and e.get("d") == v for e in (p.get("p") or []))
        tainted, root, refs = taint_flow(prog, fv, src)
        ok = False
        for b, t in sinks:
            for a in t["args"][1:]:
                q = a.get("c") or a.get("m")
                if q is None:
                    continue
                if root(q) in tainted or refs.get(q["l"]) in tainted or src(q):
                    ok = True
        if ok:
            r.ok("process_restarting_outputs: the families of %s reach end_deferral_families" % variant)
        else:
            r.fail(prog.name(k), "outputs-not-applied:" + variant, "the families carried by RestartingOutput::%s never reach end_deferral_families: their RIBs keep `deferring` set, nothing received "
                   "meanwhile is ever selected or announced, and later inserts stay suppressed" % variant, fv.loc(sinks[0][0]))


def check_end_deferral_dedup(prog, r):
    """EndDeferral(families) is applied element by element (Table::end_deferral hands out every held-back prefix of the family
    each time it is called): a family that several helpers still owe End-of-RIB for must appear once.  The list built when the
    timer expires therefore comes out of a set (HashSet / BTreeSet collect, or sort + dedup)."""
    from ..util import taint_flow
    k = prog.one(r"rustybgpd::gr::RestartingDeferral::process")
    n = 0
    for kk in prog.with_closures(k):
        fv = view(prog, kk)
        aggs = fv.aggregates(re.compile(r"rustybgpd::gr::RestartingOutput"), "EndDeferral")
        if not aggs:
            continue
        SET_TY = re.compile(r"(&(mut )?)?(std::collections::(hash::set::|hash_set::)?HashSet|std::collections::BTreeSet|std::collections::btree_set::BTreeSet|std::collections::hash_set::IntoIter|std::collections::btree_set::IntoIter)<[^<>]*Family")

        def from_set(l, depth=10, seen=None):
            """Backwards along the value's own derivation (copies, and the receiver / iterator argument of the calls that produced
            it): does it come out of a set of families (or pass a dedup)?"""
            seen = seen or set()
            if l in seen or depth <= 0:
                return False
            seen.add(l)
            if l < len(fv.f["locals"]) and SET_TY.match(fv.f["locals"][l]):
                return True
            for bi_, si_, st_ in fv.defs().get(l, []):
                if si_ == "t":
                    if (st_["f"].get("name") or "").endswith("::dedup"):
                        return True
                    a0 = st_["args"][0] if st_.get("args") else None
                    q0 = (a0.get("c") or a0.get("m")) if a0 else None
                    if q0 is not None and from_set(q0["l"], depth - 1, seen):
                        return True
                else:
                    rv_ = st_["rv"]
                    q0 = (rv_.get("o") or {}).get("c") or (rv_.get("o") or {}).get("m") or (rv_.get("p") if rv_["r"] in ("ref",) else None)
                    if q0 is not None and from_set(q0["l"], depth - 1, seen):
                        return True
            # sort(); dedup() in place on this local
            for b_, t_ in fv.calls(re.compile(r".*::dedup$")):
                q_ = (t_["args"][0].get("c") or t_["args"][0].get("m")) if t_.get("args") else None
                if q_ is not None:
                    for bi_, si_, st_ in fv.defs().get(q_["l"], []):
                        if si_ != "t" and st_["rv"]["r"] == "ref" and st_["rv"]["p"]["l"] == l:
                            return True
            return False
        for bi, si, s_ in aggs:
            n += 1
            op = s_["rv"]["fields"][0]
            q = op.get("c") or op.get("m")
            e = Renderer(fv, depth=8, through_names=True).operand(op, 8)
            if e[0] == "call" and re.search(r"Vec::<T>::new$|vec::Vec::new$", e[1]):
                r.ok("process: EndDeferral(empty)")
                continue
            if q is not None and from_set(q["l"]):
                r.ok("process: the EndDeferral family list is built from a set (each family once)")
            else:
                r.fail(prog.name(k), "end-deferral-duplicates", "the family list of EndDeferral is collected straight from the per-helper pending sets: a family still owed by N helpers is listed N "
                       "times, and each listing re-announces every held-back prefix of that family", fv.loc(bi))
    if n == 0:
        r.unanalysable("RestartingDeferral::process: no EndDeferral construction found")


# ------------------------------------------------------------------------------------------ R11.1 (ix)
_SET_REMOVE = re.compile(r".*HashSet::<T, S(, A)?>::(remove|take)$")
_MAP_CLEAN = re.compile(r".*(HashMap::<K, V, S(, A)?>::(remove|remove_entry|retain)|OccupiedEntry::<.*>::(remove|remove_entry))$")


def check_emptied_sets(prog, r1):
    """Completion is decided by the emptiness of the map of awaited peers (finish_awaiting / finish_deferring / the EOR arm), so
    no peer may stay in it with an empty family set.  Wherever a family is taken out of a peer's set, the peer leaves the map
    as soon as that set is empty: a map removal (or a retain sweep) follows under nothing more than the set's emptiness test.
    A clean-up that runs only when some other condition holds (the family completed, the EOR was the first ..) leaves the
    empty entry behind on the other paths, and EndDeferral is then never emitted although nobody is awaited."""
    n = 0
    for k in crate_fns(prog, "rustybgpd"):
        nm = prog.ix[k]["name"]
        if not nm.startswith("rustybgpd::gr::RestartingDeferral::") or "::tests::" in nm:
            continue
        fv = view(prog, k)
        sites = list(fv.calls(_SET_REMOVE))
        if not sites:
            continue
        brs = branches(fv)
        key = lambda g, l: (repr(g[:3]) if g and g[0] == "call" else repr(g), frozenset(l))
        cleans = []
        for bi, t in fv.calls(re.compile(r".*")):
            names = callee_names(t)
            direct = any(_MAP_CLEAN.match(c) for c in names)
            via = False
            if not direct:
                for c in names:
                    if c.startswith("rustybgpd::gr::"):
                        for kk in prog.by_name.get(c, []):
                            if any(tk.startswith("call:") and _MAP_CLEAN.match(tk[5:]) for tk in fn_tokens(prog, kk, depth=2)):
                                via = True
            if direct or via:
                cleans.append(bi)
        for bi, t in sites:
            n += 1
            base = {key(g, l) for g, l, h in flat_guards(fv, bi, brs)}
            after = fv.reach_after(bi)
            verdict = None
            for cb in cleans:
                if cb != bi and cb not in after:
                    continue
                extra = [(g, l) for g, l, h in flat_guards(fv, cb, brs) if key(g, l) not in base]
                if all(g[0] == "call" and g[1].endswith("::is_empty") and set(l) == {"true"} for g, l in extra):
                    verdict = "ok"
                    break
                verdict = verdict or ("conditional", cb, extra)
            if verdict == "ok":
                r1.ok("%s line %d: a peer whose family set is emptied leaves the map of awaited peers (clean-up under the emptiness test alone)" % (short(root_name(prog, k)), fv.line(bi)))
            elif verdict is None:
                r1.fail(root_name(prog, k), "emptied-set-kept", "a family is removed from a peer's awaited set (line %d) and the peer is never taken out of the map of awaited peers when "
                        "its set becomes empty: the map stays non-empty and EndDeferral is never emitted" % fv.line(bi), fv.loc(bi))
            else:
                _, cb, extra = verdict
                r1.fail(root_name(prog, k), "emptied-set-cleanup-conditional", "a family is removed from a peer's awaited set (line %d) but the emptied entry is only swept (line %d) when %s also "
                        "holds: on the other paths the empty entry stays in the map of awaited peers, so a later peer-down / non-GR re-establish of the last awaited peer "
                        "does not end the deferral" % (fv.line(bi), fv.line(cb), "; ".join("%s = %s" % (show(g, 80), "/".join(sorted(l))) for g, l in extra[:2])), fv.loc(bi))
    r1.floor("family removals from a peer's awaited set", n, 1)
