"""C05 — a malformed UPDATE never installs a route; reset only if it must (structural clauses, RFC 7606)."""
import re

from ..cfg import Renderer, walk, show, flat_guards, guards_of, branches, strip
from ..facts import callee_names, short
from ..sig import fn_tokens
from ..util import view, crate_fns, root_name, expr_calls, expr_fields, expr_vars, loops, agg_field, emission_blocks

EXPLANATION = (
    "Static rules over PeerCodec::parse_message, Attribute::decode, Attribute::canonical_flags and validate_update (MIR): "
    "R05.1 every Update::Reach is constructed only on the treat_as_withdraw == false side and the true side turns reach and "
    "mp_reach into Update::Unreach while withdrawals flow out on both sides; R05.2 treat_as_withdraw is missing_mandatory OR, "
    "per erroneous attribute, (!optional || transitive) on the wire flags (truth table extracted by path enumeration), and "
    "missing_mandatory reads ORIGIN, AS_PATH and both next-hop presence tests; R05.3 inside the attribute loop every way an "
    "attribute is skipped is one of: duplicate, flag mismatch (+error record), decode error (+error record unless code is "
    "AS4_PATH/AS4_AGGREGATOR), unknown well-known (+error record), unknown optional transitive (stored opaque), unknown "
    "optional non-transitive (discard); a truncated block records an error after the loop; R05.4 Err(Notification) returns "
    "inside the attribute loop are limited to duplicate MP attribute and the opaque bounds check; R05.5 the eBGP filter drops "
    "exactly LOCAL_PREF, ORIGINATOR_ID, CLUSTER_LIST and feeds every Reach output; R05.6 per-attribute length/value checks "
    "of Attribute::decode equal the RFC table; R05.7 canonical_flags equals the RFC flag table and the flag comparison masks "
    "exactly OPTIONAL|TRANSITIVE. Decides the classification structure, not the end-to-end RIB outcome.")
ASSUMPTIONS = ["RFC 7606 / RFC 4271 tables as transcribed in this module (ATTR_RULES, FLAGS)"]

OPTIONAL, TRANSITIVE = 0x80, 0x40

# code -> canonical flags (RFC 4271 §5, RFC 4360, 4456, 4760, 6793, 7311, 8092, 8669, 7752, 9012)
FLAGS = {1: 0x40, 2: 0x40, 3: 0x40, 4: 0x80, 5: 0x40, 6: 0x40, 7: 0xC0, 8: 0xC0, 9: 0x80, 10: 0x80, 14: 0x80, 15: 0x80, 16: 0xC0,
         17: 0xC0, 18: 0xC0, 23: 0xC0, 26: 0x80, 29: 0x80, 32: 0xC0, 40: 0xC0}

# code -> list of required error atoms (regex on normalised guard atoms "expr:T|F")
ATTR_RULES = {
    1: [r"\(len != 1\):T", r"\(.* > .*ORIGIN_INCOMPLETE.*\):T|\(.* > 2\):T"],
    4: [r"\(len != 4\):T"], 5: [r"\(len != 4\):T"], 9: [r"\(len != 4\):T"],
    6: [r"\(len != 0\):T"],
    7: [r"\(len != 6\):T", r"\(len != 8\):T"],
    8: [r"is_multiple_of\(len, 4\):F"], 10: [r"is_multiple_of\(len, 4\):F"],
    16: [r"is_multiple_of\(len, 8\):F"], 32: [r"is_multiple_of\(len, 12\):F"],
    17: [r"is_multiple_of\(len, 2\):F", r"\(len < 6\):T", r"\(seg_count == 0\):T", r"contains\(.*seg_type.*\):F", r"\(pos > .*\):T"],
    18: [r"\(len != 8\):T"],
    2: [r"contains\(.*seg_type.*\):F", r"\((pos|seg_end) > .*\):T", r"\(\(pos \+ 2\)(\.0)? > .*\):T"],
}


def ceval(e):
    """Evaluate a constant integer expression tree, or None."""
    if not isinstance(e, tuple) or not e:
        return None
    if e[0] == "const":
        return e[1]
    if e[0] == "cast":
        return ceval(e[1])
    if e[0] == "bin":
        a, b = ceval(e[2]), ceval(e[3])
        if a is None or b is None:
            return None
        op = e[1]
        return {"BitOr": a | b, "BitAnd": a & b, "BitXor": a ^ b, "Add": a + b, "Sub": a - b, "Mul": a * b,
                "Shl": a << b if b < 64 else None, "Shr": a >> b if b < 64 else None}.get(op)
    return None


def atom(g, labels):
    s = show(g, 160)
    s = re.sub(r"\(([^()]*) as (u8|u16|u32|u64|usize)\)", r"\1", s)
    if labels == {"true"}:
        return s + ":T"
    if labels == {"false"}:
        return s + ":F"
    return s + ":" + "|".join(sorted(labels))


def run(prog, rep, tier):
    vu = view(prog, prog.one(r"rustybgp_packet::bgp::validate_update"))
    pm = view(prog, prog.one(r"rustybgp_packet::bgp::PeerCodec::parse_message"))
    dec = view(prog, prog.one(r"rustybgp_packet::bgp::Attribute::decode"))
    cf = view(prog, prog.one(r"rustybgp_packet::bgp::Attribute::canonical_flags"))

    r1 = rep.rule("R05.1", "Update::Reach only when treat_as_withdraw is false; reach -> Unreach on the true side; withdrawals on both")
    check_reach_guard(prog, vu, r1)
    r2 = rep.rule("R05.2", "treat_as_withdraw = missing_mandatory || any(!optional || transitive); missing_mandatory reads ORIGIN, AS_PATH, next hops")
    check_taw_def(prog, vu, r2)
    r3 = rep.rule("R05.3", "every attribute skip inside the attribute loop is classified")
    r4 = rep.rule("R05.4", "Err(Notification) inside the attribute loop only for duplicate MP attribute / opaque bounds")
    check_attr_loop(prog, pm, r3, r4)
    r5 = rep.rule("R05.5", "eBGP filter drops exactly {LOCAL_PREF, ORIGINATOR_ID, CLUSTER_LIST} and feeds every Reach")
    check_ebgp_filter(prog, vu, r5)
    r6 = rep.rule("R05.6", "Attribute::decode per-code validation equals the RFC table")
    check_attr_table(prog, dec, r6)
    r7 = rep.rule("R05.7", "canonical_flags equals the RFC flag table; flag comparison masks OPTIONAL|TRANSITIVE")
    check_flags(prog, cf, pm, r7)


# ---------------------------------------------------------------------------------------------
def _taw_branch(fv):
    for bi, br in branches(fv).items():
        if br.expr[0] == "var" and br.expr[1] == "treat_as_withdraw":
            return br
    return None


def check_reach_guard(prog, fv, r):
    r.analysed(fv.name)
    br = _taw_branch(fv)
    if br is None:
        r.unanalysable("validate_update: no branch on treat_as_withdraw", fv.loc())
        return
    from ..cfg import bool_edges
    f_edges, t_edges = bool_edges(fv, br, False), bool_edges(fv, br, True)
    UPD = re.compile(r"rustybgp_packet::bgp::Update")
    # sites where an Update::Reach / Unreach comes into being: aggregates in the body, or the calls a closure that builds
    # one flows into (iterator chains)
    reaches = emission_blocks(prog, fv, UPD, "Reach")
    unreaches = emission_blocks(prog, fv, UPD, "Unreach")
    if not reaches:
        r.unanalysable("validate_update: no Update::Reach construction found", fv.loc())
    for bi in reaches:
        if fv.edge_guarded(bi, f_edges):
            r.ok("Update::Reach @%d only when treat_as_withdraw is false" % fv.line(bi))
        else:
            r.fail(fv.name, "reach-under-withdraw", "Update::Reach can be produced although treat_as_withdraw holds: a route with a faulty attribute would be installed", fv.loc(bi))
    t_un = [x for x in unreaches if fv.edge_guarded(x, t_edges)]
    f_un = [x for x in unreaches if fv.edge_guarded(x, f_edges)]
    rend = Renderer(fv, depth=30, through_names=False)

    def sources(edges):
        """Variables that feed calls or aggregates (incl. closure captures) in the region behind `edges`."""
        srcs = set()
        for b in fv.live:
            if not fv.edge_guarded(b, edges):
                continue
            t = fv.blocks[b]["t"]
            if t["t"] == "call":
                for a in t["args"]:
                    srcs.update(expr_vars(rend.operand(a, 8)))
            if t["t"] == "switch":
                srcs.update(expr_vars(rend.operand(t["o"], 8)))
            for st in fv.blocks[b]["s"]:
                if "rv" in st:
                    srcs.update(expr_vars(rend.rvalue(st["rv"], 8)))
        return srcs
    need = {"reach", "mp_reach", "unreach", "mp_unreach"}
    st_, sf_ = sources(t_edges), sources(f_edges)
    if t_un and need <= st_:
        r.ok("treat-as-withdraw side: reach+mp_reach become Unreach, unreach+mp_unreach pass through")
    else:
        r.fail(fv.name, "withdraw-side", "treat-as-withdraw side builds %d Unreach message site(s) from %s; need reach, mp_reach, unreach, mp_unreach" % (len(t_un), sorted(st_ & need)), fv.loc(br.bi))
    if f_un and {"unreach", "mp_unreach"} <= sf_:
        r.ok("normal side: unreach and mp_unreach still produce Unreach")
    else:
        r.fail(fv.name, "normal-side-withdrawals", "withdrawals are not passed through on the normal side", fv.loc(br.bi))


def bool_paths(fv, max_paths=512):
    """Enumerate acyclic entry->return paths; yield (list of (Branch expr, label), return block)."""
    brs = branches(fv)
    out = []
    prog = fv.prog

    def go(b, seen, conds):
        if len(out) >= max_paths:
            return
        if b in fv.returns():
            out.append((list(conds), b))
            return
        for l, s in fv.succ[b]:
            if s in seen:
                continue
            c = conds
            if b in brs:
                c = conds + [(brs[b], brs[b].label(prog, l))]
            go(s, seen | {s}, c)
    go(fv.entry, {fv.entry}, [])
    return out


def check_taw_def(prog, fv, r):
    r.analysed(fv.name)
    # definitions of treat_as_withdraw
    l_taw = [l for l, n in fv.local_name.items() if n == "treat_as_withdraw"]
    if len(l_taw) != 1:
        r.unanalysable("treat_as_withdraw local not found", fv.loc())
        return
    rend = Renderer(fv, depth=30, through_names=False)
    mentions_mm = False
    clos = []
    for bi, si, s in fv.defs().get(l_taw[0], []):
        if bi not in fv.live:
            continue
        e = rend.call_expr(s, 30, bi) if si == "t" else rend.rvalue(s["rv"], 30)
        gtxt = [show(g, 80) for g, _, _ in flat_guards(fv, bi)]
        if "missing_mandatory" in expr_vars(e) or any("missing_mandatory" in g for g in gtxt):
            mentions_mm = True
        for x in walk(e):
            if isinstance(x, tuple) and x and x[0] == "agg" and x[1] == "closure":
                clos.append(x[2])
            # the predicate may also be a function item: `.any(AttributeError::demands_withdraw)`
            if isinstance(x, tuple) and x and x[0] == "call" and x[1].endswith("Iterator::any"):
                for a in x[2][1:]:
                    for y in walk(a):
                        if isinstance(y, tuple) and y and y[0] == "fnref":
                            ks = [k for k in prog.by_name.get(y[1], []) if k in prog.ix]
                            clos.extend(ks[:1])
            if isinstance(x, tuple) and x and x[0] == "call" and x[1].endswith("Iterator::any") and "error_attrs" not in expr_vars(x):
                pass
    if mentions_mm:
        r.ok("treat_as_withdraw depends on missing_mandatory")
    else:
        r.fail(fv.name, "taw-missing-mandatory", "treat_as_withdraw no longer depends on missing_mandatory", fv.loc())
    if len(clos) != 1:
        r.unanalysable("treat_as_withdraw: expected one closure over error_attrs, found %d" % len(clos), fv.loc())
    for ck in clos:
        cfv = view(prog, ck)
        table = {}
        for conds, rb in bool_paths(cfv):
            env = {}
            for br, lab in conds:
                m = None
                for x in walk(br.expr):
                    if isinstance(x, tuple) and x and x[0] == "bin" and x[1] == "BitAnd":
                        m = ceval(x[3]) if ceval(x[3]) is not None else ceval(x[2])
                e = br.expr
                if m in (OPTIONAL, TRANSITIVE) and e[0] == "bin" and e[1] in ("Ne", "Eq") and "attr_flags" in expr_fields(e):
                    val = (lab == "true") if e[1] == "Ne" else (lab == "false")
                    env["opt" if m == OPTIONAL else "trans"] = val
                elif e[0] == "var" and e[1] in ("optional", "transitive"):
                    env["opt" if e[1] == "optional" else "trans"] = (lab == "true")
            # return value on this path
            rv = None
            crend = Renderer(cfv, depth=10)
            for bi, si, s in cfv.defs().get(0, []):
                if si != "t" and cfv.dominates(bi, rb) or bi == rb:
                    ee = crend.rvalue(s["rv"], 10) if si != "t" else None
                    if ee is not None and (bi == rb or rb in cfv.reach(bi)) and all(True for _ in [0]):
                        # choose the def that lies on this path: its block's guards are consistent with conds
                        pass
            table.setdefault(tuple(sorted(env.items())), set()).add(_path_ret(cfv, conds, rb))
        # expected: result == (!opt || trans)
        bad = []
        seen_rows = 0
        for envk, vals in table.items():
            env = dict(envk)
            for opt in (False, True):
                for tr in (False, True):
                    if env.get("opt", opt) != opt or env.get("trans", tr) != tr:
                        continue
                    want = (not opt) or tr
                    got = set()
                    for v in vals:
                        if v == "opt":
                            got.add(opt)
                        elif v == "!opt":
                            got.add(not opt)
                        elif v == "trans":
                            got.add(tr)
                        elif v == "!trans":
                            got.add(not tr)
                        else:
                            got.add(v)
                    seen_rows += 1
                    if got != {want}:
                        bad.append((opt, tr, sorted(map(str, got))))
        if seen_rows == 0:
            r.unanalysable("treat_as_withdraw closure: truth table could not be extracted", cfv.loc())
        elif bad:
            r.fail(fv.name, "taw-truth-table", "per-attribute classification is not (!optional || transitive): rows (optional, transitive) -> %s" % bad[:4], cfv.loc())
        else:
            r.ok("per-attribute classification = !optional || transitive on attr_flags (4 rows)")
    # missing_mandatory
    toks = set()
    for kk in prog.with_closures(fv.key):
        toks |= fn_tokens(prog, kk, depth=0)
    need = {"ORIGIN": r"const:.*Attribute::ORIGIN$", "AS_PATH": r"const:.*Attribute::AS_PATH$", "nexthop": r"field:nexthop"}
    for nm, rx in need.items():
        if any(re.fullmatch(rx, t) for t in toks):
            r.ok("missing_mandatory reads %s" % nm)
        else:
            r.fail(fv.name, "missing-mandatory:" + nm, "validate_update no longer tests the presence of %s" % nm, fv.loc())
    check_missing_mandatory_disjuncts(prog, fv, r)
    l_mm = [l for l, n in fv.local_name.items() if n == "missing_mandatory"]
    if l_mm:
        txt = " ".join(show(rend.call_expr(s, 30, bi) if si == "t" else rend.rvalue(s["rv"], 30), 400) + " " + " ".join(show(g, 100) for g, _, _ in flat_guards(fv, bi))
                       for bi, si, s in fv.defs().get(l_mm[0], []) if bi in fv.live)
        for nm in ("reach", "mp_reach", "mp_reach_missing_nexthop"):
            if nm not in txt:
                r.fail(fv.name, "missing-mandatory-def:" + nm, "missing_mandatory does not consult %s" % nm, fv.loc())
    else:
        r.unanalysable("missing_mandatory local not found", fv.loc())


def check_missing_mandatory_disjuncts(prog, fv, r):
    """missing_mandatory = (reach || mp_reach) && (no ORIGIN || no AS_PATH || legacy reach without NEXT_HOP || MP reach
    without next hop).  `||` chains are lowered to control flow, so a disjunct takes part exactly when the branch on its
    value is a (transitive) control dependency of the block that assigns `true`."""
    l_mm = [l for l, n in fv.local_name.items() if n == "missing_mandatory"]
    if len(l_mm) != 1:
        return
    true_blocks = [bi for bi, si, s in fv.defs().get(l_mm[0], []) if bi in fv.live and si != "t" and s["rv"]["r"] == "use" and (s["rv"]["o"].get("k") or {}).get("v") == 1]
    if not true_blocks:
        # single-expression form: fall back to the branches that dominate any definition
        true_blocks = [bi for bi, si, s in fv.defs().get(l_mm[0], []) if bi in fv.live]
    cd = fv.control_deps()
    deps, work = set(), list(true_blocks)
    while work:
        b = work.pop()
        for (bb, l, s_) in cd.get(b, ()):
            if bb not in deps:
                deps.add(bb)
                work.append(bb)
    brs = branches(fv)
    found = {"ORIGIN": False, "AS_PATH": False, "legacy NEXT_HOP": False, "MP next hop": False}
    exprs = [brs[bb].expr for bb in deps if bb in brs]
    # the last operand of an `||` chain is assigned directly, not branched on
    rend = Renderer(fv, depth=20)
    for bi, si, s_ in fv.defs().get(l_mm[0], []):
        if bi in fv.live and si != "t" and not (s_["rv"]["r"] == "use" and "k" in s_["rv"]["o"]):
            exprs.append(rend.rvalue(s_["rv"], 20))
    for e in exprs:
        vs = set(expr_vars(e))
        if "mp_reach_missing_nexthop" in vs:
            found["MP next hop"] = True
        for x in walk(e):
            if isinstance(x, tuple) and x and x[0] == "agg" and x[1] == "closure" and x[2] in prog.ix:
                toks = fn_tokens(prog, x[2], depth=0)
                if any(re.fullmatch(r"const:.*Attribute::ORIGIN$", t) for t in toks):
                    found["ORIGIN"] = True
                if any(re.fullmatch(r"const:.*Attribute::AS_PATH$", t) for t in toks):
                    found["AS_PATH"] = True
                if "field:nexthop" in toks and any(t.endswith("Option::<T>::is_none") for t in toks if t.startswith("call:")):
                    if "reach" in vs and "mp_reach" not in vs:
                        found["legacy NEXT_HOP"] = True
    for nm, ok in found.items():
        if ok:
            r.ok("missing_mandatory: the %s test decides the value" % nm)
        else:
            r.fail(fv.name, "missing-mandatory-disjunct:" + nm.replace(" ", "_"),
                   "the value of missing_mandatory no longer depends on the %s test: an UPDATE lacking it is classified by its other errors only "
                   "(a discardable attribute error then lets the route through without it)" % nm, fv.loc(true_blocks[0]))


def _path_ret(cfv, conds, rb):
    """Return value along a path: True/False const, or 'opt'/'trans'/'!opt'/'!trans'."""
    rend = Renderer(cfv, depth=10)
    # the def of _0 whose block is on the path: pick defs whose necessary guards are consistent with conds
    cm = {}
    for br, lab in conds:
        cm[br.bi] = lab
    for bi, si, s in cfv.defs().get(0, []):
        if bi not in cfv.live or si == "t":
            continue
        ok = True
        for br, labels in guards_of(cfv, bi):
            if br.bi in cm and cm[br.bi] not in labels:
                ok = False
        if not ok or not (bi == rb or rb in cfv.reach(bi)):
            continue
        e = rend.rvalue(s["rv"], 10)
        neg = False
        while e[0] == "un" and e[1] == "Not":
            e = e[2]
            neg = not neg
        if e[0] == "const":
            v = bool(e[1])
            return (not v) if neg else v
        if e[0] == "var" and e[1] in ("optional", "transitive"):
            nm = "opt" if e[1] == "optional" else "trans"
            return ("!" if neg else "") + nm
        if e[0] == "bin" and e[1] in ("Ne", "Eq"):
            m = None
            for x in walk(e):
                if isinstance(x, tuple) and x and x[0] == "bin" and x[1] == "BitAnd":
                    m = ceval(x[3]) if ceval(x[3]) is not None else ceval(x[2])
            if m in (OPTIONAL, TRANSITIVE):
                nm = "opt" if m == OPTIONAL else "trans"
                n2 = neg != (e[1] == "Eq")
                return ("!" if n2 else "") + nm
        return "?" + show(e, 40)
    return "?"


# ---------------------------------------------------------------------------------------------
def _attr_loop(fv):
    dec = [b for b, t in fv.calls(re.compile(r"rustybgp_packet::bgp::Attribute::decode"))]
    if len(dec) != 1:
        return None, None
    best = None
    for h, body, backs in loops(fv):
        if dec[0] in body and (best is None or len(body) < len(best[1])):
            best = (h, body)
    return best, dec[0]


def _gkey(fv, b):
    return frozenset((show(g, 120), tuple(sorted(l))) for g, l, h in flat_guards(fv, b))


def check_attr_loop(prog, fv, r3, r4):
    r3.analysed(fv.name)
    r4.analysed(fv.name)
    lp, decb = _attr_loop(fv)
    if lp is None:
        r3.unanalysable("parse_message: attribute loop (the loop around Attribute::decode) not found", fv.loc())
        return
    head, body = lp
    pushes = [b for b, t in fv.calls(re.compile(r".*Vec::<T, A>::push")) if "AttributeError" in t["f"].get("ga", "") and b in body]
    apush = [b for b, t in fv.calls(re.compile(r".*Vec::<T, A>::push")) if "bgp::Attribute," in t["f"].get("ga", "") + "," and "AttributeError" not in t["f"].get("ga", "") and b in body]
    skips = [b for b, t in fv.calls(re.compile(r".*Cursor::<T>::set_position")) if b in body]
    n = 0
    for sb in skips:
        gs = flat_guards(fv, sb)
        atoms = [atom(g, l) for g, l, h in gs]
        txt = " & ".join(atoms)
        key = _gkey(fv, sb)
        same_push = [p for p in pushes if _gkey(fv, p) == key]
        n += 1
        cls = None
        if any(g[0] == "call" and re.search(r"HashSet::<[^>]*>::insert$", g[1]) and l == {"false"} for g, l, h in gs) or "insert(" in txt and ":F" in txt and "seen" in txt:
            cls = "duplicate"
            r3.ok("skip @%d: duplicate attribute (first occurrence wins)" % fv.line(sb))
        elif any(g[0] == "discr" and any(c.endswith("Attribute::decode") for c in expr_calls(g)) and l == {"Err"} for g, l, h in gs):
            cls = "decode-error"
            # push in the Err arm whose extra guards are only `code != AS4_PATH/AS4_AGGREGATOR`
            ok = False
            for p in pushes:
                pg = flat_guards(fv, p)
                if not any(g[0] == "discr" and any(c.endswith("Attribute::decode") for c in expr_calls(g)) and l == {"Err"} for g, l, h in pg):
                    continue
                extra = [(g, l) for g, l, h in pg if (show(g, 120), tuple(sorted(l))) not in key]
                good = True
                for g, l in extra:
                    v = None
                    if g[0] == "bin" and g[1] in ("Ne", "Eq") and "code" in expr_vars(g):
                        v = ceval(g[3]) if ceval(g[3]) is not None else ceval(g[2])
                        pol = (l == {"true"}) if g[1] == "Ne" else (l == {"false"})
                        if v in (17, 18) and pol:
                            continue
                    good = False
                if good:
                    ok = True
            if ok:
                r3.ok("skip @%d: decode error recorded in error_attrs unless code is AS4_PATH/AS4_AGGREGATOR" % fv.line(sb))
            else:
                r3.fail(fv.name, "skip:decode-error", "a value/length error from Attribute::decode is skipped without being recorded in error_attrs (allowed only for AS4_PATH / AS4_AGGREGATOR)", fv.loc(sb))
        elif any("BitXor" in str(g) or "^" in show(g, 200) for g, l, h in gs) and not any(g[0] == "discr" and any(c.endswith("Attribute::decode") for c in expr_calls(g)) for g, l, h in gs):
            cls = "flag-mismatch"
            if same_push:
                r3.ok("skip @%d: flag mismatch recorded in error_attrs" % fv.line(sb))
            else:
                r3.fail(fv.name, "skip:flag-mismatch", "an attribute with wrong flags is skipped without being recorded in error_attrs", fv.loc(sb))
        elif any(g[0] == "discr" and any(c.endswith("Attribute::canonical_flags") for c in expr_calls(g)) and l == {"None"} for g, l, h in gs):
            opt = tr = None
            for g, l, h in gs:
                m = None
                for x in walk(g):
                    if isinstance(x, tuple) and x and x[0] == "bin" and x[1] == "BitAnd":
                        m = ceval(x[3]) if ceval(x[3]) is not None else ceval(x[2])
                if g[0] == "bin" and g[1] in ("Eq", "Ne") and m in (OPTIONAL, TRANSITIVE):
                    is_set = (l == {"true"}) if g[1] == "Ne" else (l == {"false"})
                    if m == OPTIONAL:
                        opt = is_set
                    else:
                        tr = is_set
            if opt is False:
                cls = "unknown-wellknown"
                if same_push:
                    r3.ok("skip @%d: unrecognised well-known attribute recorded in error_attrs" % fv.line(sb))
                else:
                    r3.fail(fv.name, "skip:unknown-wellknown", "an unrecognised well-known attribute is skipped without being recorded in error_attrs", fv.loc(sb))
            elif opt and tr:
                cls = "unknown-optional-transitive"
                if [p for p in apush if _gkey(fv, p) == key or fv.dominates(sb, p)]:
                    r3.ok("skip @%d: unknown optional transitive stored as opaque" % fv.line(sb))
                else:
                    r3.fail(fv.name, "skip:unknown-opt-trans", "unknown optional transitive attribute is consumed but not kept", fv.loc(sb))
            elif opt and tr is False:
                cls = "unknown-optional-nontransitive"
                r3.ok("skip @%d: unknown optional non-transitive discarded" % fv.line(sb))
            else:
                r3.unanalysable("skip under canonical_flags None with unclear flag tests: %s" % txt[:200], fv.loc(sb))
        else:
            r3.fail(fv.name, "skip:unclassified", "an attribute is consumed on a path that fits no RFC 7606 class (guards: %s)" % txt[:240], fv.loc(sb))
    r3.floor("attribute skip sites in the UPDATE attribute loop", n, 6)
    # unrecognised attribute codes are classified by single flag bits: "well-known" is OPTIONAL clear, whatever the rest
    brs_all = branches(fv)
    n_masks = 0
    for bb, br in sorted(brs_all.items()):
        e = br.expr
        if not (e[0] == "bin" and e[1] in ("Eq", "Ne") and "flags" in expr_vars(e)):
            continue
        if not any(g[0] == "discr" and any(c.endswith("Attribute::canonical_flags") for c in expr_calls(g)) and l == {"None"} for g, l, h in flat_guards(fv, bb, brs_all)):
            continue
        for x in walk(e):
            if isinstance(x, tuple) and x and x[0] == "bin" and x[1] == "BitAnd":
                m = ceval(x[3]) if ceval(x[3]) is not None else ceval(x[2])
                n_masks += 1
                if m in (OPTIONAL, TRANSITIVE):
                    r3.ok("unknown attribute: flag test under mask 0x%02x @%d" % (m, fv.line(bb)))
                else:
                    r3.fail(fv.name, "unknown-attr-flag-mask", "an unrecognised attribute is classified by testing flags under mask %s (line %d): the well-known / optional and transitive classes are "
                            "decided by the OPTIONAL (0x80) and TRANSITIVE (0x40) bits one at a time — a well-known attribute legitimately carries TRANSITIVE" % ("0x%02x" % m if m is not None else "?", fv.line(bb)), fv.loc(bb))
    if n_masks < 2:
        r3.unanalysable("flag tests on unrecognised attributes: found %d (want >= 2)" % n_masks, fv.loc())
    # truncated block: after the loop, push under position != attr_end
    post = [b for b, t in fv.calls(re.compile(r".*Vec::<T, A>::push")) if "AttributeError" in t["f"].get("ga", "") and b not in body]
    trunc = False
    for p in post:
        for g, l, h in flat_guards(fv, p):
            if g[0] == "bin" and g[1] in ("Ne", "Eq") and any(c.endswith("Cursor::<T>::position") for c in expr_calls(g)) and "attr_end" in expr_vars(g):
                if (g[1] == "Ne") == (l == {"true"}):
                    trunc = True
    if trunc:
        r3.ok("truncated attribute block (position != attr_end) recorded in error_attrs")
    else:
        r3.fail(fv.name, "truncated-block", "a truncated attribute block is not recorded as an error after the loop", fv.loc(head))
    # breaks out of the loop must be length-justified: every loop exit edge other than the header's is under a
    # comparison with attr_end
    # R05.4: Err returns in the loop body
    errs = []
    for b in sorted(body):
        for s in fv.blocks[b]["s"]:
            rv = s.get("rv")
            if rv and rv["r"] == "agg" and rv.get("k") == "adt" and rv["v"] == "Err" and s["p"]["l"] == 0:
                errs.append(b)
    # Err returns that leave the function from inside the loop: dominated by the header, not part of the
    # post-loop code (what the header's own exit edge reaches; `break`s land there too)
    post = set()
    from ..util import loop_cond_exits
    for sx in loop_cond_exits(fv, head, body):
        post |= fv.reach(sx)
    for b in sorted(fv.live - body - post):
        if not fv.dominates(head, b):
            continue
        for s in fv.blocks[b]["s"]:
            rv = s.get("rv")
            if rv and rv["r"] == "agg" and rv.get("k") == "adt" and rv["v"] == "Err" and s["p"]["l"] == 0:
                errs.append(b)
    n4 = 0
    for b in sorted(set(errs)):
        gs = flat_guards(fv, b)
        txt = " & ".join(atom(g, l) for g, l, h in gs)
        dup = any(g[0] == "call" and re.search(r"HashSet::<[^>]*>::insert$", g[1]) and l == {"false"} for g, l, h in gs)
        brs_all = branches(fv)
        cd_atoms = []
        x = b
        for _ in range(4):     # the Err block and the straight-line blocks leading to it
            for (cb, cl, cs) in fv.control_deps().get(x, ()):
                if cb in brs_all:
                    cd_atoms.append(brs_all[cb].expr)
            ps = [p for _, p in fv.pred[x]]
            if len(ps) != 1:
                break
            x = ps[0]
        mp = any(g[0] == "bin" and g[1] == "Eq" and "code" in expr_vars(g) and ceval(g[3]) in (14, 15) for g in cd_atoms + [g for g, l, h in gs])
        opaque = any(g[0] == "discr" and any(c.endswith("Attribute::canonical_flags") for c in expr_calls(g)) and l == {"None"} for g, l, h in gs) and \
            any(g[0] == "bin" and g[1] in ("Gt", "Lt", "Ge", "Le") and any(c.endswith("::len") for c in expr_calls(g)) for g, l, h in gs)
        n4 += 1
        if dup and mp:
            r4.ok("Err @%d: duplicate MP_REACH/MP_UNREACH (NLRI cannot be located unambiguously)" % fv.line(b))
        elif opaque:
            r4.ok("Err @%d: opaque attribute bounds check" % fv.line(b))
        else:
            r4.fail(fv.name, "err-in-attr-loop", "the session is reset from inside the attribute loop under %s; RFC 7606 wants treat-as-withdraw/discard for attribute errors" % txt[:220], fv.loc(b))
    r4.floor("Err returns in the attribute loop", n4, 2)


def _loop_exits(fv, head, body):
    out = set()
    for b in body:
        for l, s in fv.succ[b]:
            if s not in body:
                out.add(s)
    return out


# ---------------------------------------------------------------------------------------------
def check_ebgp_filter(prog, fv, r):
    r.analysed(fv.name)
    # closure passed to filter: switch values on code()
    found = None
    for ck in prog.with_closures(fv.key)[1:]:
        cfv = view(prog, ck)
        if not cfv.calls(re.compile(r"rustybgp_packet::bgp::Attribute::code")):
            continue
        for bi, br in branches(cfv).items():
            if br.ty == "u8" and any(c.endswith("Attribute::code") for c in expr_calls(br.expr)):
                vals = sorted(v for v, _ in br.cases)
                if set(vals) & {5, 9, 10} or len(vals) >= 2:
                    found = (cfv, bi, vals)
    if not found:
        r.fail(fv.name, "no-ebgp-filter", "no attribute filter on code() found in validate_update", fv.loc())
        return
    cfv, bi, vals = found
    if vals == [5, 9, 10]:
        r.ok("eBGP filter removes codes {5,9,10}")
    else:
        r.fail(fv.name, "ebgp-filter-set", "the eBGP filter removes attribute codes %s; iBGP-only attributes are {5 LOCAL_PREF, 9 ORIGINATOR_ID, 10 CLUSTER_LIST}" % vals, cfv.loc(bi))
    # the filter is under is_ebgp == true and its result reaches every Reach.attr
    filt = [b for b, t in fv.calls(re.compile(r".*Iterator::filter"))]
    ok = False
    for b in filt:
        for g, l, h in flat_guards(fv, b):
            if g[0] == "var" and g[1] == "is_ebgp" and l == {"true"}:
                ok = True
    if ok:
        r.ok("filter applied exactly when is_ebgp")
    else:
        r.fail(fv.name, "ebgp-filter-guard", "the iBGP-only attribute filter is not applied under is_ebgp", fv.loc())
    rend = Renderer(fv, depth=30, through_names=True)
    for bi, si, s in fv.aggregates(re.compile(r"rustybgp_packet::bgp::Update"), "Reach"):
        e = rend.operand(agg_field(s, "attr"), 30)
        # `attr` is Arc::new(attrs) where attrs is the (possibly filtered) shadowing variable
        if "attrs" in expr_vars(e) or any(c.endswith("Iterator::filter") for c in expr_calls(e)) or "attr" in expr_vars(e):
            r.ok("Reach @%d carries the filtered attribute vector" % fv.line(bi))
        else:
            r.fail(fv.name, "reach-unfiltered-attrs", "a Reach output does not carry the filtered attributes: %s" % show(e, 80), fv.loc(bi))
    # caller: is_ebgp argument derives from PeerRole::Ebgp
    vm = prog.one(r"rustybgp_packet::bgp::validate_message")
    n = 0
    for c in sorted(prog.callers(vm)):
        if not c.startswith("rustybgpd::"):
            continue
        cfv2 = view(prog, c)
        for b, t in cfv2.calls(re.compile(r"rustybgp_packet::bgp::validate_message")):
            n += 1
            e = Renderer(cfv2, depth=25, through_names=True).operand(t["args"][1], 25)
            txt = show(e, 300)
            if re.search(r"Ebgp|is_ebgp|ebgp", txt):
                r.ok("%s passes is_ebgp = %s" % (short(root_name(prog, c)), show(e, 70)))
            else:
                r.fail(root_name(prog, c), "is_ebgp-arg", "validate_message is called with is_ebgp = %s" % show(e, 100), cfv2.loc(b))
    r.floor("daemon call sites of validate_message", n, 1)


# ---------------------------------------------------------------------------------------------
def check_attr_table(prog, fv, r):
    r.analysed(fv.name)
    brs = branches(fv)
    code_sw = None
    for bi, br in brs.items():
        if br.expr[0] == "var" and br.expr[1] == "code" and len(br.cases) >= 8:
            code_sw = br
    if code_sw is None:
        r.unanalysable("Attribute::decode: switch on `code` not found", fv.loc())
        return
    # Err(()) returns that are written out (not from `?`), read off the entry->return paths: the attribute codes the path is
    # restricted to and the other branch outcomes on it, with locals that hold a constant on that path replaced by the
    # constant (`let size = match code { COMMUNITY => 4, .. }; if !len.is_multiple_of(size)` reads as is_multiple_of(len, 4))
    from ..paths import enumerate_paths, PathLimit
    table = {}
    by_param = {}
    err_blocks = set()
    for b in sorted(fv.live):
        for s in fv.blocks[b]["s"]:
            rv = s.get("rv")
            if rv and rv["r"] == "agg" and rv.get("k") == "adt" and rv["v"] == "Err" and not s.get("x") and not s["p"].get("p") and \
                    (s["p"]["l"] == 0 or re.search(r"Result<.*, \(\)>$", fv.f["locals"][s["p"]["l"]])):
                # .. also the written-out Err(()) of an arm that was moved into a helper (analysed in place): it lands in the
                # helper's result slot and reaches the caller's return through `?`
                err_blocks.add(b)
    try:
        dpaths = enumerate_paths(fv, Renderer(fv), max_paths=40000)
    except PathLimit:
        dpaths = None
        r.unanalysable("Attribute::decode: too many paths", fv.loc())

    def subst(e, env):
        if not isinstance(e, tuple) or not e:
            return e
        if e[0] == "var":
            for l, n in fv.local_name.items():
                if n == e[1] and isinstance(env.get((l, ())), int) and l > fv.f["argc"]:
                    return ("const", env[(l, ())], None, None)
            return e
        return tuple(subst(x, env) if isinstance(x, tuple) and x and isinstance(x[0], str) else
                     (tuple(subst(y, env) for y in x) if isinstance(x, tuple) else x) for x in e)
    for conds, blocks, env in (dpaths or []):
        if not (err_blocks & set(blocks)):
            continue
        codes = None
        atoms = set()
        for br, labels in conds:
            if br.expr == code_sw.expr:
                if "else" in labels:
                    # the catch-all arm of a (nested) match on the code: every code not listed there
                    listed = {str(v) for v, _ in br.cases}
                    if codes is not None:
                        codes = {c for c in codes if c not in listed}
                    else:
                        codes = {str(c) for c in ATTR_RULES if str(c) not in listed}
                else:
                    codes = set(labels) if codes is None else (codes & set(labels))
            else:
                atoms.add(atom(subst(br.expr, env), set(labels)))
        if not codes:
            continue
        for c in codes:
            table.setdefault(c, set()).update(atoms)
        # the same attribute decoded under a session parameter (AS_PATH with 2-octet or 4-octet AS numbers) has one arm per
        # value of the parameter: each arm needs the checks
        for br, labels in conds:
            e_ = br.expr
            while isinstance(e_, tuple) and e_ and e_[0] in ("un",) and e_[1] == "Not":
                e_ = e_[2]
            if isinstance(e_, tuple) and e_ and e_[0] == "var" and set(labels) <= {"true", "false"} and len(labels) == 1:
                pl = [l for l, n in fv.local_name.items() if n == e_[1] and 1 <= l <= fv.f["argc"] and fv.f["locals"][l] == "bool"]
                if pl:
                    for c in codes:
                        by_param.setdefault((c, e_[1]), {}).setdefault(next(iter(labels)), set()).update(atoms)
    for (c, pname), sides in sorted(by_param.items()):
        if not c.isdigit() or int(c) not in ATTR_RULES or len(sides) < 2:
            continue
        for rq in ATTR_RULES[int(c)]:
            have = {side for side, at in sides.items() if any(re.search(rq, a) for a in at)}
            if have and have != set(sides):
                miss = sorted(set(sides) - have)
                r.fail(fv.name, "attr-rule-one-arm:%s:%s:%s=%s" % (c, re.sub(r"[\\\\().*|:]+", "", rq)[:24], pname, "/".join(miss)),
                       "Attribute::decode(code %s) makes the RFC check /%s/ only when %s is %s; with %s = %s the same attribute is accepted unchecked" % (c, rq, pname, "/".join(sorted(have)), pname, "/".join(miss)), fv.loc())
            elif have:
                r.ok("code %s: error on %s in both %s arms" % (c, rq, pname))
    for code, reqs in sorted(ATTR_RULES.items()):
        atoms = table.get(str(code), set())
        for rq in reqs:
            if any(re.search(rq, a) for a in atoms):
                r.ok("code %d: error on %s" % (code, rq))
            else:
                r.fail(fv.name, "attr-rule:%d:%s" % (code, re.sub(r"[\\\\().*|:]+", "", rq)[:24]),
                       "Attribute::decode(code %d) has no error return for the RFC check /%s/ (found: %s)" % (code, rq, sorted(atoms)[:6]), fv.loc())


def check_flags(prog, cf, pm, r):
    r.analysed(cf.name, pm.name)
    brs = branches(cf)
    sw = [br for br in brs.values() if br.expr[0] == "var" and br.expr[1] == "code"]
    if len(sw) != 1:
        r.unanalysable("canonical_flags: switch on code not found", cf.loc())
        return
    br = sw[0]
    rend = Renderer(cf, depth=8)
    got = {}
    for v, tgt in br.cases:
        # follow straight-line to the Some(..) aggregate
        b, steps = tgt, 0
        val = None
        while b is not None and steps < 6 and val is None:
            for s in cf.blocks[b]["s"]:
                rv = s.get("rv")
                if rv and rv["r"] == "agg" and rv.get("k") == "adt" and rv["v"] == "Some":
                    val = ceval(rend.operand(rv["fields"][0], 8))
            nx = cf.succ[b]
            b = nx[0][1] if len(nx) == 1 else None
            steps += 1
        got[v] = val
    for code, fl in sorted(FLAGS.items()):
        if code not in got:
            r.fail(cf.name, "flags:%d:missing" % code, "attribute code %d has no canonical flags (it would be treated as unknown)" % code, cf.loc())
        elif got[code] != fl:
            r.fail(cf.name, "flags:%d" % code, "attribute code %d: canonical flags %s, RFC says 0x%02x" % (code, ("0x%02x" % got[code]) if got[code] is not None else "?", fl), cf.loc())
        else:
            r.ok("code %d flags 0x%02x" % (code, fl))
    for code in sorted(set(got) - set(FLAGS)):
        r.fail(cf.name, "flags:%d:extra" % code, "attribute code %d has canonical flags but is not in the reviewed table" % code, cf.loc())
    # mask in parse_message
    ok = False
    for bi, brr in branches(pm).items():
        e = brr.expr
        if any(isinstance(x, tuple) and x and x[0] == "bin" and x[1] == "BitXor" for x in walk(e)):
            for x in walk(e):
                if isinstance(x, tuple) and x and x[0] == "bin" and x[1] == "BitAnd":
                    m = ceval(x[3])
                    if m == 0xC0:
                        ok = True
                    elif m is not None:
                        r.fail(pm.name, "flag-mask", "wire flags are compared under mask 0x%02x, not OPTIONAL|TRANSITIVE (0xC0)" % m, pm.loc(bi))
                        ok = True
    if ok:
        r.ok("flag comparison masks 0xC0")
    else:
        r.unanalysable("parse_message: flag comparison (flags ^ expected) & mask not found", pm.loc())
