"""C04 — encoded BGP messages are well-framed (structural clauses)."""
import re

from ..absint import INF, analyse
from ..bytecount import ByteCount
from ..cfg import Renderer, walk, show, flat_guards, branches, guards_of
from ..facts import callee_names, short
from ..util import view, crate_fns, root_name, expr_calls, expr_fields, expr_vars, loops, deep_calls, var_def_expr

EXPLANATION = (
    "Static rules over packet/src/bgp.rs and the NLRI encoders. R04.1 every loop that appends NLRI entries to an UPDATE "
    "(do_encode traditional reach / withdrawn, mp_reach_encode, mp_unreach_encode) is guarded by a fit test "
    "`head + max_message_length() > len(dst) + max_len`, and for every address family that can reach the loop (family -> NLRI "
    "type table extracted from Nlri::decode, family tests dominating the loop) the reservation max_len is at least the largest "
    "number of bytes the family's NLRI encoder can append (computed from the encoder's MIR by a byte-count path analysis with "
    "loop bounds from abstract interpretation; +4 for the path id iff add-path, checked separately); R04.2 every recorded "
    "length position (pos_*, *_pos) is back-patched on every path to the return; R04.3 every byte written between a length "
    "placeholder and its patch is counted: results of encode_wire / mp_*_encode / Nlri::encode flow into the accumulator "
    "that is patched in; R04.4 the arithmetic that produces length fields (u8/u16 accumulators, narrowing casts) cannot "
    "wrap; R04.5 encode_to never reports success while entries remain unencoded; R04.6 the encoder's and the decoder's NLRI "
    "dispatch tables name the same types. Decides these structural clauses, not decode(encode(x)) == x.")
ASSUMPTIONS = ["Ipv4Net.mask <= 32 and Ipv6Net.mask <= 128 for every stored prefix (established by the decoders and, for API input, by C17 R17.2)",
               "models of bytes::BufMut (analysis/models.py, analysis/bytecount.py)"]

INV = {"rustybgp_packet::bgp::Ipv4Net": {1: (0, 32)}, "rustybgp_packet::bgp::Ipv6Net": {1: (0, 128)}}
CODEC = r"rustybgp_packet::bgp::PeerCodec::"
LOOP_FNS = ("do_encode", "mp_reach_encode", "mp_unreach_encode", "append_nlri")


def fam_name(v):
    return "afi=%d/safi=%d" % (v >> 16, v & 0xffff)


def run(prog, rep, tier):
    bc = ByteCount(prog, INV)
    table = decode_table(prog)
    r1 = rep.rule("R04.1", "every NLRI append loop has a fit guard whose reservation covers the families that reach it")
    check_fit(prog, r1, bc, table)
    r2 = rep.rule("R04.2", "recorded length positions are back-patched on every path")
    check_backpatch(prog, r2)
    r3 = rep.rule("R04.3", "bytes written under a length placeholder are counted into the patched value")
    check_accumulators(prog, r3)
    r4 = rep.rule("R04.4", "length-field arithmetic cannot wrap or truncate")
    check_length_arith(prog, r4)
    r5 = rep.rule("R04.5", "encode_to does not report success while entries remain")
    check_no_silent_drop(prog, r5)
    r7 = rep.rule("R04.7", "attribute length form and AS4 reconciliation conditions")
    check_attr_length_form(prog, r7)
    check_as4_reconcile(prog, r7)
    r6 = rep.rule("R04.6", "encoder and decoder dispatch on the same NLRI types")
    check_tables(prog, r6, table)
    check_flowspec_len(prog, r6)


# ---------------------------------------------------------------------------------------------- tables
    r9 = rep.rule("R04.9", "MP_REACH next hop: an IPv4 address is padded to 16 octets only for families whose next hop field is defined as 16 octets; EVPN, multicast and SR Policy carry it as is")
    check_nexthop_padding(prog, r9)
    check_counted_after_append(prog, r5)
    r8 = rep.rule("R04.8", "encoders consult the negotiated ADD-PATH *send* state, parsers the *receive* state")
    check_addpath_direction(prog, r8)


def decode_table(prog):
    """family value -> NLRI payload type (path prefix of `T::decode`) from Nlri::decode."""
    fv = view(prog, prog.one(r"rustybgp_packet::bgp::Nlri::decode"))
    brs = branches(fv)
    out = {}
    for bi, t in fv.calls(re.compile(r"rustybgp_packet::.*::decode$")):
        ty = prog.name(t["f"].get("rkey") or t["f"]["key"]) if (t["f"].get("rkey") or t["f"].get("key")) in prog.ix else t["f"]["name"]
        ty = ty[:-len("::decode")]
        for g, labels, how in flat_guards(fv, bi, brs, named=True):
            if g[0] == "field" and "family" in expr_vars(g) and all(str(x).isdigit() for x in labels):
                for x in labels:
                    out[int(x)] = ty
    return out



def _encoder_of(prog, ty):
    ks = [k for k in prog.ix if prog.name(k) == ty + "::encode" and prog.ix[k]["kind"] in ("fn", "method")]
    return ks[0] if len(ks) == 1 else None


def _buf_param(prog, key):
    f = prog.fn(key)
    for i in range(1, f["argc"] + 1):
        if f["locals"][i].startswith("&mut"):
            return i
    return None


# ---------------------------------------------------------------------------------------------- R04.1
def check_fit(prog, r, bc, table):
    if len(table) < 15:
        r.unanalysable("Nlri::decode dispatch table has %d families (want >= 15)" % len(table))
        return
    bounds = {}
    for fam, ty in sorted(table.items()):
        ek = _encoder_of(prog, ty)
        bp = _buf_param(prog, ek) if ek else None
        bounds[fam] = bc.bound(ek, bp) if (ek and bp) else INF
        if not ek:
            r.unanalysable("no encoder found for %s" % ty)
    n_sites = 0
    variant_ty = _variant_types(prog)
    for fn in LOOP_FNS:
        ks = prog.find(CODEC + fn)
        if not ks:
            continue
        key = ks[0]
        fv = view(prog, key)
        it = analyse(prog, key, type_invariants=INV)
        brs = branches(fv)
        rend = Renderer(fv, depth=12)
        lps = loops(fv)
        for bi, t in fv.calls(re.compile(r"rustybgp_packet::bgp::Nlri::encode$")):
            n_sites += 1
            r.analysed(fv.name)
            line = fv.line(bi)
            # which length section is this?  tag by the enclosing guards (traditional reach / withdrawn / mp)
            gs = flat_guards(fv, bi, brs, named=True)
            tag = fn + ":" + _site_tag(fv, bi, gs)
            if not any(bi in body for h, body, backs in lps):
                r.unanalysable("%s: Nlri::encode call at line %d is not inside a loop" % (short(fv.name), line), fv.loc(bi))
                continue
            # which buffer does the entry go to: the output buffer (a parameter) or a local scratch buffer?
            from ..models import referent as _referent
            st0 = it.IN[bi].copy() if bi in it.IN else None
            buf_ref = None
            if st0 is not None:
                for j, s2 in enumerate(fv.blocks[bi]["s"]):
                    if "rv" in s2:
                        it.do_assign(st0, s2, bi, j, False)
                buf_ref = _referent(it, st0, t["args"][1])
            m_loc = re.fullmatch(r"L(\d+)", buf_ref or "")
            if m_loc and int(m_loc.group(1)) > fv.f["argc"]:
                _check_scratch(prog, r, fv, it, brs, bi, tag, int(m_loc.group(1)), lps, bc, key)
                continue
            fit = None
            for g, labels, how in gs:
                if g[0] == "bin" and g[1] in ("Gt", "Ge", "Lt", "Le") and labels <= {"true", "false"}:
                    a, b = g[2], g[3]
                    ca, cb = deep_calls(fv, a, at=bi), deep_calls(fv, b, at=bi)
                    lim_a = any(c.endswith("max_message_length") for c in ca)
                    lim_b = any(c.endswith("max_message_length") for c in cb)
                    if lim_a == lim_b:
                        continue
                    op = g[1]
                    if labels == {"false"}:
                        op = {"Gt": "Le", "Ge": "Lt", "Lt": "Ge", "Le": "Gt"}[op]
                    # normalise to  limit_side OP used_side
                    if lim_b:
                        a, b = b, a
                        op = {"Gt": "Lt", "Ge": "Le", "Lt": "Gt", "Le": "Ge"}[op]
                    fit = (op, a, b)
            if fit is None or fit[0] not in ("Gt", "Ge"):
                r.fail(fv.name, "no-fit-guard:" + tag, "the NLRI entry at line %d is appended without a dominating test `head + max_message_length() > len + reservation`%s"
                       % (line, "" if fit is None else " (the test found has the wrong direction: %s)" % fit[0]), fv.loc(bi))
                continue
            op, lim, used = fit
            strict = op == "Gt"
            if not any(c.endswith("::len") for c in expr_calls(used)):
                r.fail(fv.name, "fit-guard-shape:" + tag, "the fit test at line %d does not compare against the current length of the output buffer: %s" % (line, show(used, 80)), fv.loc(bi))
                continue
            res_vars = [v for v in expr_vars(used) if v not in ("dst", "self")]
            if len(res_vars) != 1:
                r.fail(fv.name, "fit-guard-shape:" + tag, "the fit test at line %d has no single reservation variable: %s" % (line, show(used, 80)), fv.loc(bi))
                continue
            rv = res_vars[0]
            defs = _reservation_defs(fv, it, rv, brs, bi)
            if not defs:
                r.unanalysable("%s: cannot evaluate the reservation `%s`" % (short(fv.name), rv), fv.loc(bi))
                continue
            # add-path: the reservation grows by 4 exactly when a path id is written
            ap_ok = all(hi - lo == 4 for lo, hi, fam_guard in defs)
            pid = [b for b, tt in fv.calls(re.compile(r".*BufMut::put_u32$")) if any(bi in body and b in body for h, body, backs in lps)]
            pid_guarded = all(any(("addpath" in expr_vars(g2)) and l2 == {"true"} for g2, l2, h2 in flat_guards(fv, b, brs)) for b in pid)
            if pid and ap_ok and pid_guarded:
                r.ok("%s: reservation %s is 4 larger exactly when the add-path id is written" % (tag, rv))
            elif pid:
                r.fail(fv.name, "addpath-reservation:" + tag, "a 4-byte path id is written in the loop at line %d but the reservation does not grow by 4 under the same add-path flag" % line, fv.loc(bi))
            # bytes still written into the same message after the loop (e.g. the empty attribute-length field behind the
            # withdrawn routes) have to fit as well
            trailing = _trailing_bytes(prog, bc, key, fv, it, bi, lps)
            # families reaching this site
            only, excluded = _family_tests(gs)
            fams = [f for f in table if (only is None or f in only) and f not in excluded]
            # `matches!(item.nlri, Nlri::V4(_) | Nlri::V6(_))` restricts the NLRI kinds, whatever the family
            kinds = None
            for g, labels, how in gs:
                if g[0] == "discr" and g[2] and g[2].endswith("bgp::Nlri") and "nlri" in expr_fields(g):
                    ts = {variant_ty.get(l) for l in labels}
                    kinds = ts if kinds is None else kinds & ts
            if kinds is not None:
                fams = [f for f in fams if table[f] in kinds]
            bad = []
            for f in sorted(fams):
                res = min([lo for lo, hi, fg in defs if fg is None or (fg[1] and fg[0] == f) or ((not fg[1]) and fg[0] != f)] or [None], key=lambda x: (x is None, x))
                if res is None:
                    continue
                need = bounds[f]
                if need == INF or need + trailing > res + (1 if strict else 0):
                    bad.append((f, need if trailing == 0 or need == INF else need + trailing, res))
            for f, need, res in bad:
                r.fail(fv.name, "reservation:%s:%s" % (tag, fam_name(f)),
                       "the fit test reserves %d bytes (+4 with add-path) but one %s entry (%s) can take %s: the frame can exceed max_message_length() "
                       "by the difference, and the peer rejects it with Bad Message Length"
                       % (res, fam_name(f), short(table[f]), "an unbounded number of bytes" if need == INF else "%d bytes%s" % (need, " (including %s appended to the message after the loop)" % trailing if trailing else "")), fv.loc(bi))
            if trailing:
                r.note("%s: %s byte(s) are appended to the message after the loop and counted against the reservation" % (tag, trailing))
            if not bad:
                r.ok("%s: reservation covers %d famil%s (%s)" % (tag, len(fams), "y" if len(fams) == 1 else "ies", ", ".join("%s<=%s" % (fam_name(f), bounds[f]) for f in sorted(fams))))
    r.floor("NLRI append sites", n_sites, 4)


def _variant_types(prog):
    """Nlri variant name -> payload type name."""
    out = {}
    for a in prog.adts.values():
        if a["name"] == "rustybgp_packet::bgp::Nlri":
            for v in a["variants"]:
                if v["fields"]:
                    ty = v["fields"][0]["ty"]
                    out[v["n"]] = ty if ty.startswith("rustybgp_packet::") else "rustybgp_packet::" + ty
    return out


def _check_scratch(prog, r, fv, it, brs, bi, tag, local, lps, bc=None, key=None):
    """The entry is encoded into a local buffer: it must reach the output only through an append that is guarded by
    a fit test against the scratch buffer's real length."""
    from ..models import referent as _referent
    name = fv.local_name.get(local, "_%d" % local)
    appends = []
    for b2, t2 in fv.calls(re.compile(r".*(BufMut::put_slice|BufMut::put|Vec::<T(, A)?>::extend_from_slice)$")):
        if b2 not in it.IN or not any(bi in body and b2 in body for h, body, backs in lps):
            continue
        st = it.IN[b2].copy()
        for j, s2 in enumerate(fv.blocks[b2]["s"]):
            if "rv" in s2:
                it.do_assign(st, s2, b2, j, False)
        if _referent(it, st, t2["args"][1]) == "L%d" % local:
            appends.append(b2)
    if not appends:
        r.unanalysable("%s: NLRI encoded into `%s` at line %d but no append of it to the output was found" % (short(fv.name), name, fv.line(bi)), fv.loc(bi))
        return
    for b2 in appends:
        ok = False
        for g, labels, how in flat_guards(fv, b2, brs, named=True):
            if g[0] == "bin" and g[1] in ("Gt", "Ge", "Lt", "Le") and labels <= {"true", "false"}:
                a, b = g[2], g[3]
                lim_a = any(c.endswith("max_message_length") for c in deep_calls(fv, a, at=b2))
                lim_b = any(c.endswith("max_message_length") for c in deep_calls(fv, b, at=b2))
                if lim_a == lim_b:
                    continue
                op = g[1]
                if labels == {"false"}:
                    op = {"Gt": "Le", "Ge": "Lt", "Lt": "Ge", "Le": "Gt"}[op]
                used = b if lim_a else a
                if lim_b:
                    op = {"Gt": "Lt", "Ge": "Le", "Lt": "Gt", "Le": "Ge"}[op]
                lens = [c for c in expr_calls(used) if c.endswith("::len")]
                if op in ("Gt", "Ge") and len(lens) >= 2 and name in expr_vars(used):
                    ok = True
        # nothing else may be appended to the message on the strength of that test: every other write to the output
        # buffer inside the same loop iteration and behind the same test is unaccounted for
        extra = []
        if ok and bc is not None:
            dstp = [l for l, nm in fv.local_name.items() if nm in ("dst", "c") and l <= fv.f["argc"]]
            w = bc._weights(key, dstp[0], it, []) if dstp else {}
            inner = [body for h, body, backs in lps if b2 in body]
            body = min(inner, key=len) if inner else set()
            # the branch block of the fit test
            fit_blocks = {br.bi for br, labels in guards_of(fv, b2, brs) if br.expr[0] == "bin" and any(c.endswith("max_message_length") for c in deep_calls(fv, br.expr, at=b2))}
            for b3 in sorted(body):
                if b3 == b2 or not w.get(b3):
                    continue
                under = {br.bi for br, labels in guards_of(fv, b3, brs)}
                if fit_blocks & under:
                    extra.append((b3, w[b3]))
        if ok and extra:
            r.fail(fv.name, "scratch-path-unaccounted-bytes:" + tag, "behind the test that `len(dst) + %s.len()` fits, %s more byte(s) are appended to the message at line %d without being part of `%s`: "
                   "the frame can exceed max_message_length() by that much" % (name, extra[0][1], fv.line(extra[0][0]), name), fv.loc(extra[0][0]))
        elif ok:
            r.ok("%s@%d: entry encoded into `%s` and appended only if its real length fits" % (tag, fv.line(b2), name))
        else:
            r.fail(fv.name, "scratch-append-unguarded:" + tag, "the NLRI encoded into `%s` is appended to the message at line %d without a test that `len(dst) + %s.len()` stays within max_message_length()" % (name, fv.line(b2), name), fv.loc(b2))


def _trailing_bytes(prog, bc, key, fv, it, site, lps):
    """Most bytes appended to the output buffer on a path from the exit of the loop around `site` to the return."""
    dst = [l for l, nm in fv.local_name.items() if nm in ("dst", "c") and l <= fv.f["argc"]]
    inner = [(h, body) for h, body, backs in lps if site in body]
    if not dst or not inner:
        return 0
    h, body = max(inner, key=lambda x: len(x[1]))
    w = bc._weights(key, dst[0], it, [])
    exits = {s_ for b in body for _, s_ in fv.succ[b] if s_ not in body and s_ in fv.live}
    best = {}
    def go(b, depth=0):
        if b in best:
            return best[b]
        best[b] = 0           # cycle guard
        nxt = [s_ for _, s_ in fv.succ[b] if s_ in fv.live and s_ not in body]
        v = w.get(b, 0)
        if v == INF:
            best[b] = INF
            return INF
        sub = max([go(s_, depth + 1) for s_ in nxt] or [0]) if depth < 400 else 0
        best[b] = INF if sub == INF else v + sub
        return best[b]
    vals = [go(e) for e in exits]
    return max(vals) if vals else 0


def _site_tag(fv, bi, gs):
    for g, labels, how in gs:
        if g[0] == "discr" and g[2] and g[2].endswith("bgp::Update"):
            return "+".join(sorted(labels))
    return "mp"


def _family_tests(gs):
    """(only, excluded): family values the site is restricted to / excluded from by dominating `*family == CONST` tests."""
    only, excluded = None, set()
    for g, labels, how in gs:
        conj = [(g, labels)]
        if g[0] == "matches":
            continue
        for e, l in conj:
            if e[0] == "call" and e[1].endswith("::eq") and "family" in expr_vars(e):
                vals = [x[1] for x in walk(e) if isinstance(x, tuple) and x and x[0] == "const" and isinstance(x[1], int)]
                if len(vals) == 1:
                    if l == {"true"}:
                        only = {vals[0]} if only is None else only & {vals[0]}
                    elif l == {"false"}:
                        excluded.add(vals[0])
    return only, excluded


def _reservation_defs(fv, it, name, brs, site=None):
    """[(lo, hi, family_guard)] for each definition of the local `name`: value range from the abstract state, and the
    `*family == CONST` test (value, polarity) the definition is under, if any."""
    out = []
    for l, n in fv.local_name.items():
        if n != name:
            continue
        for bi, si, s in fv.defs().get(l, []):
            if si == "t" or bi not in it.IN:
                continue
            if site is not None and not (bi == site or site in fv.reach(bi)):
                continue            # a reservation of another loop that happens to have the same name
            st = it.IN[bi].copy()
            for j, s2 in enumerate(fv.blocks[bi]["s"]):
                if "rv" in s2:
                    it.do_assign(st, s2, bi, j, False)
                if j == si:
                    break
            t = "L%d" % l
            lo, hi = st.z.lo(t), st.z.hi(t)
            if lo == -INF or hi == INF:
                continue
            only, excluded = _family_tests(flat_guards(fv, bi, brs, named=True))
            fg = None
            if only and len(only) == 1:
                fg = (next(iter(only)), True)
            elif len(excluded) == 1:
                fg = (next(iter(excluded)), False)
            out.append((lo, hi, fg))
    return out


# ---------------------------------------------------------------------------------------------- R04.2
PATCH_EXC = {"op_param_len_pos": "zero is the right value when no capability is written; patched under the same !capability.is_empty() test that writes the parameter"}


def check_backpatch(prog, r):
    n = 0
    for fn in LOOP_FNS:
        fv = view(prog, prog.one(CODEC + fn))
        r.analysed(fv.name)
        rend = Renderer(fv, depth=10)
        # patch sites: IndexMut::index_mut(dst.as_mut(), RangeFrom { start: <pos> })
        patches = {}
        for bi, t in fv.calls(re.compile(r".*IndexMut::index_mut$")):
            e = rend.operand(t["args"][1], 10)
            for v in expr_vars(e):
                patches.setdefault(v, []).append(bi)
        for l, name in sorted(fv.local_name.items()):
            if not (re.fullmatch(r"pos_\w+", name) or name.endswith("_pos")) or name in ("pos_head", "pos_end"):
                continue
            ds = [(bi, si) for bi, si, s in fv.defs().get(l, []) if bi in fv.live]
            for bi, si in ds:
                n += 1
                ps = patches.get(name, [])
                if not ps:
                    r.fail(fv.name, "never-patched:" + name, "the length position %s is recorded but no write goes back to it" % name, fv.loc(bi))
                    continue
                # error exits discard the message: only successful returns need the patch
                errs = [b for b, si_, s_ in fv.aggregates(re.compile(r".*Result"), "Err")] + [b for b, t_ in fv.calls(re.compile(r".*FromResidual::from_residual$"))]
                if fv.must_pass(bi, list(ps) + errs, fv.returns()):
                    r.ok("%s: %s is back-patched on every path to the return" % (short(fv.name), name))
                elif name in PATCH_EXC:
                    # conditional patch allowed: the patch and every write after the placeholder share the guard
                    r.ok("%s: %s patched conditionally (%s)" % (short(fv.name), name, PATCH_EXC[name]))
                else:
                    r.fail(fv.name, "patch-skipped:" + name, "a path from the placeholder at %s reaches the return without patching it: the length field keeps its placeholder value" % name, fv.loc(bi))
    r.floor("recorded length positions", n, 8)


# ---------------------------------------------------------------------------------------------- R04.3
def check_accumulators(prog, r):
    fv = view(prog, prog.one(CODEC + "do_encode"))
    r.analysed(fv.name)
    names = fv.local_name
    def flows_into(call_block, t, acc_names):
        """The call's result (or a field of it) is an operand of an Add whose other operand / destination is an accumulator."""
        dest = t.get("dest", {}).get("l")
        seen, work = {dest}, [dest]
        ok = False
        for b in sorted(fv.reach_after(call_block) | {t.get("to")}):
            if b is None or b not in fv.live:
                continue
            for s in fv.blocks[b]["s"]:
                rv = s.get("rv")
                if not rv:
                    continue
                ops = []
                if rv["r"] == "bin":
                    ops = [rv["a"], rv["b"]]
                elif rv["r"] in ("use", "cast"):
                    ops = [rv["o"]]
                ls = [(o.get("c") or o.get("m") or {}).get("l") for o in ops]
                if any(x in seen for x in ls if x is not None):
                    if rv["r"] == "bin" and rv["op"].startswith("Add") and any(names.get(x) in acc_names for x in ls if x is not None):
                        ok = True
                    seen.add(s["p"]["l"])
            tt = fv.blocks[b]["t"]
            if tt["t"] == "call" and any((a.get("c") or a.get("m") or {}).get("l") in seen for a in tt.get("args", [])):
                if tt.get("dest"):
                    seen.add(tt["dest"]["l"])
        return ok
    n = 0
    for pat, accs, what in ((r"rustybgp_packet::bgp::Attribute::encode_wire$", {"attr_len"}, "attribute bytes"),
                            (CODEC + r"mp_reach_encode$", {"attr_len"}, "MP_REACH attribute bytes"),
                            (CODEC + r"mp_unreach_encode$", {"attr_len", "mp_len"}, "MP_UNREACH attribute bytes")):
        for bi, t in fv.calls(re.compile(pat)):
            n += 1
            gs = flat_guards(fv, bi)
            if pat.endswith("mp_unreach_encode$") and any(g[0] == "discr" and l == {"Unreach"} for g, l, h in gs):
                # Unreach arm: the returned length is patched in directly
                dest = t["dest"]["l"]
                r.ok("do_encode@%d: %s patched in directly" % (fv.line(bi), what))
                continue
            if flows_into(bi, t, accs):
                r.ok("do_encode@%d: %s added to %s" % (fv.line(bi), what, "/".join(sorted(accs))))
            else:
                r.fail(fv.name, "uncounted:%s@%s" % (pat.split("::")[-1].rstrip("$"), _arm(fv, bi)), "%s written at line %d are not added to the length that is patched into the message" % (what, fv.line(bi)), fv.loc(bi))
    # withdrawn routes section: every write in the loop is counted
    for bi, t in fv.calls(re.compile(r"rustybgp_packet::bgp::Nlri::encode$")):
        if not any(g[0] == "discr" and l == {"Unreach"} for g, l, h in flat_guards(fv, bi)):
            continue
        n += 1
        if flows_into(bi, t, {"withdrawn_len"}):
            r.ok("do_encode@%d: withdrawn NLRI bytes added to withdrawn_len" % fv.line(bi))
        else:
            r.fail(fv.name, "uncounted:withdrawn-nlri", "withdrawn NLRI bytes written at line %d are not added to withdrawn_len" % fv.line(bi), fv.loc(bi))
        # the path id written before it
        lps = loops(fv)
        for b2, t2 in fv.calls(re.compile(r".*BufMut::put_u32$")):
            if any(bi in body and b2 in body for h, body, backs in lps):
                add4 = False
                for b3 in fv.reach_after(b2, [bi]) | {b2}:
                    for s in fv.blocks[b3]["s"]:
                        rv = s.get("rv")
                        if rv and rv["r"] == "bin" and rv["op"].startswith("Add") and any((o.get("k") or {}).get("v") == 4 for o in (rv["a"], rv["b"])) \
                                and any(names.get((o.get("c") or o.get("m") or {}).get("l")) == "withdrawn_len" for o in (rv["a"], rv["b"])):
                            add4 = True
                if add4:
                    r.ok("do_encode@%d: path id bytes added to withdrawn_len" % fv.line(b2))
                else:
                    r.fail(fv.name, "uncounted:withdrawn-path-id", "the 4-byte path id written at line %d is not added to withdrawn_len" % fv.line(b2), fv.loc(b2))
    r.floor("length-counted write sites in do_encode", n, 8)


def _arm(fv, bi):
    for g, labels, how in flat_guards(fv, bi):
        if g[0] == "discr" and g[2] and (g[2].endswith("bgp::Update") or g[2].endswith("bgp::Message")):
            return "+".join(sorted(labels))
    return "?"


# ---------------------------------------------------------------------------------------------- R04.4
LEN_FNS = [CODEC + "do_encode", CODEC + "mp_reach_encode", CODEC + "mp_unreach_encode", CODEC + "append_nlri"]


def check_length_arith(prog, r):
    """Narrow (u8/u16) arithmetic and narrowing casts in the functions that compute the message, attribute-block,
    withdrawn-routes, MP-attribute and OPEN parameter lengths.  An accumulator (`x += ...`) is one obligation however
    many statements add to it.  usize arithmetic is out of scope (bounded by the address space)."""
    import json
    import os
    from ..absint import _norm_site
    here = os.path.dirname(os.path.dirname(os.path.abspath(__file__)))
    reviewed = {(e["fn"], _norm_site(e["site"])): e for e in json.load(open(os.path.join(here, "specs", "reviewed_sites.json"))) if e.get("prop") == "C04"}
    n = 0
    for pat in LEN_FNS:
        for key in prog.find(pat):
            if prog.ix[key]["kind"] not in ("fn", "method"):
                continue
            it = analyse(prog, key, track_casts=True, type_invariants=INV)
            r.analysed(prog.name(key))
            groups = {}
            for (b, idx), ob in sorted(it.obls.items(), key=lambda kv: (kv[0][0], str(kv[0][1]))):
                if ob.kind.startswith("assert:Overflow"):
                    if not re.search(r"within (u8|u16|u32|i8|i16|i32)$", ob.by or ""):
                        continue
                    m = re.match(r"(\w+) [+\-*]= ", ob.desc)
                    site = "accumulator:" + m.group(1) if m else "%s:%s" % (ob.kind, re.sub(r"\s+", " ", ob.desc)[:70])
                elif ob.kind.startswith("cast:") and re.search(r"->(u8|u16)$", ob.kind):
                    site = "%s:%s" % (ob.kind, re.sub(r"\s+", " ", ob.desc)[:70])
                else:
                    continue
                g = groups.setdefault(site, {"open": [], "ok": 0, "line": ob.line})
                if ob.status == "discharged":
                    g["ok"] += 1
                else:
                    g["open"].append((ob.line, ob.by))
            for site, g in groups.items():
                n += 1
                fn = prog.name(key)
                if not g["open"]:
                    r.ok("%s %s" % (short(fn), site), "%d site(s) range-proved" % g["ok"])
                elif (fn, _norm_site(site)) in reviewed:
                    r.ok("%s %s" % (short(fn), site), "reviewed: " + reviewed[(fn, _norm_site(site))]["reason"])
                else:
                    lines = sorted({l for l, _ in g["open"]})
                    r.fail(fn, site, "a length computed here can wrap or be truncated (line%s %s; %s): the encoded length field then disagrees with the bytes written"
                           % ("s" if len(lines) > 1 else "", ", ".join(map(str, lines)), g["open"][0][1]), "%s:%d" % (it.f["file"], lines[0]))
    r.floor("narrow length computations", n, 6)


# ---------------------------------------------------------------------------------------------- R04.5
def check_no_silent_drop(prog, r):
    fv = view(prog, prog.one(CODEC + "encode_to"))
    r.analysed(fv.name)
    brs = branches(fv)
    # Ok returns reachable through the "no progress" edge (end <= start)
    bad = False
    found = False
    for bi, br in brs.items():
        e = br.expr
        if e[0] == "bin" and e[1] in ("Le", "Lt", "Ge", "Gt", "Eq") and {"end", "start"} <= set(expr_vars(e)):
            found = True
            # edge on which `end <= start` holds
            want = (e[1] in ("Le", "Lt", "Eq")) == (expr_vars(e[2]) and "end" in expr_vars(e[2]))
            for v, tgt in br.cases + [("else", br.otherwise)]:
                lab = br.label(prog, v)
                if (lab == "true") == want:
                    # from tgt, can we reach a return without building an Err?
                    errs = [b for b, si, s in fv.aggregates(re.compile(r".*Result"), "Err")] + [b for b, t in fv.calls(re.compile(r".*FromResidual::from_residual$"))]
                    if any(x in fv.reach(tgt, errs) for x in fv.returns()):
                        bad = True
                        r.fail(fv.name, "silent-drop-on-no-progress", "when do_encode makes no progress (`end <= start`: not even one entry fits behind the attributes) the splitting loop is left and "
                               "encode_to returns Ok: the remaining prefixes are dropped without an error or a withdrawal", fv.loc(bi))
    if not found:
        # no such guard: the loop must then be driven by `start < total` alone
        r.ok("encode_to: no no-progress exit (loop runs until start >= total)")
    elif not bad:
        r.ok("encode_to: the no-progress exit reports an error")


# ---------------------------------------------------------------------------------------------- R04.6
def check_attr_length_form(prog, r):
    """Attribute::encode chooses between the one-octet and the two-octet (Extended Length) form by the payload length:
    everything above 255 bytes needs the extended form, and the one-octet form must not be used above 255."""
    k = prog.one(r"rustybgp_packet::bgp::Attribute::encode")
    fv = view(prog, k)
    r.analysed(fv.name)
    thr = None
    site = None
    for bb, br in branches(fv).items():
        e = br.expr
        if e[0] == "bin" and e[1] in ("Gt", "Ge", "Lt", "Le") and any(c.endswith("::len") for c in expr_calls(e)) and "bin" in expr_vars(e):
            lenleft = any(c.endswith("::len") for c in expr_calls(e[2]))
            cst = e[3] if lenleft else e[2]
            if cst[0] != "const" or not isinstance(cst[1], int):
                continue
            op = e[1] if lenleft else {"Gt": "Lt", "Ge": "Le", "Lt": "Gt", "Le": "Ge"}[e[1]]
            # largest length that still takes the one-octet form
            thr = {"Gt": cst[1], "Ge": cst[1] - 1, "Le": cst[1], "Lt": cst[1] - 1}[op]
            site = bb
    if thr is None:
        r.unanalysable("Attribute::encode: the length test that selects the Extended Length form was not recognised", fv.loc())
    elif thr == 255:
        r.ok("Attribute::encode: payloads up to 255 bytes use the one-octet length, longer ones the Extended Length form")
    else:
        r.fail(fv.name, "extended-length-threshold", "the one-octet attribute length form is used for payloads up to %d bytes (a one-octet length holds at most 255; above that the value written wraps "
               "and disagrees with the bytes that follow)" % thr if thr > 255 else "the Extended Length form starts at %d bytes although a one-octet length holds 255: the canonical form is not produced" % (thr + 1), fv.loc(site))


def check_as4_reconcile(prog, r):
    """RFC 6793 section 4.2.3 on receipt from an OLD speaker: AS4_PATH is merged into AS_PATH unless *both* AGGREGATOR and
    AS4_AGGREGATOR are present and AGGREGATOR's AS is not AS_TRANS.  Decided on the decision table of reconcile_as4 (all
    entry->return paths with constant flags propagated), so it does not matter whether the code uses a flag, nested ifs or
    early returns: on every path where AS4_PATH and AS_PATH are present, the merge (as_path_reconcile) is skipped iff the
    three conditions hold."""
    from ..paths import enumerate_paths, PathLimit
    ks = prog.find(r"rustybgp_packet::bgp::PeerCodec::reconcile_as4")
    if len(ks) != 1:
        r.unanalysable("PeerCodec::reconcile_as4 anchor matched %d" % len(ks))
        return
    fv = view(prog, ks[0])
    r.analysed(fv.name)
    rend = Renderer(fv, depth=12, through_names=True)
    CODES = {2: "AS_PATH", 7: "AGGREGATOR", 17: "AS4_PATH", 18: "AS4_AGGREGATOR"}

    def closure_code(expr):
        """Attribute code tested by the closure(s) of an Iterator::position(...) inside `expr`."""
        for x in walk(expr):
            if isinstance(x, tuple) and x and x[0] == "call" and x[1].endswith("Iterator::position"):
                for y in walk(x):
                    ck = None
                    if isinstance(y, tuple) and y and y[0] == "call" and y[1].startswith("closure::"):
                        ck = y[1][len("closure::"):]
                    if isinstance(y, tuple) and y and y[0] == "agg" and y[1] == "closure":
                        ck = y[2]
                    if ck and ck in prog.ix:
                        cv = view(prog, ck)
                        for bb in cv.live:
                            for st in cv.blocks[bb]["s"]:
                                rv = st.get("rv")
                                if rv and rv["r"] == "bin" and rv["op"] in ("Eq", "Ne"):
                                    for o in (rv["a"], rv["b"]):
                                        v = (o.get("k") or {}).get("v")
                                        if v in CODES:
                                            return CODES[v]
        return None

    def atom(br, labels):
        e = br.expr
        if e[0] == "discr" and labels <= {"Some", "None"} and len(labels) == 1:
            c = closure_code(e)
            if c:
                return ("present:" + c, labels == frozenset({"Some"}))
        if e[0] == "call" and re.search(r"Option::<T>::is_(some|none)$", e[1]) and labels <= {"true", "false"} and len(labels) == 1:
            c = closure_code(e)
            if c:
                return ("present:" + c, (labels == frozenset({"true"})) == e[1].endswith("is_some"))
        if e[0] == "bin" and e[1] in ("Eq", "Ne") and any(c.endswith("aggregator_asn") for c in expr_calls(e)) and len(labels) == 1 and labels <= {"true", "false"}:
            other = e[3] if any(c.endswith("aggregator_asn") for c in expr_calls(e[2])) else e[2]
            vals = [x[1] for x in walk(other) if isinstance(x, tuple) and x and x[0] == "const" and isinstance(x[1], int)]
            if 23456 in vals:
                is_eq = (e[1] == "Eq") == (labels == frozenset({"true"}))
                return ("agg_is_trans", is_eq)
        return None

    try:
        paths = enumerate_paths(fv, rend)
    except PathLimit:
        r.unanalysable("reconcile_as4: too many paths", fv.loc())
        return
    # the merge: the call of the reconcile helper, or (helper inlined) the AS_PATH attribute being rebuilt from bytes
    merge_blocks = {b for b, t in fv.calls(re.compile(r".*Attribute::as_path_reconcile$"))}
    for b, t in fv.calls(re.compile(r".*Attribute::new_with_bin$")):
        a0 = t["args"][0] if t["args"] else {}
        if (a0.get("k") or {}).get("v") == 2 or str((a0.get("k") or {}).get("def", "")).endswith("Attribute::AS_PATH"):
            merge_blocks.add(b)
    if not merge_blocks or not paths:
        r.unanalysable("reconcile_as4: no call of Attribute::as_path_reconcile / no path", fv.loc())
        return
    bad_skip, bad_merge, n = [], [], 0
    for conds, blocks, _penv in paths:
        env = {}
        for br, labels in conds:
            a = atom(br, labels)
            if a:
                env.setdefault(a[0], a[1])
        if env.get("present:AS4_PATH") is False or env.get("present:AS_PATH") is False:
            continue        # nothing to merge on this path (a presence that was never tested counts as possible)
        n += 1
        merged = bool(merge_blocks & set(blocks))
        untrusted = env.get("present:AS4_AGGREGATOR") is True and env.get("present:AGGREGATOR") is True and env.get("agg_is_trans") is False
        if not merged and not untrusted:
            bad_skip.append(sorted((k, v) for k, v in env.items()))
        if merged and untrusted:
            bad_merge.append(sorted((k, v) for k, v in env.items()))
    if n == 0:
        r.unanalysable("reconcile_as4: no path with AS4_PATH and AS_PATH present was recognised", fv.loc())
        return
    if bad_skip:
        r.fail(fv.name, "as4-ignore-condition", "AS4_PATH is ignored on a path without all of: AS4_AGGREGATOR present, AGGREGATOR present, AGGREGATOR's AS is not AS_TRANS (%s) — a wide AS_PATH "
               "from an OLD speaker is then left with AS_TRANS placeholders" % bad_skip[0], fv.loc(sorted(merge_blocks)[0]))
    if bad_merge:
        r.fail(fv.name, "as4-merged-although-untrusted", "AS4_PATH is merged although AGGREGATOR and AS4_AGGREGATOR are present and AGGREGATOR's AS is not AS_TRANS (RFC 6793 4.2.3 says both "
               "AS4 attributes are ignored then)", fv.loc(sorted(merge_blocks)[0]))
    if not bad_skip and not bad_merge:
        r.ok("reconcile_as4: over %d paths with AS4_PATH and AS_PATH present, the merge is skipped iff AGGREGATOR and AS4_AGGREGATOR are present and AGGREGATOR's AS is not AS_TRANS" % n)


def check_flowspec_len(prog, r):
    """FlowSpec NLRI length (RFC 8955 section 4.1): one octet for lengths below 0xF0, otherwise two octets whose first has the
    high nibble 0xF.  The reader decides by `first < 0xF0`; the writer's one-octet form must therefore never produce a
    first octet >= 0xF0, and its two-octet form always does."""
    wk = prog.find(r"rustybgp_packet::flowspec::write_nlri_len")
    rk = prog.find(r"rustybgp_packet::flowspec::read_nlri_len")
    if len(wk) != 1 or len(rk) != 1:
        r.unanalysable("flowspec write_nlri_len / read_nlri_len anchors matched %d / %d" % (len(wk), len(rk)))
        return
    rv_ = view(prog, rk[0])
    thr = None
    for bb, br in branches(rv_).items():
        e = br.expr
        if e[0] == "bin" and e[1] in ("Lt", "Ge") and "first" in expr_vars(e):
            for x in (e[2], e[3]):
                if x[0] == "const" and isinstance(x[1], int):
                    thr = x[1]
    if thr is None:
        r.unanalysable("read_nlri_len: threshold test on the first octet not recognised", rv_.loc())
        return
    it = analyse(prog, wk[0])
    fv = it.fv
    r.analysed(fv.name, rv_.name)
    puts = fv.calls(re.compile(r".*BufMut::put_u8$"))
    firsts = [(b, t) for b, t in puts if not any(b in fv.reach_after(b0) for b0, _ in puts if b0 != b)]
    n = 0
    for b, t in firsts:
        if b not in it.IN:
            continue
        st = it.IN[b].copy()
        for j, s2 in enumerate(fv.blocks[b]["s"]):
            if "rv" in s2:
                it.do_assign(st, s2, b, j, False)
        lo, hi = it.range_of(st, t["args"][1])
        follow = [b1 for b1, _ in puts if b1 in fv.reach_after(b)]
        n += 1
        if not follow:
            if hi < thr:
                r.ok("write_nlri_len: the one-octet form writes a value below 0x%X (read back as a one-octet length)" % thr)
            else:
                r.fail(fv.name, "one-octet-length-range", "the one-octet length form is used for values up to %s, but the reader takes a first octet >= 0x%X as the start of a two-octet length" % (hi, thr), fv.loc(b))
        else:
            if lo >= thr:
                r.ok("write_nlri_len: the two-octet form starts with an octet >= 0x%X" % thr)
            else:
                r.fail(fv.name, "two-octet-length-marker", "the two-octet length form can start with an octet below 0x%X (range [%s, %s]): the reader would take it for a one-octet length" % (thr, lo, hi), fv.loc(b))
    if n < 2:
        r.unanalysable("write_nlri_len: %d length forms recognised (want 2)" % n, fv.loc())


def check_tables(prog, r, table):
    fv = view(prog, prog.one(r"rustybgp_packet::bgp::Nlri::encode"))
    r.analysed(fv.name)
    enc = set()
    for bi, t in fv.calls(re.compile(r"rustybgp_packet::.*::encode$")):
        k = t["f"].get("rkey") or t["f"].get("key")
        nm = prog.name(k) if k in prog.ix else t["f"]["name"]
        enc.add(nm[:-len("::encode")])
    dec = set(table.values())
    for ty in sorted(dec | enc):
        if ty in dec and ty in enc:
            r.ok("NLRI type %s has a decoder arm and an encoder arm" % short(ty))
        elif ty in dec:
            r.fail(fv.name, "no-encoder-arm:" + short(ty), "Nlri::decode produces %s but Nlri::encode has no arm calling its encoder" % ty, fv.loc())
        else:
            r.fail(fv.name, "no-decoder-arm:" + short(ty), "Nlri::encode writes %s but Nlri::decode never produces it" % ty, fv.loc())
    r.floor("NLRI payload types", len(dec), 13)


# ---------------------------------------------------------------------------------------------- R04.8
def check_addpath_direction(prog, r):
    """FamilyState has one flag per direction (RFC 7911: each side announces send / receive separately, so with an asymmetric
    negotiation they differ).  Whether a path identifier is written is decided by addpath_tx, whether one is expected when
    parsing by addpath_rx; a codec function that reads the other direction's flag produces frames the peer's mirror-image codec
    cannot parse.  Sibling agreement over every PeerCodec function (and closures) that reads either flag."""
    n = 0
    per_dir = {"addpath_tx": 0, "addpath_rx": 0}
    for k in crate_fns(prog, "rustybgp_packet"):
        nm = prog.ix[k]["name"]
        root = root_name(prog, k)
        if "::tests::" in nm or not root.startswith("rustybgp_packet::bgp::PeerCodec::"):
            continue
        meth = root.split("::")[-1]
        want = "addpath_tx" if re.search(r"encode|append", meth) else ("addpath_rx" if re.search(r"parse|decode", meth) else None)
        if want is None:
            continue
        fv = view(prog, k)
        reads = set()
        for b in fv.live:
            for st in fv.blocks[b]["s"]:
                rv = st.get("rv")
                if not rv:
                    continue
                def _fields(x, out):
                    if isinstance(x, dict):
                        if x.get("n") in ("addpath_tx", "addpath_rx") and "f" in x:
                            out.add(x["n"])
                        for v in x.values():
                            _fields(v, out)
                    elif isinstance(x, list):
                        for v in x:
                            _fields(v, out)
                if rv["r"] == "agg":
                    continue          # building a FamilyState (negotiate / set_family) is not a read
                _fields(rv, reads)
        if not reads:
            continue
        n += 1
        per_dir[want] += 1
        r.analysed(root)
        other = reads - {want}
        if other:
            r.fail(root, "addpath-direction:" + meth, "%s decides on the path identifier from %s; %s must use %s (with send-only / receive-only ADD-PATH the two flags differ and the "
                   "peer cannot parse the frame)" % (meth, "/".join(sorted(other)), "an encoder" if want.endswith("tx") else "a parser", want), fv.loc())
        else:
            r.ok("%s reads %s" % (short(nm), want))
    # how many functions share the reads is the maintainer's choice (one lookup in append_nlri or one per caller); what must
    # exist is at least one reader on each side
    r.floor("PeerCodec encoder functions / closures reading an ADD-PATH direction flag", per_dir["addpath_tx"], 1)
    r.floor("PeerCodec parser functions / closures reading an ADD-PATH direction flag", per_dir["addpath_rx"], 1)


# families whose MP_REACH next hop is the 4-octet IPv4 address itself: (AFI << 16) | SAFI
AS_IS_NEXTHOP = {(1 << 16) | 2: "IPv4 multicast (RFC 4760)", (2 << 16) | 2: "IPv6 multicast", (1 << 16) | 73: "IPv4 SR Policy", (2 << 16) | 73: "IPv6 SR Policy",
                 (25 << 16) | 70: "L2VPN EVPN (RFC 7432: the PE address, IPv4 or IPv6, as is)"}


def check_nexthop_padding(prog, r):
    """mp_reach_encode writes `16, addr, zero padding` for a 4-octet next hop unless the family is in the as-is set; the receiving
    codec turns 16 octets into an IPv6 next hop, so padding a family that carries IPv4 next hops as they are (EVPN) changes the
    next hop the peer decodes."""
    k = prog.one(r"rustybgp_packet::bgp::PeerCodec::mp_reach_encode")
    fv = view(prog, k)
    r.analysed(prog.name(k))
    brs = branches(fv)
    pads = [bi for bi, t in fv.calls(re.compile(r".*BufMut::put_u8$")) if (t["args"][1].get("k") or {}).get("v") == 16]
    if len(pads) != 1:
        r.unanalysable("mp_reach_encode: %d sites writing the constant next-hop length 16" % len(pads), fv.loc())
        return
    excluded = set()
    for g, l, h in flat_guards(fv, pads[0], brs):
        if g[0] == "matches" and h == "not":
            for x, ll in g[1]:
                if show(x, 40).endswith(".0") and all(str(v).isdigit() for v in ll):
                    excluded |= {int(v) for v in ll}
    # the same set as the listed arms of a `match *family {..}` whose catch-all arm pads
    from ..cfg import guards_of
    for br, labels in guards_of(fv, pads[0], brs):
        if "else" in labels and show(br.expr, 40).endswith(".0") and br.cases and all(isinstance(v, int) for v, _ in br.cases):
            excluded |= {v for v, _ in br.cases}
    miss = sorted(set(AS_IS_NEXTHOP) - excluded)
    if not excluded:
        r.unanalysable("mp_reach_encode: the families excluded from next-hop padding are not tested in a form this rule reads (matches! on the family)", fv.loc(pads[0]))
    elif miss:
        r.fail(prog.name(k), "nexthop-padded:" + "+".join(str(m) for m in miss), "a 4-octet next hop of %s is padded to 16 octets: the peer's decoder reads 16 octets as an IPv6 address, "
               "so the route arrives with a different next hop" % ", ".join(AS_IS_NEXTHOP[m] for m in miss), fv.loc(pads[0]))
    else:
        r.ok("mp_reach_encode: IPv4 next hops of multicast / SR Policy / EVPN families are written as they are (%d families excluded from padding)" % len(excluded))


def check_counted_after_append(prog, r):
    """append_nlri returns how many entries it wrote; encode_to restarts the next frame at that index.  The counter may move only
    for an entry that was appended to the message: an increment that is not preceded, in its iteration, by the write into the
    output buffer reports an entry that did not fit as sent, and every frame boundary silently loses a route."""
    k = prog.one(r"rustybgp_packet::bgp::PeerCodec::append_nlri")
    fv = view(prog, k)
    r.analysed(prog.name(k))
    rend = Renderer(fv, depth=8, through_names=True)
    outs = {fv.local_name.get(l) for l in range(1, fv.f.get("argc", 0) + 1) if re.match(r"&mut [A-Z]\w*$", fv.f["locals"][l])}
    outs.discard(None)
    ret_names = set()
    for bi, si, st in fv.defs().get(0, []):
        if si != "t" and st["rv"]["r"] == "use":
            q = st["rv"]["o"].get("c") or st["rv"]["o"].get("m")
            if q is not None and fv.local_name.get(q["l"]):
                ret_names.add(fv.local_name[q["l"]])
    lps = loops(fv)
    incs = []
    for l, nm in fv.local_name.items():
        if nm not in ret_names:
            continue
        for bi, si, st in fv.defs().get(l, []):
            if bi in fv.live and si != "t" and any(bi in body for h, body, backs in lps):
                e = Renderer(fv, depth=4).rvalue(st["rv"], 4)
                if any(isinstance(x, tuple) and x and x[0] == "bin" and x[1].startswith("Add") for x in walk(e)):
                    incs.append(bi)
    if not incs or not outs:
        r.unanalysable("append_nlri: %d increments of the returned counter inside the loop, output parameter %s" % (len(incs), sorted(outs)), fv.loc())
        return
    writes = []
    for bi, t in fv.calls():
        nm = t["f"].get("name") or ""
        if not re.search(r"(BufMut::put_\w+|::encode\w*|extend_from_slice)$", nm):
            continue
        if any(set(expr_vars(rend.operand(a, 8))) & outs for a in t["args"]):
            writes.append(bi)
    for b in sorted(set(incs)):
        body = min((bd for h, bd, backs in lps if b in bd), key=len)
        if any(w in body and fv.dominates(w, b) for w in writes):
            r.ok("append_nlri: the counter moves (line %d) only after the entry was written to the message" % fv.line(b))
        else:
            r.fail(prog.name(k), "counted-before-append", "the count of encoded entries is incremented (line %d) on a path that has not written the entry to the output buffer in that iteration: "
                   "an entry that does not fit is reported as sent and the next frame starts one entry too late" % fv.line(b), fv.loc(b))
