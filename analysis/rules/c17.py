"""C17 — API conversions are faithful and safe (structural clauses)."""
import re

from ..absint import check_panic_freedom
from ..cfg import Renderer, walk, show, flat_guards, branches, guards_of, strip
from ..facts import callee_names, short
from ..util import view, crate_fns, root_name, expr_calls, expr_fields, expr_vars
from .c05 import ceval

EXPLANATION = (
    "Static rules over daemon/src/convert.rs, event/grpc.rs and packet/src/bgp.rs: R17.1 Attribute's representation class is "
    "fixed by its code (ORIGIN, MED, LOCAL_PREF, ORIGINATOR_ID carry a value; every other code carries bytes) and encoding / "
    "best-path selection rely on it with unwrap: every call of Attribute::new_with_value in the workspace passes a constant "
    "code of the value class, every call of new_with_bin a constant code outside it, a non-constant code must be guarded by "
    "the class test, new_opaque only where canonical_flags(code) is None; R17.2 conversion from API input establishes the "
    "invariants the wire decoder establishes: ORIGIN <= 2; AS_PATH segment type validated; a length written into an encoded "
    "attribute (len() as u8/u16) is range-proved not to truncate; every Ipv4Net/Ipv6Net built in *_from_api code has "
    "mask <= 32/128 (abstract interpretation); R17.3 attr_from_api / "
    "net_from_api / local_path and everything they reach are panic-free; R17.4 every attribute variant attr_to_api can "
    "produce has an explicit arm in attr_from_api. Decides these, not from_api(to_api(a)) == a (value-level round trip).")
ASSUMPTIONS = ["models of external callees (analysis/models.py)", "prost-generated API structs hold arbitrary field values"]

VAL_CODES = {1, 4, 5, 9}
FROM_API = re.compile(r"rustybgpd::convert::(\w*from_api\w*|write_extcom|items_to_ops|rules_to_v[46]_components|parse_\w+|ensure_u(8|16)|net_from_api)|.*GrpcService::local_path")


def run(prog, rep, tier):
    r1 = rep.rule("R17.1", "Attribute constructors are called with codes of the matching representation class")
    check_ctor_classes(prog, r1)
    r2 = rep.rule("R17.2", "API integers are not silently truncated; ORIGIN / AS_PATH invariants are enforced")
    r3 = rep.rule("R17.3", "conversion from API input is panic-free")
    roots = [prog.one(r"rustybgpd::convert::attr_from_api"), prog.one(r"rustybgpd::convert::net_from_api")]
    lp = prog.find(r"rustybgpd::event::grpc::GrpcService::local_path")
    roots += lp
    check_panic_freedom(prog, r3, roots, "C17", scope_crates=("rustybgpd", "rustybgp_packet", "rustybgp_table"),
                        casts_in=lambda k: bool(FROM_API.fullmatch(prog.name(prog.ix[k].get("root") or k))), cast_rule=r2,
                        cast_filter=lambda ob: ob.kind.startswith("cast:usize->") or (ob.kind == "cast:i32->u8" and re.search(r"\bs\.type$|segment|seg\w*\.type", ob.desc)),
                        cast_bounds=[(r"\bs\.type$|seg\w*\.type", 1, 4)],
                        field_bounds={"rustybgp_packet::bgp::Ipv4Net": (1, 32), "rustybgp_packet::bgp::Ipv6Net": (1, 128)})
    check_value_invariants(prog, r2)
    check_unknown_arm(prog, r2)
    if tier == "thorough":
        r3b = rep.rule("R17.3r", "conversion from API input is panic-free with release (wrapping) arithmetic")
        check_panic_freedom(prog, r3b, roots, "C17", scope_crates=("rustybgpd", "rustybgp_packet", "rustybgp_table"), profile="release")
    r4 = rep.rule("R17.4", "every attribute attr_to_api can build has an explicit arm in attr_from_api")
    check_arms(prog, r4)
    check_sibling_messages(prog, r4)
    r5 = rep.rule("R17.5", "fixed-size byte arrays (ESI, MAC, extended community, route target) are converted whole")
    check_array_coverage(prog, r5)
    r6 = rep.rule("R17.6", "read_extcom: a typed extended community accounts for all 8 octets and for the transitivity bit")
    check_extcom_reader(prog, r6)
    check_extcom_writer(prog, r6)


def check_ctor_classes(prog, r):
    n = 0
    ctors = {"new_with_value": "value", "new_with_bin": "bytes", "new_opaque": "opaque"}
    for name, cls in ctors.items():
        ck = prog.one(r"rustybgp_packet::bgp::Attribute::" + name)
        for c in sorted(prog.callers(ck)):
            fv = view(prog, c)
            rn = root_name(prog, c)
            for bi, t in fv.calls(re.compile(r"rustybgp_packet::bgp::Attribute::" + name)):
                n += 1
                r.analysed(rn)
                e = Renderer(fv, depth=10, through_names=True).operand(t["args"][0], 10)
                v = ceval(e)
                site = "%s(%s)" % (name, show(e, 40))
                if cls == "opaque":
                    gs = flat_guards(fv, bi)
                    if any(g[0] == "discr" and any(x.endswith("Attribute::canonical_flags") for x in expr_calls(g)) and l == {"None"} for g, l, h in gs):
                        r.ok("%s: %s only for codes without canonical flags" % (short(rn), site))
                    else:
                        r.fail(rn, "opaque-known-code", "new_opaque is reachable for a code that may be a known attribute: encode dispatches on the code alone", fv.loc(bi))
                    continue
                if v is None:
                    # non-constant code: the call must be reachable only when the code is outside / inside the value class
                    excluded, included = _code_tests(fv, bi, t, e)
                    guarded = (VAL_CODES <= excluded) if cls == "bytes" else (included is not None and included <= VAL_CODES)
                    if guarded:
                        r.ok("%s: %s with a non-constant code under a test of its representation class" % (short(rn), site))
                    else:
                        r.fail(rn, "%s-nonconst-code" % name,
                               "%s is called with a caller-supplied code (%s) and no test of its representation class: a %s payload can be stored under a code whose users unwrap the other form "
                               "(value().unwrap() in best-path selection / binary().unwrap() in encoding)" % (name, show(e, 50), cls), fv.loc(bi))
                    continue
                if (cls == "value") == (v in VAL_CODES):
                    r.ok("%s: %s code %d is of the %s class" % (short(rn), name, v, cls))
                else:
                    r.fail(rn, "%s-wrong-class:%d" % (name, v), "%s called with code %d, which is %s the value class {1,4,5,9}" % (name, v, "in" if v in VAL_CODES else "outside"), fv.loc(bi))
    r.floor("Attribute constructor call sites", n, 40)


def _code_tests(fv, bi, t, e):
    """Values the constructor's code argument is known not to have / to be among at block bi."""
    gs = flat_guards(fv, bi)
    en = Renderer(fv, depth=10).operand(t["args"][0], 10)
    direct = {(repr(g), tuple(sorted(l))) for g, l, h in gs}
    excluded, included = set(), None
    for g, l, h in gs:
        if g[0] == "matches" and l == {"false"}:
            rest = [(ge, gl) for ge, gl in g[1] if (repr(ge), tuple(sorted(gl))) not in direct]
            if len(rest) == 1 and rest[0][0] in (en, e):
                excluded |= {int(x) for x in rest[0][1] if str(x).lstrip("-").isdigit()}
    for br, labels in guards_of(fv, bi):
        if br.expr in (en, e) and not br.adt and br.ty != "bool":
            if labels == {"else"}:
                excluded |= {int(c) for c, _ in br.cases}      # `_ =>` arm of a match on the code
            elif all(str(x).lstrip("-").isdigit() for x in labels):
                vs = {int(x) for x in labels}
                included = vs if included is None else included & vs
    return excluded, included


def check_unknown_arm(prog, r):
    """The unknown-attribute arm stores caller bytes unvalidated: it must refuse every code that has a validating
    conversion of its own (a dedicated arm in both attr_to_api and attr_from_api)."""
    fv = view(prog, prog.one(r"rustybgpd::convert::attr_from_api"))
    tv = view(prog, prog.one(r"rustybgpd::convert::attr_to_api"))
    to_codes = set()
    for bi, br in branches(tv).items():
        if br.expr[0] == "call" and br.expr[1].endswith("Attribute::code"):
            to_codes |= {int(c) for c, _ in br.cases}
    from_codes = set()
    sites = []
    for bi, t in fv.calls(re.compile(r"rustybgp_packet::bgp::Attribute::new_with_(bin|value)")):
        e = Renderer(fv, depth=10, through_names=True).operand(t["args"][0], 10)
        v = ceval(e)
        if v is None:
            sites.append((bi, t, e))
        else:
            from_codes.add(v)
    if len(to_codes) < 10 or len(from_codes) < 10:
        r.unanalysable("attr_to_api arms %d / attr_from_api constant codes %d (want >= 10 each)" % (len(to_codes), len(from_codes)), fv.loc())
        return
    # a to_api arm that itself falls back to the unknown form (PREFIX_SID on a parse error) keeps its code admissible
    fallback = set()
    tbrs = branches(tv)
    for bi, si, st_ in tv.aggregates(re.compile(r"rustybgp_api::attribute::Attr"), "Unknown"):
        for br, labels in guards_of(tv, bi, tbrs):
            if br.expr[0] == "call" and br.expr[1].endswith("Attribute::code") and all(str(x).isdigit() for x in labels):
                fallback |= {int(x) for x in labels}
    need = (to_codes & from_codes) - fallback
    for bi, t, e in sites:
        excluded, _ = _code_tests(fv, bi, t, e)
        miss = sorted(need - excluded)
        if miss:
            r.fail(fv.name, "unknown-arm-structured-codes", "the unknown-attribute arm accepts arbitrary bytes for code(s) %s, which have a validating conversion of their own: "
                   "a malformed AS_PATH / COMMUNITY / ... stored this way is unwrapped later by best-path selection and policy evaluation" % miss, fv.loc(bi))
        else:
            r.ok("attr_from_api: unknown-attribute arm refuses the %d codes that have their own conversion" % len(need))


def check_value_invariants(prog, r):
    """ORIGIN value and AS_PATH segment type must be validated before the attribute is built."""
    fv = view(prog, prog.one(r"rustybgpd::convert::attr_from_api"))
    r.analysed(fv.name)
    brs = branches(fv)
    for bi, t in fv.calls(re.compile(r"rustybgp_packet::bgp::Attribute::new_with_value")):
        e = Renderer(fv, depth=10, through_names=True).operand(t["args"][0], 10)
        if ceval(e) == 1:
            gs = flat_guards(fv, bi, brs)
            if any(g[0] == "bin" and g[1] in ("Gt", "Ge", "Le", "Lt") and ("origin" in expr_fields(g) or "origin" in expr_vars(g)) for g, l, h in gs):
                r.ok("attr_from_api: ORIGIN value range-checked")
            else:
                r.fail(fv.name, "origin-unchecked", "ORIGIN is built from an unchecked API integer: values above 2 (INCOMPLETE) are accepted, the wire decoder rejects them", fv.loc(bi))
    # AS_PATH: the segment type byte written must be guarded by a 1..=4 test
    seg = False
    for bi in sorted(fv.live):
        for g, l, h in flat_guards(fv, bi, brs):
            s = show(g, 200)
            if ("type" in s or "seg" in s) and g[0] in ("bin", "call") and re.search(r"contains|[<>]=?", s) and any(x.endswith("new_with_bin") for x in [c for c in []]):
                seg = True
    aspath_blocks = [b for b, t in fv.calls(re.compile(r"rustybgp_packet::bgp::Attribute::new_with_bin")) if ceval(Renderer(fv, depth=10, through_names=True).operand(t["args"][0], 10)) == 2]
    for b in aspath_blocks:
        # any comparison on a segment `type` field dominating the construction (early Err return on bad type)
        ok = False
        for bb, br in brs.items():
            if fv.dominates(bb, b) is False:
                pass
            s = show(br.expr, 200)
            if ("type" in expr_fields(br.expr) or "r#type" in s) and (br.expr[0] == "bin" or "contains" in s or "ensure" in s):
                if b in fv.reach(bb):
                    ok = True
        if ok:
            r.ok("attr_from_api: AS_PATH segment type is validated")
        else:
            r.fail(fv.name, "aspath-segtype-unchecked", "AS_PATH segments are built from unchecked API values: a segment type outside 1..=4 is accepted (as_path_length hits unreachable!, the wire decoder rejects it)", fv.loc(b))


def check_sibling_messages(prog, r):
    """Sibling arms that build the same API message (DstPrefix / SrcPrefix, v4 / v6 ...) must agree on which fields carry
    data: a field one arm fills from the internal value and a sibling arm fills with a literal is a value dropped on
    the way to the API (it then fails to round-trip)."""
    from collections import defaultdict
    n_groups = 0
    for k in crate_fns(prog, "rustybgpd"):
        nm = prog.ix[k]["name"]
        if not nm.startswith("rustybgpd::convert::") or "::tests" in nm or "::seed_" in nm:
            continue
        fv = view(prog, k)
        groups = defaultdict(list)
        for bi, si, s in fv.aggregates(re.compile(r"rustybgp_api::.*")):
            if s.get("x"):
                continue
            rv = s["rv"]
            if rv.get("fn"):
                groups[(rv["adt"], rv.get("v"))].append((bi, rv))
        brs_ = branches(fv)
        for (adt, v), lst0 in sorted(groups.items()):
            if len(lst0) < 2:
                continue
            # siblings = sites that sit in different arms of one `match` on an internal enum (not merely two places of
            # the same function that happen to build the same message from different sources)
            arms_of = {}
            for bi, rv in lst0:
                for g, l, h in flat_guards(fv, bi, brs_):
                    if g[0] == "discr" and len(l) == 1 and g[2] and not re.search(r"option::Option|result::Result|ControlFlow", g[2]):
                        arms_of.setdefault(repr(g), {})[bi] = next(iter(l))
            lst = []
            for gk, m in arms_of.items():
                if len(set(m.values())) >= 2:
                    lst = [(bi, rv) for bi, rv in lst0 if bi in m]
                    break
            if len(lst) < 2:
                continue
            n_groups += 1
            r.analysed(root_name(prog, k))
            bad = []
            for i, f in enumerate(lst[0][1]["fn"]):
                kinds = ["const" if "k" in rv["fields"][i] else "var" for bi, rv in lst]
                if "const" in kinds and "var" in kinds:
                    bad.append((f, [fv.line(b) for (b, rv), kd in zip(lst, kinds) if kd == "const"]))
            if bad:
                for f, lines in bad:
                    r.fail(root_name(prog, k), "sibling-field-dropped:%s.%s" % (adt.split("::")[-1], f),
                           "%s builds %s in several arms; `%s` is taken from the internal value in one arm and is a literal in another (line %s): the value is lost in the API form"
                           % (short(root_name(prog, k)), adt.split("::")[-1], f, ", ".join(map(str, lines))), fv.loc(lst[0][0]))
            else:
                r.ok("%s: %d arms building %s agree on which fields carry data" % (short(root_name(prog, k)), len(lst), adt.split("::")[-1]))
    r.floor("groups of sibling API messages in convert.rs", n_groups, 3)


def check_arms(prog, r):
    tv = view(prog, prog.one(r"rustybgpd::convert::attr_to_api"))
    fv = view(prog, prog.one(r"rustybgpd::convert::attr_from_api"))
    r.analysed(tv.name, fv.name)
    built = set()
    for kk in prog.with_closures(tv.key):
        kv = view(prog, kk)
        for bi, si, s in kv.aggregates(re.compile(r"rustybgp_api::attribute::Attr")):
            built.add(s["rv"]["v"])
    arms = set()
    for bi, br in branches(fv).items():
        if br.expr[0] == "discr" and br.adt and br.adt.endswith("attribute::Attr"):
            for v, tgt in br.cases:
                arms.add(br.label(prog, v))
    if not built or not arms:
        r.unanalysable("attr_to_api builds %d variants, attr_from_api has %d arms" % (len(built), len(arms)), fv.loc())
        return
    for v in sorted(built):
        if v in arms:
            r.ok("Attr::%s: produced by attr_to_api and accepted by attr_from_api" % v)
        else:
            r.fail(fv.name, "no-arm:" + v, "attr_to_api can produce Attr::%s but attr_from_api has no arm for it: a listed path cannot be re-added with the same content" % v, fv.loc())


# ---------------------------------------------------------------------------------------------- R17.5
def _const_range(fv, rend, o, n):
    """Index set denoted by a constant Range / RangeFrom / RangeTo / RangeFull operand over an array of length n (None if not constant)."""
    e = rend.operand(o, 8)
    while isinstance(e, tuple) and e and e[0] in ("ref", "deref"):
        e = e[1]
    if not (isinstance(e, tuple) and e and e[0] == "agg"):
        return None
    vals = [a[1] if (isinstance(a, tuple) and a and a[0] == "const" and isinstance(a[1], int)) else None for a in e[3]]
    if any(v is None for v in vals):
        return None
    v = e[2]
    if v == "Range" and len(vals) == 2:
        return set(range(vals[0], min(vals[1], n)))
    if v == "RangeFrom" and len(vals) == 1:
        return set(range(vals[0], n))
    if v == "RangeTo" and len(vals) == 1:
        return set(range(0, min(vals[0], n)))
    if v == "RangeInclusive":
        return None
    if v == "RangeFull":
        return set(range(n))
    return None


def check_array_coverage(prog, r):
    """A fixed-size byte array ([u8; N]: ESI, MAC, extended community, route target) that a convert.rs function takes apart or
    assembles with constant indices / constant sub-ranges must be covered whole: a byte that is never read is lost on display,
    a byte never written comes back as zero (round trip not identical)."""
    n_sites = 0
    for k in crate_fns(prog, "rustybgpd"):
        nm = prog.ix[k]["name"]
        if not nm.startswith("rustybgpd::convert::") or "::tests::" in nm:
            continue
        fv = view(prog, k)
        rend = Renderer(fv, depth=8)
        acc = {}       # (base text, N) -> [set of indices, all-constant?, first block]
        for bi in sorted(fv.live):
            t = fv.blocks[bi]["t"]
            if t["t"] == "call" and (t["f"].get("name") or "").endswith(("Index::index", "IndexMut::index_mut")):
                m = re.match(r"\[\[u8; (\d+)_usize\], (.*)\]$", t["f"].get("ga", ""))
                if not m:
                    continue
                n = int(m.group(1))
                base = show(rend.operand(t["args"][0], 8)).lstrip("&*")
                a = acc.setdefault((base, n), [set(), True, bi])
                rg = _const_range(fv, rend, t["args"][1], n)
                if rg is None:
                    a[1] = False
                else:
                    a[0] |= rg
            elif t["t"] == "assert" and t.get("kind") == "BoundsCheck" and "k" in t["ops"][0]:
                n = t["ops"][0]["k"]["v"]
                base = (t.get("sn") or "").split("[")[0].strip().lstrip("&*")
                if not base or n > 32:
                    continue
                a = acc.setdefault((base, n), [set(), True, bi])
                e = rend.operand(t["ops"][1], 8)
                if e[0] == "const" and isinstance(e[1], int):
                    a[0].add(e[1])
                else:
                    a[1] = False
        for (base, n), (idx, allconst, bi) in sorted(acc.items()):
            if not allconst or not idx:
                continue           # driven by a loop variable / runtime length: not a constant layout
            n_sites += 1
            miss = sorted(set(range(n)) - idx)
            if miss:
                r.fail(nm, "array-bytes-unconverted:%s[%s]" % (base, ",".join(map(str, miss))),
                       "%s takes the %d-byte array `%s` apart with constant indices but never touches byte(s) %s: that part of the value is lost "
                       "in the conversion (round trip not identical)" % (short(nm), n, base, miss), fv.loc(bi))
            else:
                r.ok("%s: all %d bytes of `%s` are converted" % (short(nm), n, base))
    r.floor("fixed-size byte arrays taken apart / assembled with constant indices in convert.rs", n_sites, 7)


# ---------------------------------------------------------------------------------------------- R17.6
def _locals_in(x, out):
    if isinstance(x, dict):
        if "l" in x and isinstance(x["l"], int):
            out.add(x["l"])
        for v in x.values():
            _locals_in(v, out)
    elif isinstance(x, list):
        for v in x:
            _locals_in(v, out)


def _use_map(fv):
    """local -> number of reads of it (statement right-hand sides, index projections, terminator operands)."""
    uses = {}
    def add(x):
        s = set()
        _locals_in(x, s)
        for l in s:
            uses[l] = uses.get(l, 0) + 1
    for bi in fv.live:
        b = fv.blocks[bi]
        for s in b["s"]:
            if "rv" in s:
                add(s["rv"])
                add([p for p in (s["p"].get("p") or []) if isinstance(p, dict) and "i" in p])
        t = b["t"]
        for key in ("args", "o", "cond", "ops"):
            if key in t:
                add(t[key])
    return uses


def check_extcom_reader(prog, r):
    """read_extcom turns 8 wire bytes into a typed API message.  A typed (non-Unknown) message reproduces the bytes only if
    every one of them went into it: (a) the two type octets plus the octets read with a used result add up to 8, or the arm is
    guarded by a test over the raw bytes; (b) the transitivity bit taken out of the type octet is either a field of the message
    or tested on the way to it (Unknown carries the whole type octet)."""
    k = prog.one(r"rustybgpd::convert::read_extcom")
    fv = view(prog, k)
    r.analysed(prog.name(k))
    rend = Renderer(fv, depth=8)
    uses = _use_map(fv)
    reads = []     # (block, width, used?)
    for b, t in fv.calls(re.compile(r"byteorder::(io::)?ReadBytesExt::read_(u|i)(8|16|24|32|48|64|128)$")):
        w = int(re.search(r"(\d+)$", t["f"]["name"]).group(1)) // 8
        # follow Result -> unwrap/expect/? -> value
        l = t["dest"]["l"]
        val = None
        for b2, t2 in fv.calls(re.compile(r".*Result::<T, E>::(unwrap|expect|unwrap_or|unwrap_or_default)$")):
            s = set()
            _locals_in(t2["args"][0], s)
            if l in s:
                val = t2["dest"]["l"]
        used = val is not None and uses.get(val, 0) > 0
        reads.append((b, w, used))
    r.floor("cursor reads in read_extcom", len(reads), 15)
    rendn = Renderer(fv, depth=10, through_names=True)      # named locals inlined: rules speak about derivations, not names
    brs = branches(fv, rendn)
    cursor = fv.local_name.get(1)
    has_tbit = lambda x: any(isinstance(y, tuple) and y and y[0] == "bin" and y[1] == "BitAnd" and any(z[0] == "const" and z[1] == 0x40 for z in (y[2], y[3]) if isinstance(z, tuple) and z)
                             for y in walk(x))
    n = 0
    for bi, si, s in fv.aggregates(re.compile(r"rustybgp_api::\w+Extended$")):
        adt = s["rv"].get("adtn") or s["rv"].get("adt")
        name = adt.split("::")[-1]
        if name == "UnknownExtended":
            continue
        n += 1
        gs = flat_guards(fv, bi, brs)
        dom_reads = [(b, w, u) for b, w, u in reads if fv.dominates(b, bi)]
        used_bytes = sum(w for b, w, u in dom_reads if u)
        def _direct(y):
            for a in y[2]:
                while isinstance(a, tuple) and a and a[0] in ("ref", "deref"):
                    a = a[1]
                if isinstance(a, tuple) and a and a[0] == "var" and a[1] == cursor:
                    return True
            return False
        # a test that looks at the raw octets: some call other than a read_* takes the cursor itself (get_ref, a helper, ...)
        raw_guard = any(any(isinstance(y, tuple) and y and y[0] == "call" and not re.search(r"read_(u|i)\d+$", y[1]) and _direct(y) for y in walk(g)) for g, l, h in gs)
        if used_bytes == 8 or raw_guard:
            r.ok("read_extcom: %s accounts for all 8 octets (%s)" % (name, "reads with used results" if used_bytes == 8 else "%d octets read, the rest tested through the raw bytes" % used_bytes))
        else:
            r.fail(prog.name(k), "extcom-octets-dropped:" + name,
                   "%s is built from %d of the 8 octets (reads whose result is used) and nothing on the way tests the remaining ones: any value in them is lost, "
                   "so the community is displayed as something it is not and does not round-trip" % (name, used_bytes), fv.loc(bi))
        fields = [rendn.operand(o, 10) for o in s["rv"]["fields"]]
        carries = any(has_tbit(f) for f in fields)
        tested = any(has_tbit(g) for g, l, h in gs)
        if carries or tested:
            r.ok("read_extcom: %s %s the transitivity bit" % (name, "stores" if carries else "is built only under a test of"))
        else:
            r.fail(prog.name(k), "extcom-transitivity-dropped:" + name,
                   "%s has no is_transitive field and is built whether or not the non-transitive bit (0x40) of the type octet is set: write_extcom() re-emits it with the "
                   "transitive type, so a non-transitive community changes when listed and re-added" % name, fv.loc(bi))
    r.floor("typed extended-community messages built by read_extcom", n, 10)


# fields of an API extended-community message write_extcom may leave unread, with the reason
EXTCOM_WRITE_UNREAD = {
    ("UnknownExtended", "type"): "`value` carries all eight octets including the type octet; read_extcom fills `type` as a convenience copy",
}


def check_extcom_writer(prog, r):
    """write_extcom is the inverse of read_extcom: each typed message is turned back into 8 octets.  Every field of the message
    (is_transitive, sub_type, the administrators, ..) is part of the value, so the arm that writes a message must read all of
    them; a field it never reads is replaced by a constant and the community changes when it is listed and re-added."""
    from .c16 import _place_reads, _first_field
    k = prog.one(r"rustybgpd::convert::write_extcom")
    r.analysed(prog.name(k))
    read = {}
    for kk in prog.with_closures(k):
        fv = view(prog, kk)
        for b, pl in _place_reads(fv):
            m = re.search(r"rustybgp_api::(\w+Extended)\b", fv.f["locals"][pl["l"]])
            if m:
                read.setdefault(m.group(1), set())
                if _first_field(pl):
                    read[m.group(1)].add(_first_field(pl))
    fv = view(prog, k)
    n = 0
    for ty in sorted(read):
        try:
            fields = [f["n"] for f in prog.adt(r"rustybgp_api::%s$" % ty)["variants"][0]["fields"]]
        except Exception:
            r.unanalysable("write_extcom: fields of rustybgp_api::%s not found" % ty, fv.loc())
            continue
        n += 1
        missing = [f for f in fields if f not in read[ty] and (ty, f) not in EXTCOM_WRITE_UNREAD]
        if missing:
            r.fail(prog.name(k), "extcom-field-unwritten:%s.%s" % (ty, "+".join(missing)), "write_extcom never reads %s of %s: the octets it stands for are written as a constant, so a community "
                   "whose %s differs from that constant is stored (and listed back) as a different community" % (", ".join(missing), ty, missing[0]), fv.loc())
        else:
            r.ok("write_extcom: every field of %s goes into the octets written" % ty)
    r.floor("typed extended-community messages written by write_extcom", n, 11)
    # the raw form: exactly eight octets (an EXTENDED_COMMUNITY attribute is a multiple of 8; anything longer misaligns every
    # community after it and is refused by the wire decoder)
    nlen = 0
    for bi, br in branches(fv, Renderer(fv, depth=10, through_names=True)).items():
        e = br.expr
        if e[0] != "bin" or e[1] not in ("Eq", "Ne", "Lt", "Le", "Gt", "Ge"):
            continue
        sides = [strip(e[2]), strip(e[3])]
        lens = [x for x in sides if x[0] == "call" and x[1].endswith("::len") and "value" in expr_fields(x)]
        consts = [x for x in sides if x[0] == "const"]
        if len(lens) != 1 or len(consts) != 1:
            continue
        nlen += 1
        if e[1] in ("Eq", "Ne") and consts[0][1] == 8:
            r.ok("write_extcom: an Unknown community is accepted only with exactly 8 octets")
        else:
            r.fail(prog.name(k), "unknown-extcom-length-not-exact", "write_extcom tests the raw community's length with `%s %s`: any length other than 8 must be refused, or the stored attribute is not a "
                   "multiple of 8 octets (communities after it are misread; the wire decoder treats the attribute as malformed)" % (e[1], consts[0][1]), fv.loc(bi))
    if nlen == 0:
        r.unanalysable("write_extcom: no length test on the raw (Unknown) community", fv.loc())
