"""C16 — only configured / permitted neighbours get a session, set up right (structural clauses)."""
import re

from ..cfg import Renderer, walk, show, flat_guards, branches, bool_edges, guards_of
from ..facts import callee_names, short
from ..sig import fn_tokens
from ..util import view, crate_fns, root_name, expr_calls, expr_fields, expr_vars, agg_field, field_writes
from .c05 import ceval, atom

EXPLANATION = (
    "Static rules over daemon/src/event/mod.rs, event/peer.rs, fsm.rs and packet/src/bgp.rs (MIR): R16.1 the admission guard-set of "
    "accept_connection: PeerSession::new is unreachable past 'administratively down', 'already has a connection in this "
    "direction' and 'no dynamic prefix matches'; a dynamic peer is created only on the no-configured-neighbour arm; R16.2 "
    "inheritance coverage: every PeerGroup field except dynamic_peers is read both when a dynamic peer is built and in "
    "apply_peer_group, and every PeerParams field is consumed by PeerParams::build or Global::add_peer; R16.3 the two "
    "copies of the role derivation (Peer::peer_role and accept_connection) test the same fields with the same outcomes; "
    "R16.4 capability negotiation is symmetric: add-path receive = local&1 and remote&2, send = local&2 and remote&1, the two "
    "other copies of the send test use the same masks, extended message / 4-octet AS need both sides; GR / LLGR negotiation "
    "consults both capability lists; R16.5 a dynamic neighbour is removed only when delete_on_disconnected and no session is "
    "left, and that flag is set only for dynamic peers; R16.7 Capability::decode's per-code length rules equal the RFC table. "
    "Decides structure, not that session values equal the configuration for all configurations.")
ASSUMPTIONS = ["field-read coverage is by field name within the named functions (PeerGroup / PeerParams field names are distinctive)"]

CAP_RULES = {
    1: [r"\(len != 4\):T"], 2: [r"\(len != 0\):T"], 5: [r"is_multiple_of\(len, 6\):F"], 6: [r"\(len != 0\):T"],
    64: [r"\(\(len % 4\) != 2\):T"], 65: [r"\(len != 4\):T"], 69: [r"is_multiple_of\(len, 4\):F"], 70: [r"\(len != 0\):T"],
    71: [r"is_multiple_of\(len, 7\):F"], 73: [r"\(len < 2\):T", r"hostlen.* > .*len.*:T"],
}


def run(prog, rep, tier):
    ak = prog.one(r"rustybgpd::event::accept_connection")
    av = view(prog, prog.body_key(ak))
    r1 = rep.rule("R16.1", "admission guard-set of accept_connection")
    check_admission(prog, av, ak, r1)
    check_prefix_membership(prog, r1)
    r2 = rep.rule("R16.2", "peer-group inheritance and PeerParams consumption cover every field")
    check_fields(prog, av, r2)
    r3 = rep.rule("R16.3", "the two role derivations agree")
    check_roles(prog, av, r3)
    r4 = rep.rule("R16.4", "capability negotiation is symmetric (mirror-image parameters)")
    check_negotiate(prog, r4)
    r5 = rep.rule("R16.5", "dynamic neighbour lifetime")
    check_dynamic(prog, av, r5)
    r7 = rep.rule("R16.7", "Capability::decode length rules equal the RFC table")
    check_caps(prog, r7)


def check_admission(prog, av, ak, r):
    r.analysed(prog.name(ak))
    news = [b for b, t in av.calls(re.compile(r"rustybgpd::event::PeerSession::new"))]
    if len(news) != 1:
        r.unanalysable("accept_connection: %d calls of PeerSession::new" % len(news), av.loc())
        return
    nb = news[0]
    brs = branches(av)
    found = {"admin_down": None, "already_connected": None, "no_group": None}
    for bi, br in brs.items():
        e = br.expr
        if "admin_down" in expr_fields(e) and br.ty == "bool":
            found["admin_down"] = bool_edges(av, br, True)
        if (e[0] == "var" and e[1] == "already_connected") or ("already_connected" in expr_fields(e) and br.ty == "bool"):
            found["already_connected"] = bool_edges(av, br, True)
        if e[0] == "discr" and ("group" in expr_vars(e) or "group" in expr_fields(e) or any(c.endswith("Iterator::find") for c in expr_calls(e))):
            edges = []
            for v, tgt in br.cases + [("else", br.otherwise)]:
                if br.label(prog, v) == "None":
                    edges.append((bi, tgt))
            if edges:
                found["no_group"] = edges
    what = {"admin_down": "an administratively-down neighbour", "already_connected": "a neighbour that already has a connection in this direction",
            "no_group": "an address that matches no configured neighbour and no dynamic prefix"}
    for k, edges in found.items():
        if not edges:
            r.fail(prog.name(ak), "admission-test-missing:" + k, "accept_connection has no test that rejects " + what[k], av.loc())
            continue
        bad = [tgt for (src, tgt) in edges if nb in av.reach(tgt)]
        if bad:
            r.fail(prog.name(ak), "admission-bypass:" + k, "a session can still be created for " + what[k], av.loc(bad[0]))
        else:
            r.ok("no session for " + what[k])
    # dynamic peer creation only on the None arm of peers.get_mut
    adds = [b for b, t in av.calls(re.compile(r"rustybgpd::event::Global::add_peer"))]
    for b in adds:
        gs = flat_guards(av, b, brs)
        if any(g[0] == "discr" and any(c.endswith("::get_mut") or c.endswith("::get") for c in expr_calls(g)) and "peers" in expr_fields(g) and l == {"None"} for g, l, h in gs):
            r.ok("dynamic peer created only when no configured neighbour matches")
        else:
            r.fail(prog.name(ak), "dynamic-create-guard", "a peer is created for an address that may already be configured", av.loc(b))
    # the prefix test uses IpNet::contains on the remote address
    toks = set()
    for kk in prog.with_closures(ak):
        toks |= fn_tokens(prog, kk, depth=0)
    if any(t.endswith("IpNet::contains") for t in toks if t.startswith("call:")) and "field:dynamic_peers" in toks:
        r.ok("dynamic admission = some dynamic prefix contains the remote address")
    else:
        r.fail(prog.name(ak), "dynamic-prefix-test", "the dynamic-neighbour test is not 'a configured prefix contains the address'", av.loc())
    # already_connected: each direction looks at its own close channel
    for kk in prog.with_closures(ak):
        cv = view(prog, kk)
        cbrs = branches(cv)
        for bi, t in cv.calls(re.compile(r".*Option::<T>::is_some$")):
            e = Renderer(cv, depth=8).operand(t["args"][0], 8)
            fs = set(expr_fields(e)) & {"active_close_tx", "passive_close_tx"}
            if not fs:
                continue
            role = None
            for g, ll, h in flat_guards(cv, bi, cbrs):
                if g[0] == "discr" and g[2] and g[2].endswith("fsm::Role") and len(ll) == 1:
                    role = next(iter(ll))
            if role is None:
                continue
            want_f = {"Active": "active_close_tx", "Passive": "passive_close_tx"}[role]
            if fs == {want_f}:
                r.ok("already_connected: a new %s connection is compared with %s" % (role, want_f))
            else:
                r.fail(prog.name(ak), "already-connected-wrong-slot:" + role, "for a new %s connection the duplicate test looks at %s: a second connection in the same direction is admitted "
                       "(and one in the other direction is refused before collision resolution can see it)" % (role, sorted(fs)), cv.loc(bi))
    # already_connected consults the close channel of the same direction
    if {"field:active_close_tx", "field:passive_close_tx"} <= toks:
        r.ok("already_connected consults the per-direction close channels")
    else:
        r.fail(prog.name(ak), "already-connected-def", "the duplicate-direction test does not consult both close channels", av.loc())


def _adt_fields(prog, name_rx):
    a = prog.adt(name_rx)
    return [f["n"] for f in a["variants"][0]["fields"]]


def check_fields(prog, av, r):
    pg_fields = [f for f in _adt_fields(prog, r"rustybgpd::event::peer::PeerGroup") if f != "dynamic_peers"]
    ap = view(prog, prog.one(r"rustybgpd::event::peer::PeerParams::apply_peer_group"))
    r.analysed(av.name, ap.name)
    toks_acc = fn_tokens(prog, av.key, depth=0)
    toks_ap = fn_tokens(prog, ap.key, depth=0)
    # reads on the PeerGroup value: restrict to places rooted at a local of PeerGroup type
    acc_reads = _reads_of_type(av, "PeerGroup")
    ap_reads = _reads_of_type(ap, "PeerGroup")
    for f in pg_fields:
        a, b = f in acc_reads, f in ap_reads
        if a and b:
            r.ok("PeerGroup.%s inherited by dynamic peers and by apply_peer_group" % f)
        else:
            where = "accept_connection (dynamic peers)" if not a else "apply_peer_group (configured members)"
            r.fail("rustybgpd::event::peer::PeerGroup", "not-inherited:%s:%s" % (f, "dynamic" if not a else "member"), "peer-group setting `%s` is not read in %s: members do not inherit it" % (f, where), av.loc() if not a else ap.loc())
    r.floor("PeerGroup fields", len(pg_fields), 14)
    pp_fields = _adt_fields(prog, r"rustybgpd::event::peer::PeerParams")
    bv = view(prog, prog.one(r"rustybgpd::event::peer::PeerParams::build"))
    gv = view(prog, prog.one(r"rustybgpd::event::Global::add_peer"))
    r.analysed(bv.name, gv.name)
    reads = _reads_of_type(bv, "PeerParams") | _reads_of_type(gv, "PeerParams")
    for kk in prog.with_closures(bv.key)[1:] + prog.with_closures(gv.key)[1:]:
        reads |= _reads_of_type(view(prog, kk), "PeerParams")
    for f in pp_fields:
        if f in reads:
            r.ok("PeerParams.%s consumed when the peer is built" % f)
        else:
            r.fail("rustybgpd::event::peer::PeerParams", "param-dropped:" + f, "PeerParams.%s is never read by PeerParams::build / Global::add_peer: the configured value is silently ignored" % f, bv.loc())
    r.floor("PeerParams fields", len(pp_fields), 24)
    # a setting that falls back to a global default (`if self.f == 0 { self.f = global }`) is read only after the fallback was
    # applied: whatever is derived from it earlier (capabilities, FSM, PeerConfig) is built from the unset value
    ndef = 0
    for f in pp_fields:
        ws = [(bi, si, st) for bi, si, st in field_writes(bv, f) if "PeerParams" in bv.f["locals"][st["p"]["l"]]]
        if not ws:
            continue
        brs = branches(bv)
        for bi, si, st in ws:
            tests = [g.bi for g, l in guards_of(bv, bi, brs) if f in expr_fields(g.expr)]
            if not tests:
                continue
            ndef += 1
            t = tests[-1]
            early = sorted(b for b, pl in _place_reads(bv) if "PeerParams" in bv.f["locals"][pl["l"]] and _first_field(pl) == f
                           and b != t and b != bi and not bv.dominates(t, b))
            if early:
                r.fail(bv.name, "default-after-use:" + f, "PeerParams.%s is read (line %d) before its fallback to the global value is applied (line %d): what is built from it there "
                       "(capabilities / FSM / PeerConfig) carries the unset value while the rest of the session uses the default" % (f, bv.line(early[0]), bv.line(bi)), bv.loc(early[0]))
            else:
                r.ok("build: every read of PeerParams.%s follows its fallback to the global default" % f)
    r.floor("PeerParams settings with a global fallback in build", ndef, 1)


def _reads_of_type(fv, tyname):
    out = set()

    def scan(place):
        proj = place.get("p") or []
        ty = fv.f["locals"][place["l"]]
        if tyname not in ty:
            return
        for e in proj:
            if isinstance(e, dict) and "f" in e and e.get("n"):
                out.add(e["n"])
                break

    def scan_op(o):
        p = o.get("c") or o.get("m")
        if p:
            scan(p)
    for b in fv.live:
        for s in fv.blocks[b]["s"]:
            rv = s.get("rv")
            if not rv:
                continue
            if rv["r"] in ("use", "cast", "repeat"):
                scan_op(rv["o"])
            elif rv["r"] in ("ref", "discr", "rawptr"):
                scan(rv["p"])
            elif rv["r"] == "bin":
                scan_op(rv["a"])
                scan_op(rv["b"])
            elif rv["r"] == "un":
                scan_op(rv["a"])
            elif rv["r"] == "agg":
                for x in rv["fields"]:
                    scan_op(x)
        t = fv.blocks[b]["t"]
        if t["t"] == "call":
            for a in t["args"]:
                scan_op(a)
        elif t["t"] == "switch":
            scan_op(t["o"])
    return out


def role_table(prog, fv):
    """role -> set of (atom, value) under which it is produced.  Atoms are what is tested, not how it is spelled: named lets are
    looked through and a `match` on a tuple of the tests reads like the if-chain."""
    tab = {}
    brs = branches(fv, Renderer(fv, depth=12, through_names=True))
    for bi, si, s in fv.aggregates(re.compile(r"rustybgp_table::PeerRole")):
        v = s["rv"]["v"]
        conds = set()

        def atom_of(g):
            flds = set(expr_fields(g))
            if g[0] == "call" and g[1].endswith("is_some_and") and ("confederation" in expr_vars(g) or "confederation" in flds or "confederation" in show(g, 400)):
                return "confed_member"
            if "route_server_client" in flds:
                return "rs_client"
            if "route_reflector_client" in flds:
                return "rr_client"
            if g[0] == "bin" and g[1] in ("Eq", "Ne") and {"expected_remote_asn", "local_asn"} <= flds:
                return "asn_eq:" + g[1]
            if g[0] == "bin" and g[1] in ("Eq", "Ne") and "local_asn" in flds:
                return "asn_nonzero:" + g[1]
            return None
        for g, l, h in flat_guards(fv, bi, brs, named=True):
            if g[0] == "matches" and h == "not":
                inner = {(atom_of(x), tuple(sorted(ll))) for x, ll in g[1]}
                if inner == {("asn_nonzero:Ne", ("true",)), ("asn_eq:Eq", ("true",))}:
                    conds.add(("same_asn", "false"))
                elif all(a for a, _ in inner):
                    conds.add(("not:" + ",".join(sorted("%s=%s" % (a, "|".join(ll)) for a, ll in inner)), "true"))
                continue
            a = atom_of(g)
            if a is None:
                continue
            conds.add((a, "|".join(sorted(l))))
        if {("asn_nonzero:Ne", "true"), ("asn_eq:Eq", "true")} <= conds:
            conds -= {("asn_nonzero:Ne", "true"), ("asn_eq:Eq", "true")}
            conds.add(("same_asn", "true"))
        tab.setdefault(v, set()).update(conds)
    return tab


def check_roles(prog, av, r):
    pv = view(prog, prog.one(r"rustybgpd::event::Peer::peer_role"))
    r.analysed(av.name, pv.name)
    ta, tb = role_table(prog, av), role_table(prog, pv)
    if set(ta) != {"RsClient", "Ibgp", "IbgpRrClient", "ConfedEbgp", "Ebgp"} or set(tb) != set(ta):
        r.fail(av.name, "role-set", "role derivations do not produce all five roles: accept_connection %s, Peer::peer_role %s" % (sorted(ta), sorted(tb)), av.loc())
        return
    for role in sorted(ta):
        if ta[role] == tb[role]:
            r.ok("%s derived under the same tests in both copies (%d conditions)" % (role, len(ta[role])))
        else:
            r.fail(av.name, "role-disagreement:" + role, "role %s is derived under different conditions: session setup %s vs Peer::peer_role %s" % (role, sorted(ta[role] - tb[role]), sorted(tb[role] - ta[role])), av.loc())
    if any(c[0] == "rs_client" for c in ta["RsClient"]) and any("confed" in c[0] for c in ta["ConfedEbgp"]) and any("rr_client" in c[0] for c in ta["IbgpRrClient"]):
        r.ok("role tests read route_server_client, local/remote AS, route_reflector_client, confederation members")
    else:
        r.fail(av.name, "role-inputs", "the role derivation no longer reads the configured role inputs", av.loc())


def masks_in(prog, key, depth=3):
    """BitAnd constant masks used in `key` and its nested closures."""
    out = set()
    fv = view(prog, key)
    rend = Renderer(fv, depth=4)
    for b in fv.live:
        for s in fv.blocks[b]["s"]:
            rv = s.get("rv")
            if rv and rv["r"] == "bin" and rv["op"] == "BitAnd":
                for o in (rv["a"], rv["b"]):
                    k = o.get("k")
                    if k and k.get("v") is not None:
                        out.add(k["v"])
            if rv and rv["r"] == "agg" and rv.get("k") == "closure" and depth > 0:
                out |= masks_in(prog, rv["def"], depth - 1)
        t = fv.blocks[b]["t"]
        if t["t"] == "call" and any(n.endswith("BitAnd::bitand") or n.endswith("::bitand") for n in callee_names(t)):
            for a in t["args"]:
                k = a.get("k")
                if k and k.get("v") is not None:
                    out.add(k["v"])
    return out


def check_negotiate(prog, r):
    nv = view(prog, prog.one(r"rustybgp_packet::bgp::PeerCodec::negotiate"))
    r.analysed(nv.name)
    brs = branches(nv)
    # whose capability list a value comes from is decided by value flow from the two parameters (1 = our list, 2 = the peer's),
    # not by what the locals are called: the entry taken out of the map built from parameter 1 is ours, the loop variable of the
    # map built from parameter 2 is the peer's
    from .c02 import SideResolver
    side = SideResolver(prog, nv)

    def who(x):
        rs = side.roots(x)
        return "lc" if 1 in rs else "rc" if rs == {2} else "?"
    want = {"addpath_rx": {("lc", 1), ("rc", 2)}, "addpath_tx": {("lc", 2), ("rc", 1)}}
    rend = Renderer(nv, depth=10)
    seen_fields = set()
    for bi0, si0, st0 in nv.aggregates(re.compile(r"rustybgp_packet::bgp::FamilyState")):
        from ..util import agg_field as af
        for n in want:
            op = af(st0, n)
            if op is None:
                continue
            seen_fields.add(n)
            q = op.get("c") or op.get("m")
            got = set()
            work, seen_l = ([q["l"]] if q is not None and not q.get("p") else []), set()
            while work:
                l = work.pop()
                if l in seen_l:
                    continue
                seen_l.add(l)
                for bi, si, s_ in nv.defs().get(l, []):
                    if bi not in nv.live or si == "t":
                        continue
                    if s_["rv"]["r"] == "use":
                        q2 = s_["rv"]["o"].get("c") or s_["rv"]["o"].get("m")
                        if q2 is not None and not q2.get("p"):
                            work.append(q2["l"])
                    exprs = [rend.rvalue(s_["rv"], 10)] + [g for g, ll, h in flat_guards(nv, bi, brs) if ll == {"true"}]
                    for e in exprs:
                        for x in walk(e):
                            if isinstance(x, tuple) and x and x[0] == "bin" and x[1] == "BitAnd":
                                m = ceval(x[3]) if ceval(x[3]) is not None else ceval(x[2])
                                if "addpath" in expr_fields(x):
                                    got.add((who(x), m))
            if got == want[n]:
                r.ok("negotiate: %s = %s" % (n, sorted(got)))
            else:
                r.fail(nv.name, "mask:" + n, "%s is computed from %s; mirror-image negotiation needs %s (receive = local RX bit and remote TX bit; send = local TX bit and remote RX bit)" % (n, sorted(got), sorted(want[n])), nv.loc())
    for n in want:
        if n not in seen_fields:
            r.unanalysable("negotiate: FamilyState.%s is not built here" % n, nv.loc())
    # both-sides predicates
    for fld, what in (("extended_length", "extended message"), ("two_byte_as", "4-octet AS"), ("extended_nexthop", "extended next hop")):
        okb = False
        n_agg = 0
        for bi, si, s in nv.aggregates(re.compile(r"rustybgp_packet::bgp::PeerCodec")):
            from ..util import agg_field as af
            op = af(s, fld)
            if op is None:
                continue
            n_agg += 1
            e = Renderer(nv, depth=14, through_names=True).operand(op, 14)
            # value is a multi-def bool from `has(local) && has(remote)` / a flag set to true under a test: look at its definitions
            p = op.get("c") or op.get("m")
            roots = set(side.roots(e))
            work = [p["l"]] if p and not p.get("p") else []
            seen_l = set()
            true_defs = []
            while work and len(seen_l) < 12:
                ll_ = work.pop()
                if ll_ in seen_l:
                    continue
                seen_l.add(ll_)
                for b2, s2, st in nv.defs().get(ll_, []):
                    if b2 not in nv.live:
                        continue
                    ee = Renderer(nv, depth=14).rvalue(st["rv"], 14) if s2 != "t" else Renderer(nv, depth=14).call_expr(st, 14, b2)
                    if ee[0] == "const" and ee[1] == 0:
                        continue            # the `false` side of an && / the initial value of a flag
                    gr_ = set(side.roots(ee))
                    for g, ll, h in flat_guards(nv, b2, brs):
                        if any(c.endswith("Iterator::next") for c in expr_calls(g)):
                            continue        # having left an earlier loop says nothing about the lists
                        if fld != "extended_nexthop" or (ll == {"true"} and fld in expr_fields(g)):
                            gr_ |= set(side.roots(g))
                    true_defs.append(gr_)
                    for x in walk(ee):
                        if isinstance(x, tuple) and x and x[0] == "tmp":
                            work.append(x[1])
                        if isinstance(x, tuple) and x and x[0] == "var":
                            work.extend(l_ for l_, n_ in nv.local_name.items() if n_ == x[1] and l_ > nv.f["argc"])
            if fld == "extended_nexthop":
                okb = bool(true_defs) and all({1, 2} <= d for d in true_defs if d) and any(true_defs)
            else:
                allr = roots.union(*true_defs) if true_defs else roots
                okb = {1, 2} <= allr
        if okb:
            r.ok("negotiate: %s needs both sides" % what)
        elif fld == "extended_nexthop":
            r.fail(nv.name, "one-sided:extended_nexthop", "extended next hop is switched on without both sides having advertised it for the family: IPv4 routes are then sent in MP_REACH_NLRI to a peer that did not negotiate RFC 8950", nv.loc())
        else:
            r.fail(nv.name, "one-sided:" + fld, "%s is enabled without consulting both capability lists" % what, nv.loc())
    # families = intersection: a family is inserted only under `the map built from our list had it` (remove(..) == Some) while the
    # peer's map is iterated
    ins = [b for b, t in nv.calls(re.compile(r".*HashMap::<K, V, S(, A)?>::insert")) if "FamilyState" in t["f"].get("ga", "")]
    okf = ins and all(any(g[0] == "discr" and any(c.endswith("::remove") or c.endswith("::get") or c.endswith("::contains_key") for c in expr_calls(g)) and {1, 2} <= set(side.roots(g)) and l == {"Some"}
                          for g, l, h in flat_guards(nv, b, brs)) for b in ins)
    if okf:
        r.ok("negotiate: a family is in force only if both sides advertised it")
    else:
        r.fail(nv.name, "family-intersection", "a family can be enabled without both sides advertising MultiProtocol for it", nv.loc())
    # the two other copies of the send-side test
    for nm in (r"rustybgpd::fsm::PeerFsm::process", r"rustybgpd::event::Peer::adj_out_effective_max"):
        k = prog.one(nm)
        # which mask is applied to whose capability list: every scan of a capability list (`caps.iter().any(closure)`) is classified
        # by its receiver (the local list: field local_cap / the peer's list: anything else) and by the BitAnd constants in the
        # closure; a scan written once as a local closure taking the mask as a parameter is classified per call site
        found = {"local_tx": set(), "remote_rx": set()}
        from ..inline import _closure_of_local
        for kk in prog.with_closures(k):
            kv = view(prog, kk)
            rn = Renderer(kv, depth=14, through_names=True)
            for bi, t in kv.calls():
                nm_ = t["f"].get("name") or ""
                if nm_.endswith("Iterator::any") and "Capability" in t["f"].get("ga", ""):
                    recv = rn.operand(t["args"][0], 14)
                    ck = None
                    q = t["args"][1].get("c") or t["args"][1].get("m")
                    if q is not None and not q.get("p"):
                        ck = _closure_of_local(kv.f, q["l"])
                    ms = masks_in(prog, ck) if ck else set()
                    if not ms:
                        continue          # the mask is not a literal here (a parameter): classified at the call sites below
                    cls_ = "local_tx" if "local_cap" in show(recv, 1000) else "remote_rx"
                    found[cls_] |= ms
                elif re.search(r"ops::(function::)?(Fn|FnMut|FnOnce)::call(_mut|_once)?$", nm_) and len(t["args"]) > 1:
                    tl = (t["args"][1].get("c") or t["args"][1].get("m") or {}).get("l")
                    tup = None
                    for b2, si2, s2 in kv.defs().get(tl, []) if tl is not None else []:
                        if si2 != "t" and s2["rv"]["r"] == "agg" and s2["rv"].get("k") == "tuple":
                            tup = s2["rv"]["fields"]
                    if not tup:
                        continue
                    consts = {(f_.get("k") or {}).get("v") for f_ in tup if isinstance((f_.get("k") or {}).get("v"), int)}
                    if not consts or not any("Capability" in kv.f["locals"][(f_.get("c") or f_.get("m") or {}).get("l", 0)] for f_ in tup if (f_.get("c") or f_.get("m"))):
                        continue
                    exprs = [rn.operand(f_, 14) for f_ in tup]
                    cls_ = "local_tx" if any("local_cap" in show(x, 1000) for x in exprs) else "remote_rx"
                    found[cls_] |= {c_ for c_ in consts if c_ in (1, 2, 3)}
        r.analysed(prog.name(k))
        if found.get("local_tx") == {2} and found.get("remote_rx") == {1}:
            r.ok("%s: send-side test uses local&0x2 and remote&0x1" % short(prog.name(k)))
        else:
            r.fail(prog.name(k), "send-mask-copy", "the copy of the add-path send test uses masks local %s / remote %s; negotiate uses local&2, remote&1" % (sorted(found.get("local_tx", [])), sorted(found.get("remote_rx", []))), view(prog, k).loc())
    # GR / LLGR negotiation read both lists
    for nm in ("negotiate_gr", "negotiate_llgr"):
        k = prog.one(r"rustybgpd::event::PeerSession::" + nm)
        toks = set()
        for kk in prog.with_closures(k):
            toks |= fn_tokens(prog, kk, depth=0)
        kv = view(prog, k)
        uses_remote = "remote_capabilities" in kv.local_name.values()
        uses_local = "field:local_cap" in toks
        r.analysed(prog.name(k))
        if uses_remote and uses_local:
            r.ok("%s consults local and remote capabilities" % nm)
        else:
            r.fail(prog.name(k), "one-sided:" + nm, "%s does not consult both capability lists" % nm, kv.loc())


def check_dynamic(prog, av, r):
    rk = prog.one(r"rustybgpd::event::PeerSession::run")
    rv_ = view(prog, prog.body_key(rk))
    r.analysed(prog.name(rk))
    rem = []
    for b, t in rv_.calls(re.compile(r".*HashMap::<K, V, S(, A)?>::remove")):
        e = Renderer(rv_, depth=10, through_names=True).operand(t["args"][0], 10)
        if "peers" in expr_fields(e):
            rem.append(b)
    if not rem:
        r.fail(prog.name(rk), "dynamic-never-removed", "PeerSession::run never removes a dynamic neighbour: its state outlives its last connection", rv_.loc())
    for b in rem:
        gs = flat_guards(rv_, b)
        d = any("delete_on_disconnected" in expr_fields(g) and l == {"true"} for g, l, h in gs)
        n = any(("no_sessions" in expr_vars(g) or "no_sessions" in expr_fields(g)) and l == {"true"} for g, l, h in gs)
        if d and n:
            r.ok("peers.remove only under delete_on_disconnected and no_sessions")
        else:
            r.fail(prog.name(rk), "dynamic-remove-guard", "the peer entry is removed without %s" % ("delete_on_disconnected" if not d else "checking that no session is left"), rv_.loc(b))
    # "no session left" (the value that lets run() reset / delete the neighbour) means: neither direction has a connection
    ak = prog.one(r"rustybgpd::event::apply_disconnect")
    afv = view(prog, prog.body_key(ak))
    r.analysed(prog.name(ak))
    rend = Renderer(afv, depth=8)
    ways = []          # each: list of (expr, labels) necessary for returning true that way
    for bi, si, s in afv.aggregates(re.compile(r".*Poll"), "Ready"):
        op = s["rv"]["fields"][0]
        l = (op.get("m") or op.get("c") or {}).get("l")
        if l is None:
            if op.get("k", {}).get("v") == 1:
                ways.append([(g, l2) for g, l2, h in flat_guards(afv, bi)])
            continue
        for b2, s2, st in afv.defs().get(l, []):
            if b2 not in afv.live:
                continue
            gs = [(g, l2) for g, l2, h in flat_guards(afv, b2)]
            if s2 == "t":
                gs.append((rend.call_expr(st, 8, b2), {"true"}))
            elif st["rv"].get("r") == "use" and "k" in st["rv"]["o"]:
                if not st["rv"]["o"]["k"].get("v"):
                    continue
            else:
                gs.append((rend.rvalue(st["rv"], 8), {"true"}))
            ways.append(gs)
    if not ways:
        r.unanalysable("apply_disconnect: no way of returning true found", afv.loc())
    for gs in ways:
        none_of = lambda f: any(g[0] == "call" and re.search(r"Option::(<T>::)?is_none$", g[1]) and f in expr_fields(g) and l2 == {"true"} for g, l2 in gs) \
            or any(g[0] == "discr" and f in expr_fields(g) and l2 == {"None"} for g, l2 in gs)
        miss = [f for f in ("active_close_tx", "passive_close_tx") if not none_of(f)]
        if miss:
            r.fail(prog.name(ak), "no-sessions-ignores:" + ",".join(miss), "apply_disconnect reports 'no session left' without %s being empty: the end of one connection resets (or deletes) a neighbour whose "
                   "other connection is alive, and a second connection in that direction is then admitted" % " / ".join(miss), afv.loc())
        else:
            r.ok("apply_disconnect: 'no session left' requires both close-channel slots to be None")
    # delete_on_disconnected: true only in accept_connection
    n = 0
    for k in crate_fns(prog, "rustybgpd"):
        if not any(a.endswith("peer::PeerParams::PeerParams") for a in prog.ix[k].get("aggs", [])):
            continue
        fv = view(prog, k)
        for bi, si, s in fv.aggregates(re.compile(r"rustybgpd::event::peer::PeerParams")):
            op = agg_field(s, "delete_on_disconnected")
            if op is None:
                continue
            n += 1
            v = op.get("k", {}).get("v")
            rn = root_name(prog, k)
            if v == 1 and not rn.endswith("accept_connection"):
                r.fail(rn, "delete-flag-static-peer", "a configured (non-dynamic) neighbour is created with delete_on_disconnected = true", fv.loc(bi))
            elif v == 1:
                r.ok("dynamic arm sets delete_on_disconnected")
            elif v == 0:
                if rn.endswith("accept_connection"):
                    r.fail(rn, "dynamic-not-deleted", "the dynamic neighbour is created with delete_on_disconnected = false", fv.loc(bi))
                else:
                    r.ok("%s: delete_on_disconnected = false" % short(rn))
    r.floor("PeerParams constructions", n, 2)


def check_caps(prog, r):
    k = prog.one(r"rustybgp_packet::bgp::Capability::decode")
    fv = view(prog, k)
    r.analysed(fv.name)
    brs = branches(fv)
    sw = None
    for bi, br in brs.items():
        if br.expr[0] == "var" and br.expr[1] == "code" and len(br.cases) >= 6:
            sw = br
    if sw is None:
        r.unanalysable("Capability::decode: switch on code not found", fv.loc())
        return
    cds = fv.control_deps()
    table = {}
    for b in sorted(fv.live):
        for s in fv.blocks[b]["s"]:
            rv = s.get("rv")
            if rv and rv["r"] == "agg" and rv.get("k") == "adt" and rv["v"] == "Err" and s["p"]["l"] == 0 and not s.get("x"):
                codes = None
                atoms = set()
                for g, l, h in flat_guards(fv, b, brs):
                    if g == sw.expr:
                        codes = l
                    else:
                        atoms.add(atom(g, l))
                for (cb, cl, cs) in cds.get(b, ()):
                    if cb in brs and brs[cb].expr != sw.expr:
                        atoms.add(atom(brs[cb].expr, {brs[cb].label(prog, cl)}))
                if codes:
                    for c in codes:
                        table.setdefault(c, set()).update(atoms)
    for code, reqs in sorted(CAP_RULES.items()):
        atoms = table.get(str(code), set())
        for rq in reqs:
            if any(re.search(rq, a) for a in atoms):
                r.ok("capability %d: error on /%s/" % (code, rq))
            else:
                r.fail(fv.name, "cap-rule:%d:%s" % (code, re.sub(r"[\\\\().*|:]+", "", rq)[:20]), "Capability::decode(code %d) has no error return for /%s/ (found %s)" % (code, rq, sorted(atoms)[:5]), fv.loc())
    # add-path modes outside 1..=3 are skipped, not stored
    ok = False
    for b, t in fv.calls(re.compile(r".*Vec::<T, A>::push")):
        gs = flat_guards(fv, b, brs)
        if any(l == {"69"} for g, l, h in gs if g == sw.expr):
            a = [atom(g, l) for g, l, h in gs]
            if any(re.search(r"\(val == 0\):F", x) for x in a) and any(re.search(r"\(val > 3\):F", x) for x in a):
                ok = True
    if ok:
        r.ok("add-path: modes 0 and >3 are not stored")
    else:
        r.fail(fv.name, "addpath-mode-range", "ADD-PATH entries with an invalid mode (0 or > 3) are stored as if advertised", fv.loc())


class _NoEval(Exception):
    pass


def _eval_u8(e, env):
    """Constant-fold an integer expression over the environment {variable: value}; u8 semantics for shifts (a shift by >= 8
    is the overflow panic of a debug build and masks in release: refuse it)."""
    while e[0] in ("ref", "deref"):
        e = e[1]
    if e[0] == "const" and isinstance(e[1], int):
        return e[1]
    if e[0] in ("var", "field") and not (e[0] == "field" and e[2] in (0, "0") and e[1][0] == "bin"):
        kx = _leaf_key(e)
        if kx in env:
            return env[kx]
        raise _NoEval("free variable " + kx)
    if e[0] == "cast":
        return _eval_u8(e[1], env) if len(e) > 1 else None
    if e[0] == "call" and re.search(r"(From::from|Into::into)$", e[1]) and len(e[2]) == 1:
        return _eval_u8(e[2][0], env)      # lossless integer widening
    if e[0] == "un" and e[1] == "Not":
        return (~_eval_u8(e[2], env)) & 0xff
    if e[0] == "bin":
        a, b = _eval_u8(e[2], env), _eval_u8(e[3], env)
        op = e[1]
        if op in ("Shr", "Shl", "ShrUnchecked", "ShlUnchecked"):
            if not 0 <= b < 8:
                raise _NoEval("shift by %d" % b)
            return (a >> b) if op.startswith("Shr") else ((a << b) & 0xff)
        if op in ("Sub", "SubUnchecked", "SubWithOverflow"):
            if a < b:
                raise _NoEval("%d - %d underflows" % (a, b))
            return a - b
        if op in ("Add", "AddUnchecked", "AddWithOverflow"):
            return a + b
        if op in ("Mul", "MulWithOverflow"):
            return a * b
        if op == "BitAnd":
            return a & b
        if op == "BitOr":
            return a | b
        if op == "BitXor":
            return a ^ b
        if op == "Div" and b:
            return a // b
        if op == "Rem" and b:
            return a % b
    if e[0] == "field" and e[2] in (0, "0") and e[1][0] == "bin":     # (a op b).0 of a checked operation
        return _eval_u8(e[1], env)
    raise _NoEval(show(e, 60))


def check_prefix_membership(prog, r):
    """An unknown remote address is admitted as a dynamic neighbour when IpNet::contains says it lies inside a configured prefix:
    the first `mask` bits are equal.  For the trailing partial octet that is `a[mask / 8] == b[mask / 8] & M` with
    M = the top (mask % 8) bits set.  The mask expression and the octet index are constant-folded for every prefix length 0..=128
    (a finite table; how the arithmetic is spelled does not matter)."""
    k = prog.one(r"rustybgp_packet::bgp::IpNet::contains")
    r.analysed(prog.name(k))
    sites = []
    for kk in prog.with_closures(k):
        fv = view(prog, kk)
        rend = Renderer(fv, depth=14, through_names=True)
        cands = [(bi, br.expr, br) for bi, br in branches(fv, rend).items()]
        for bi in sorted(fv.live):          # .. or the comparison is the value returned / stored, not a branch
            for st in fv.blocks[bi]["s"]:
                if st.get("rv") and st["rv"]["r"] == "bin" and st["rv"].get("op") in ("Eq", "Ne"):
                    cands.append((bi, rend.rvalue(st["rv"], 14), None))
        seen_e = set()
        for bi, e, br in cands:
            if not (e[0] == "bin" and e[1] in ("Eq", "Ne")) or (bi, e[1]) in seen_e:
                continue
            seen_e.add((bi, e[1]))
            for side in (e[2], e[3]):
                x = side
                while x[0] in ("ref", "deref"):
                    x = x[1]
                if x[0] == "bin" and x[1] == "BitAnd":
                    for m_, o_ in ((x[2], x[3]), (x[3], x[2])):
                        idx = [y[2][1] for y in walk(o_) if isinstance(y, tuple) and y and y[0] == "call" and y[1].endswith("Index::index")]
                        idx += [y[2] for y in walk(o_) if isinstance(y, tuple) and y and y[0] == "index"]
                        if idx and not any(isinstance(y, tuple) and y and (y[0] == "call" or y[0] == "index") for y in walk(m_)):
                            sites.append((fv, bi, m_, idx[0], br))
    if not sites:
        r.unanalysable("IpNet::contains: no masked octet comparison found", view(prog, k).loc())
        return
    for site in sites:
        _check_mask_site(prog, k, r, site)
    r.floor("masked octet comparisons in IpNet::contains", len(sites), 1)


def _leaf_key(e):
    """A named field is the same quantity through whichever alias of its owner it is read (`self`, a tuple of references built
    for a `match`, a pattern binding): key it by the field name."""
    if e[0] == "field" and isinstance(e[2], str) and not e[2].isdigit():
        return "." + e[2]
    return show(e, 200)


def _leaves(e, out):
    while isinstance(e, tuple) and e and e[0] in ("ref", "deref"):
        e = e[1]
    if not isinstance(e, tuple) or not e:
        return
    if e[0] in ("var", "field") and not (e[0] == "field" and e[2] in (0, "0") and e[1][0] == "bin"):
        out.add(_leaf_key(e))
        return
    if e[0] == "cast":
        _leaves(e[1], out)
    elif e[0] == "call" and re.search(r"(From::from|Into::into)$", e[1]) and len(e[2]) == 1:
        _leaves(e[2][0], out)
    elif e[0] == "un":
        _leaves(e[2], out)
    elif e[0] == "bin":
        _leaves(e[2], out)
        _leaves(e[3], out)
    elif e[0] == "field":
        _leaves(e[1], out)


def _check_mask_site(prog, k, r, site):
    fv, bi, m_, idx, br = site
    fl = set()
    _leaves(m_, fl)
    _leaves(idx, fl)
    free = sorted(fl)
    if len(free) != 1:
        r.unanalysable("IpNet::contains: partial-octet mask depends on %s (want: the prefix length only)" % free, fv.loc(bi))
        return
    # guards under which the masked comparison is made (r > 0 in today's spelling): evaluate them too, the comparison must be
    # made for every length with a partial octet
    def _only_len(e):
        o = set()
        _leaves(e[2], o)
        _leaves(e[3], o)
        return bool(o) and o <= set(free)
    gs = [(g.expr, l) for g, l in guards_of(fv, bi, branches(fv, Renderer(fv, depth=14, through_names=True))) if g.expr[0] == "bin" and g.expr[1] in ("Gt", "Ge", "Lt", "Le", "Eq", "Ne") and _only_len(g.expr)]
    bad = None
    for n in range(0, 129):
        env = {free[0]: n}
        rbits = n % 8
        try:
            reached = True
            for ge, labels in gs:
                a, b = _eval_u8(ge[2], env), _eval_u8(ge[3], env)
                v = {"Gt": a > b, "Ge": a >= b, "Lt": a < b, "Le": a <= b, "Eq": a == b, "Ne": a != b}.get(ge[1])
                if v is None:
                    raise _NoEval(show(ge, 40))
                if ("true" if v else "false") not in {str(x) for x in labels} and (1 if v else 0) not in labels:
                    reached = False
            if not reached:
                if rbits:
                    bad = (n, "the trailing %d bits of the prefix are not compared at all" % rbits)
                    break
                continue
            mval, ival = _eval_u8(m_, env), _eval_u8(idx, env)
        except _NoEval as ex:
            if rbits == 0:
                continue        # no partial octet: the comparison is not made (index would be past the address)
            r.unanalysable("IpNet::contains: cannot fold the partial-octet mask for /%d: %s" % (n, ex), fv.loc(bi))
            return
        want = (0xff << (8 - rbits)) & 0xff if rbits else None
        if rbits and (mval != want or ival != n // 8):
            bad = (n, "octet %d is compared under mask 0x%02x (a /%d prefix fixes octet %d under 0x%02x)" % (ival, mval, n, n // 8, want))
            break
    if bad:
        r.fail(prog.name(k), "prefix-membership-mask", "IpNet::contains for a /%d prefix: %s -- addresses outside a dynamic-neighbour prefix are admitted or addresses "
               "inside it refused" % bad, fv.loc(bi))
    else:
        r.ok("IpNet::contains: for every prefix length with a partial octet the octet index is len/8 and the mask keeps exactly the top len%8 bits (129 lengths folded)")


def _first_field(place):
    for e in place.get("p") or []:
        if isinstance(e, dict) and "f" in e:
            return e.get("n")
    return None


def _place_reads(fv):
    """(block, place) for every place read by a statement's rvalue or a terminator's operands."""
    out = []

    def scan(x, bi):
        if isinstance(x, dict):
            for k_ in ("c", "m"):
                if isinstance(x.get(k_), dict) and "l" in x[k_]:
                    out.append((bi, x[k_]))
            if x.get("r") in ("ref", "discr", "rawptr", "len", "copy_for_deref") and isinstance(x.get("p"), dict):
                out.append((bi, x["p"]))
            for k_, v in x.items():
                if k_ not in ("dest",):
                    scan(v, bi)
        elif isinstance(x, list):
            for v in x:
                scan(v, bi)
    for bi in fv.live:
        b = fv.blocks[bi]
        for st in b["s"]:
            if "rv" in st:
                scan(st["rv"], bi)
        scan({k_: v for k_, v in b["t"].items() if k_ != "dest"}, bi)
    return out
