"""C19 — BMP / MRT records are well-formed (structural clauses)."""
import re

from ..absint import analyse
from ..bytecount import ByteCount
from ..cfg import Renderer, walk, show, flat_guards, branches
from ..facts import callee_names, short
from ..util import view, crate_fns, root_name, expr_calls, expr_fields, expr_vars, loops

EXPLANATION = (
    "Static rules over packet/src/bmp.rs, packet/src/mrt.rs, daemon/src/bmp.rs, daemon/src/mrt.rs and on_established. "
    "R19.1 every length placeholder (BMP common header, MRT header, TABLE_DUMP_V2 record, RIB entry attribute length) is "
    "back-patched on every successful path with `len(dst) - start`, where `start` is the position the format counts from; "
    "R19.2 fixed layouts are path-invariant: PerPeerHeader::encode appends exactly 42 bytes, encode_ip 16, the MRT common "
    "header 12 (byte-count path analysis, min = max), the BMP V flag and the peer address are taken from the same field, and "
    "in MpHeader::encode the AFI written under each address-family arm is that arm's; R19.3 every entry count written is "
    "the length of the very collection the following loop iterates; R19.4 a container that holds exactly one BGP PDU "
    "(BMP Route Monitoring, MRT BGP4MP) does not discard the number of frames encode_to produced; R19.5 the Sent OPEN of a "
    "Peer Up is built from the local AS number, hold time and identifier; R19.6 the embedded codec's add-path state follows "
    "the record's own flag; R19.7 a per-(family, prefix) snapshot entry stores only its key's prefix, so a partial withdrawal "
    "cannot leave withdrawn prefixes in the replayed Route Monitoring UPDATEs. Decides these, not that the embedded PDU "
    "parses back to the monitored routes in general.")
ASSUMPTIONS = ["a BGP OPEN is never split by encode_to (it has no entries; C04 R04.5 analyses that function)",
               "MpHeader is built with both addresses of one TCP socket (same family)"]

BMP_ENC = r"rustybgp_packet::<bmp::BmpCodec as tokio_util::codec::Encoder<&'a bmp::Message>>::encode|rustybgp_packet::<bmp::BmpCodec as tokio_util::codec::Encoder<&.*bmp::Message>>::encode"
MRT_ENC = r"rustybgp_packet::<mrt::MrtCodec as tokio_util::codec::Encoder<&.*mrt::Message>>::encode"


def run(prog, rep, tier):
    r1 = rep.rule("R19.1", "length placeholders are back-patched with len - start on every successful path")
    check_patches(prog, r1)
    r2 = rep.rule("R19.2", "fixed layouts are path-invariant and family-consistent")
    check_peer_type_byte(prog, r2)
    check_layouts(prog, r2)
    r3 = rep.rule("R19.3", "entry counts are the length of the collection that is written")
    check_counts(prog, r3)
    check_peer_index(prog, r3)
    r4 = rep.rule("R19.4", "one BGP PDU per Route Monitoring / BGP4MP record")
    check_pdu_count(prog, r4)
    r6 = rep.rule("R19.6", "the embedded codec's add-path state is set from the record's own add-path flag for every record")
    check_addpath_state(prog, r6)
    r5 = rep.rule("R19.5", "Peer Up Sent OPEN is built from local parameters")
    check_sent_open(prog, r5)
    r7 = rep.rule("R19.7", "a per-prefix snapshot entry replays only the prefix it is keyed by")
    check_snapshot_entries(prog, r7)


def _find(prog, pat):
    ks = [k for k in prog.find(pat) if prog.ix[k]["kind"] in ("fn", "method")]
    return ks[0] if ks else None


# ---------------------------------------------------------------------------------------------- R19.1
# function -> (position variable patched, variable subtracted from len() in the patched value, what the format counts)
PATCHES = [
    (BMP_ENC, "pos_len", "pos_first", "BMP message length counts the whole message from the version byte"),
    (MRT_ENC, "pos", "pos", "MRT length counts the bytes after the 12-byte common header"),
    (r"rustybgp_packet::mrt::write_mrt_record", "len_offset", "body_start", "MRT length counts the bytes after the common header"),
    (r"rustybgp_packet::mrt::write_rib_entries", "attr_len_offset", "attr_start", "attribute length counts the attribute bytes of one RIB entry"),
]


def check_patches(prog, r):
    n = 0
    for pat, posv, startv, why in PATCHES:
        k = _find(prog, pat)
        if not k:
            r.unanalysable("function %s not found" % pat)
            continue
        fv = view(prog, k)
        r.analysed(fv.name)
        rend = Renderer(fv, depth=14)
        rend_n = Renderer(fv, depth=14, through_names=True)       # a position handed to a (spliced) helper keeps its identity
        ls = [l for l, nm in fv.local_name.items() if nm == posv]
        if not ls:
            r.fail(fv.name, "no-position:" + posv, "the length position `%s` is no longer recorded" % posv, fv.loc())
            continue
        patches = []
        for bi, t in fv.calls(re.compile(r".*IndexMut::index_mut$")):
            e = rend.operand(t["args"][1], 14)
            if posv in expr_vars(e) or posv in expr_vars(rend_n.operand(t["args"][1], 14)):
                patches.append(bi)
        defs = [bi for l in ls for bi, si, s in fv.defs().get(l, []) if bi in fv.live]
        errs = [b for b, si_, s_ in fv.aggregates(re.compile(r".*Result"), "Err")] + [b for b, t_ in fv.calls(re.compile(r".*FromResidual::from_residual$"))]
        for d in defs:
            n += 1
            if not patches:
                r.fail(fv.name, "never-patched:" + posv, "nothing is written back at `%s`" % posv, fv.loc(d))
            elif fv.must_pass(d, patches + errs, fv.returns()):
                r.ok("%s: `%s` is patched on every successful path" % (short(fv.name), posv))
            else:
                r.fail(fv.name, "patch-skipped:" + posv, "a path from the placeholder to a successful return skips the write-back at `%s`" % posv, fv.loc(d))
        # every message opened in this function records its own start: a (re)definition of the placeholder position must be
        # preceded by a (re)definition of the start position with no other message boundary in between
        if startv != posv:
            sdefs = [bi for l, nm_ in fv.local_name.items() if nm_ == startv for bi, si, s_ in fv.defs().get(l, []) if bi in fv.live]
            for d in defs:
                others = [x for x in defs if x != d] + [p_ for p_ in patches]
                fresh = any(d == sd or d in fv.reach_after(sd, [x for x in others if x != sd and x != d]) for sd in sdefs)
                # a start recorded before an *earlier* placeholder does not count: require a start definition that is not
                # followed by another placeholder definition before reaching d
                if fresh and len(sdefs) >= len(defs):
                    continue
                if len(sdefs) < len(defs):
                    r.fail(fv.name, "start-not-rerecorded:" + startv, "`%s` is (re)recorded %d time(s) but the length placeholder `%s` %d time(s): a message opened later in the same call is "
                           "measured from the start of an earlier one, so its length field covers more than the message" % (startv, len(sdefs), posv, len(defs)), fv.loc(d))
                    break
        # the value written: some `len(dst) - <start>` (a Sub whose right operand is the named start position and whose
        # left operand comes from a len() call) must flow into the value operand of the write_uNN that follows the patch
        ok_val = False
        seen_val = None
        subs = []
        len_locals = {t["dest"]["l"] for b, t in fv.calls(re.compile(r".*::len$")) if t.get("dest")}
        named = {l for l, nm in fv.local_name.items() if nm == startv}
        copies = set(named)
        for b in sorted(fv.live):
            for s_ in fv.blocks[b]["s"]:
                rv = s_.get("rv")
                if rv and rv["r"] == "use":
                    p_ = rv["o"].get("c") or rv["o"].get("m")
                    if p_ and not p_.get("p") and p_["l"] in copies:
                        copies.add(s_["p"]["l"])
        for b in sorted(fv.live):
            for s_ in fv.blocks[b]["s"]:
                rv = s_.get("rv")
                if rv and rv["r"] == "bin" and rv["op"].startswith("Sub"):
                    la = (rv["a"].get("c") or rv["a"].get("m") or {}).get("l")
                    lb = (rv["b"].get("c") or rv["b"].get("m") or {}).get("l")
                    if la in len_locals and lb in copies:
                        subs.append(s_["p"]["l"])
        flow = set(subs)
        changed = True
        while changed:
            changed = False
            for b in sorted(fv.live):
                for s_ in fv.blocks[b]["s"]:
                    rv = s_.get("rv")
                    if rv and rv["r"] in ("use", "cast"):
                        p_ = rv["o"].get("c") or rv["o"].get("m")
                        if p_ and p_["l"] in flow and s_["p"]["l"] not in flow:
                            flow.add(s_["p"]["l"])
                            changed = True
        for bi, t in fv.calls(re.compile(r"byteorder::WriteBytesExt::write_u(16|32)$")):
            if not any(bi in fv.reach_after(p) or bi == p for p in patches):
                continue
            seen_val = Renderer(fv, depth=8).operand(t["args"][1], 8)
            lv = (t["args"][1].get("c") or t["args"][1].get("m") or {}).get("l")
            if lv in flow:
                ok_val = True
        # the same write spelled with the standard library: `dst[a..b].copy_from_slice(&value.to_be_bytes())`
        for bi, t in fv.calls(re.compile(r".*::to_be_bytes$")):
            if not any(bi in fv.reach_after(p) or bi == p for p in patches):
                continue
            seen_val = seen_val or Renderer(fv, depth=8).operand(t["args"][0], 8)
            lv = (t["args"][0].get("c") or t["args"][0].get("m") or {}).get("l")
            if lv in flow:
                ok_val = True
        if ok_val:
            r.ok("%s: value patched in is len(dst) - %s (%s)" % (short(fv.name), startv, why))
        elif patches:
            r.fail(fv.name, "patched-value:" + posv, "the value written back at `%s` is %s, not len(dst) - %s (%s)" % (posv, show(seen_val, 80) if seen_val else "?", startv, why), fv.loc(patches[0]))
    r.floor("length placeholders", n, 4)


# ---------------------------------------------------------------------------------------------- R19.2
FIXED = [(r"rustybgp_packet::bmp::PerPeerHeader::encode", 2, 42, "BMP per-peer header (RFC 7854 section 4.2)"),
         (r"rustybgp_packet::bmp::Message::encode_ip", 1, 16, "BMP 16-byte address field"),
         (r"rustybgp_packet::mrt::Header::encode", 2, 12, "MRT common header (RFC 6396 section 2)")]


def check_layouts(prog, r):
    bc = ByteCount(prog, {})
    for pat, param, want, what in FIXED:
        k = _find(prog, pat)
        if not k:
            r.unanalysable("function %s not found" % pat)
            continue
        r.analysed(prog.name(k))
        ex = bc.exact(k, param)
        if ex is None:
            r.unanalysable("%s: byte count not computable (loops)" % short(prog.name(k)))
        elif ex == (want, want):
            r.ok("%s appends exactly %d bytes on every path (%s)" % (short(prog.name(k)), want, what))
        else:
            r.fail(prog.name(k), "layout-size", "%s appends between %s and %s bytes depending on the path; the %s is %d bytes" % (short(prog.name(k)), ex[0], ex[1], what, want), view(prog, k).loc())
    # V flag and peer address come from the same field
    k = _find(prog, r"rustybgp_packet::bmp::PerPeerHeader::encode")
    if k:
        fv = view(prog, k)
        rend = Renderer(fv, depth=10)
        f_flag = f_addr = None
        for bi, t in fv.calls(re.compile(r".*IpAddr::is_ipv6$")):
            f_flag = set(expr_fields(rend.operand(t["args"][0], 10)))
        if f_flag is None:
            # `match self.remote_addr { IpAddr::V4(_) => 0, IpAddr::V6(_) => FLAG }`: a switch on the discriminant of an IpAddr
            for bb, br in branches(fv, rend).items():
                if br.expr[0] == "discr" and br.adt and br.adt.endswith("IpAddr"):
                    f_flag = set(expr_fields(br.expr))
        for bi, t in fv.calls(re.compile(r"rustybgp_packet::bmp::Message::encode_ip$")):
            f_addr = set(expr_fields(rend.operand(t["args"][1], 10)))
        if f_flag and f_addr and f_flag == f_addr:
            r.ok("PerPeerHeader::encode: the V flag and the address bytes both come from %s" % sorted(f_flag))
        else:
            r.fail(fv.name, "v-flag-source", "the IPv6 (V) flag is computed from %s but the address written is %s" % (sorted(f_flag or []), sorted(f_addr or [])), fv.loc())
    # MpHeader: AFI per arm
    k = _find(prog, r"rustybgp_packet::mrt::MpHeader::encode")
    if k:
        fv = view(prog, k)
        it = analyse(prog, k)
        r.analysed(fv.name)
        brs = branches(fv)
        seen = {}
        for bi, t in fv.calls(re.compile(r".*BufMut::put_u16$")):
            arm = None
            for g, l, h in flat_guards(fv, bi, brs):
                if g[0] == "discr" and "remote_addr" in expr_fields(g) and l <= {"V4", "V6"} and len(l) == 1:
                    arm = next(iter(l))
            if arm is None or bi not in it.IN:
                continue
            st = it.IN[bi].copy()
            for j, s2 in enumerate(fv.blocks[bi]["s"]):
                if "rv" in s2:
                    it.do_assign(st, s2, bi, j, False)
            lo, hi = it.range_of(st, t["args"][1])
            seen[arm] = (lo, hi)
        want = {"V4": 1, "V6": 2}
        for arm, v in want.items():
            if seen.get(arm) == (v, v):
                r.ok("MpHeader::encode: AFI %d written in the %s arm" % (v, arm))
            elif arm in seen:
                r.fail(fv.name, "afi-arm:" + arm, "the %s arm of MpHeader::encode writes AFI in %s, not %d" % (arm, seen[arm], v), fv.loc())
            else:
                r.unanalysable("MpHeader::encode: no AFI write recognised in the %s arm" % arm, fv.loc())


# ---------------------------------------------------------------------------------------------- R19.3
def check_counts(prog, r):
    n = 0
    for k in crate_fns(prog, "rustybgp_packet"):
        nm = prog.name(prog.ix[k].get("root") or k)
        if not re.search(r"::mrt::(encode_table_dump|write_rib_entries)", nm):
            continue
        fv = view(prog, k)
        rend = Renderer(fv, depth=14, through_names=True)
        for bi, t in fv.calls(re.compile(r".*BufMut::put_u16$")):
            e = rend.operand(t["args"][1], 14)
            lens = [x for x in walk(e) if isinstance(x, tuple) and x and x[0] == "call" and x[1].endswith("::len")]
            if not lens:
                continue
            n += 1
            r.analysed(nm)
            counted = set(expr_vars(lens[0])) | set(expr_fields(lens[0]))
            iterated = set()
            for b2, t2 in fv.calls(re.compile(r".*IntoIterator::into_iter$")):
                if b2 in fv.reach_after(bi):
                    ee = rend.operand(t2["args"][0], 14)
                    iterated |= set(expr_vars(ee)) | set(expr_fields(ee))
            common = (counted & iterated) - {"self"}
            # .. and the loop writes one entry per element: no iteration can end without appending to the buffer
            for h, body, backs in loops(fv):
                nexts = [b for b in body if fv.blocks[b]["t"]["t"] == "call" and (fv.blocks[b]["t"]["f"].get("name") or "").endswith("Iterator::next")]
                if h not in fv.reach_after(bi) or not nexts:
                    continue
                inner_of_other = [1 for h2, body2, _ in loops(fv) if h2 != h and h in body2 and h2 in fv.reach_after(bi)]
                if inner_of_other:
                    continue        # nested loops (attribute lists of one entry) are not the counted collection
                writes = [b for b in body if fv.blocks[b]["t"]["t"] == "call" and re.search(r"BufMut::put_\w+$|::extend_from_slice$|::encode\w*$|::write_\w+$|mrt::encode_\w+$", fv.blocks[b]["t"]["f"].get("name") or "")]
                nb = nexts[0]
                if nb in fv.reach_after(nb, removed_blocks=set(writes) | {b for b in fv.live if b not in body}):
                    r.fail(nm, "count-skips-entry", "the count written at line %d is the length of the collection, but an iteration of the loop that writes the entries can end without writing one "
                           "(line %d): the record announces more entries than it contains" % (fv.line(bi), fv.line(nb)), fv.loc(nb))
                else:
                    r.ok("%s@%d: every iteration of the entry loop appends to the record" % (short(nm), fv.line(bi)))
            if common:
                r.ok("%s@%d: the count written is the length of `%s`, which the following loop writes" % (short(nm), fv.line(bi), "/".join(sorted(common))))
            else:
                r.fail(nm, "count-source@%s" % "/".join(sorted(counted)), "the count written at line %d is the length of %s but the entries written afterwards come from %s" % (fv.line(bi), sorted(counted), sorted(iterated)), fv.loc(bi))
    r.floor("entry counts in TABLE_DUMP_V2 records", n, 2)


def check_peer_type_byte(prog, r):
    """PEER_INDEX_TABLE entry (RFC 6396 4.3.1): peer type bit 0 = the address is IPv6, bit 1 = the AS number is four octets.  The
    encoder always writes the AS with put_u32, so bit 1 must be set in every arm, and bit 0 exactly in the IPv6 arm; a reader
    sizes the row from this byte, so a wrong bit misaligns every following row."""
    ks = [k for k in crate_fns(prog, "rustybgp_packet") if re.search(r"::mrt::encode_table_dump", prog.name(prog.ix[k].get("root") or k))]
    seen = {}
    as4 = False
    for k in ks:
        fv = view(prog, k)
        brs = branches(fv)
        u8s = [b for b, t in fv.calls(re.compile(r".*BufMut::put_u8$"))]
        if any("asn" in expr_fields(Renderer(fv, depth=8, through_names=True).operand(t["args"][1], 8)) for b, t in fv.calls(re.compile(r".*BufMut::put_u32$"))):
            as4 = True
        for b, t in fv.calls(re.compile(r".*BufMut::put_u8$")):
            q = t["args"][1].get("c") or t["args"][1].get("m")
            if q is None or q.get("p"):
                continue
            ql, hops = q["l"], 0
            while hops < 4:         # the byte is usually a named local copied into the argument temporary
                hops += 1
                d1 = [st for bi, si, st in fv.defs().get(ql, []) if bi in fv.live and si != "t"]
                if len(d1) == 1 and d1[0]["rv"]["r"] == "use" and (d1[0]["rv"]["o"].get("c") or d1[0]["rv"]["o"].get("m")) and not (d1[0]["rv"]["o"].get("c") or d1[0]["rv"]["o"].get("m")).get("p"):
                    ql = (d1[0]["rv"]["o"].get("c") or d1[0]["rv"]["o"].get("m"))["l"]
                else:
                    break
            ds = [(bi, st) for bi, si, st in fv.defs().get(ql, []) if bi in fv.live and si != "t" and st["rv"]["r"] == "use" and "k" in st["rv"]["o"]]
            if len(ds) < 2:
                continue
            for bi, st in ds:
                for g, l, h in flat_guards(fv, bi, brs):
                    if g[0] == "discr" and g[2] and g[2].endswith("IpAddr") and len(l) == 1 and next(iter(l)) in ("V4", "V6"):
                        seen[next(iter(l))] = (st["rv"]["o"]["k"].get("v"), fv, bi)
                    if g[0] == "call" and re.search(r"IpAddr::is_ipv(4|6)$", g[1]) and len(l) == 1 and next(iter(l)) in ("true", "false"):
                        six = g[1].endswith("6") == (next(iter(l)) == "true")
                        seen["V6" if six else "V4"] = (st["rv"]["o"]["k"].get("v"), fv, bi)
    if set(seen) != {"V4", "V6"}:
        r.unanalysable("encode_table_dump: peer type byte per address family not recognised (%s)" % sorted(seen))
        return
    r.analysed("rustybgp_packet::mrt::encode_table_dump")
    for arm, (v, fv, bi) in sorted(seen.items()):
        want = (1 if arm == "V6" else 0) | (2 if as4 else 0)
        if v == want:
            r.ok("PEER_INDEX_TABLE: peer type 0x%02x for an %s peer (AS written as %d octets)" % (v, "IPv6" if arm == "V6" else "IPv4", 4 if as4 else 2))
        else:
            r.fail("rustybgp_packet::mrt::encode_table_dump", "peer-type-byte:%s" % arm, "the peer type byte of an %s peer is 0x%02x; with the address family and the %d-octet AS written it must be 0x%02x, "
                   "otherwise a reader sizes the row wrongly and every following peer entry is misaligned" % ("IPv6" if arm == "V6" else "IPv4", v if v is not None else -1, 4 if as4 else 2, want), fv.loc(bi))


def check_peer_index(prog, r):
    """TABLE_DUMP_V2 peer indexes: a peer's index is its position in the PEER_INDEX_TABLE, i.e. `peers.len()` read at
    the moment the peer is appended.  The length must be re-read in every iteration of the innermost loop that can
    append (a value hoisted out of that loop is stale after the first append)."""
    dk = prog.find(r"rustybgpd::mrt::dump_table")
    if len(dk) != 1:
        r.unanalysable("rustybgpd::mrt::dump_table anchor matched %d" % len(dk))
        return
    fv = view(prog, prog.body_key(dk[0]))
    r.analysed(prog.name(dk[0]))
    lps = loops(fv)
    lens = [b for b, t in fv.calls(re.compile(r".*Vec::<T(, A)?>::len$")) if "PeerEntry" in t["f"].get("ga", "")]
    # where a peer's index is stored: `entry(addr).or_insert_with(..)` or a plain `insert(addr, idx)` into the address -> u16 map
    users = [b for b, t in fv.calls(re.compile(r".*Entry::<.*>::(or_insert_with|or_insert)$")) if "u16" in t["f"].get("ga", "")]
    users += [b for b, t in fv.calls(re.compile(r".*HashMap::<K, V, S(, A)?>::insert$")) if re.search(r"\bu16\b", t["f"].get("ga", "")) and "IpAddr" in t["f"].get("ga", "")]
    if not lens or not users:
        r.unanalysable("dump_table: peers.len() reads %d, peer_index inserts %d" % (len(lens), len(users)), fv.loc())
        return
    for ub in users:
        inner = [body for h, body, backs in lps if ub in body]
        if not inner:
            r.ok("dump_table: peer index assigned outside any loop")
            continue
        body = min(inner, key=len)
        if any(lb in body for lb in lens):
            r.ok("dump_table: peers.len() is read in every iteration that can append a peer")
        else:
            r.fail(prog.name(dk[0]), "peer-index-stale-length", "the peer index is taken from a peers.len() read outside the innermost loop that appends peers (line %d): two peers first seen in the same "
                   "pass get the same index, so RIB entries are attributed to the wrong peer" % fv.line(lens[0]), fv.loc(ub))


def check_addpath_state(prog, r):
    n = 0
    for pat, container in ((BMP_ENC, "BMP"), (MRT_ENC, "MRT")):
        k = _find(prog, pat)
        if not k:
            r.unanalysable("encoder %s not found" % container)
            continue
        fv = view(prog, k)
        r.analysed(fv.name)
        brs = branches(fv)
        rend = Renderer(fv, depth=12)
        sites = fv.calls(re.compile(r"rustybgp_packet::bgp::PeerCodec::set_family$"))
        if not sites:
            r.fail(fv.name, "no-set_family:" + container, "the embedded codec's per-family add-path state is never set from the record", fv.loc())
            continue
        for bi, t in sites:
            n += 1
            e = rend.operand(t["args"][2], 12)
            fstate = [x for x in walk(e) if isinstance(x, tuple) and x and x[0] == "agg" and str(x[1]).endswith("FamilyState")]
            vs = set(expr_vars(e))
            gvars = {v for g, l, h in flat_guards(fv, bi, brs) for v in expr_vars(g)}
            if "addpath" not in vs:
                r.fail(fv.name, "addpath-state-not-from-record:" + container, "set_family is called with an add-path state that does not come from the record's `addpath` flag (%s): the shared codec "
                       "keeps whatever an earlier record left" % show(e, 80), fv.loc(bi))
            elif "addpath" in gvars:
                r.fail(fv.name, "addpath-state-conditional:" + container, "set_family is skipped depending on `addpath`: after one add-path record the shared codec keeps writing path identifiers into "
                       "records that state add-path off", fv.loc(bi))
            else:
                r.ok("%s: set_family(addpath_tx = record.addpath) for every record that carries a family" % container)
    r.floor("set_family sites in the BMP/MRT encoders", n, 2)
    # the embedded codec *encodes*: whether it writes path identifiers is its addpath_tx state, so that is the field the record's
    # flag has to set (setting addpath_rx leaves the encoder in plain mode while the record header says add-path)
    from ..util import agg_field as _af
    for pat, container in ((BMP_ENC, "BMP"), (MRT_ENC, "MRT")):
        k = _find(prog, pat)
        if not k:
            continue
        fv = view(prog, k)
        rn = Renderer(fv, depth=8, through_names=True)
        fs = fv.aggregates(re.compile(r"rustybgp_packet::bgp::FamilyState$"))
        if not fs:
            r.unanalysable("%s encoder builds no FamilyState for set_family" % container, fv.loc())
        for bi, si, st in fs:
            tx, rx = _af(st, "addpath_tx"), _af(st, "addpath_rx")
            etx = rn.operand(tx, 8) if tx is not None else None
            if etx is not None and "addpath" in (set(expr_vars(etx)) | set(expr_fields(etx))):
                r.ok("%s: the record's add-path flag sets the embedded encoder's addpath_tx" % container)
            else:
                r.fail(fv.name, "addpath-state-wrong-direction:" + container, "the FamilyState given to the embedded encoder has addpath_tx = %s: the record's add-path flag does not reach the "
                       "direction the encoder reads, so path identifiers are not written although the record states add-path" % (show(etx, 30) if etx is not None else "?"), fv.loc(bi))
    # .. and the flag itself is the monitored session's: a Route Monitoring record built from a change that carries an `addpath`
    # setting (Adj-RIB-In / Adj-RIB-Out changes) states that setting, not a constant
    structs_with_flag = {nm for nm, a in prog.adt_by_name.items() if len(a["variants"]) == 1 and any(f["n"] == "addpath" for f in a["variants"][0]["fields"]) and nm.startswith("rustybgpd::")}
    m = 0
    for k in crate_fns(prog, "rustybgpd"):
        nm = prog.ix[k]["name"]
        if "::tests::" in nm:
            continue
        fv = view(prog, k)
        ags = fv.aggregates(re.compile(r"rustybgp_packet::bmp::Message$"), "RouteMonitoring")
        if not ags:
            continue
        r.analysed(root_name(prog, k))
        rend = Renderer(fv, depth=10, through_names=True)
        plain = Renderer(fv, depth=10)
        try:
            names = [f["n"] for v in prog.adt(r"rustybgp_packet::bmp::Message")["variants"] if v["n"] == "RouteMonitoring" for f in v["fields"]]
            ia = names.index("addpath")
        except Exception:
            r.unanalysable("bmp::Message::RouteMonitoring has no `addpath` field", fv.loc())
            break
        for bi, si, st in ags:
            fields = st["rv"]["fields"]
            srcs = set()
            for j, o in enumerate(fields):
                if j == ia:
                    continue
                for e in (rend.operand(o, 10), plain.operand(o, 10)):
                    for v in expr_vars(e):
                        for l, n_ in fv.local_name.items():
                            if n_ == v and l < len(fv.f["locals"]):
                                ty = re.sub(r"^(&(mut )?)+", "", fv.f["locals"][l])
                                ty = re.sub(r"<.*", "", ty)
                                hit = [s_ for s_ in structs_with_flag if s_ == ty or s_.endswith("::" + ty) or ty.endswith("::" + s_.split("::", 1)[-1])]
                                if hit:
                                    srcs.add(v)
            if not srcs:
                continue        # End-of-RIB markers, Loc-RIB records: no session add-path setting is involved
            m += 1
            ea = rend.operand(fields[ia], 10)
            ep = plain.operand(fields[ia], 10)
            if any("addpath" in expr_fields(x) for x in (ea, ep)):
                r.ok("%s@%d: Route Monitoring built from `%s` states its add-path setting" % (short(root_name(prog, k)), fv.line(bi), "/".join(sorted(srcs))))
            else:
                r.fail(root_name(prog, k), "route-monitoring-addpath-not-from-change", "the Route Monitoring record built from `%s` states add-path = %s instead of the change's own setting: the UPDATE of an "
                       "add-path session is encoded without path identifiers, so it does not parse back with the session's setting and the path ids are lost" % ("/".join(sorted(srcs)), show(ea, 40)), fv.loc(bi))
    r.floor("Route Monitoring records built from a change with an add-path setting", m, 5)


# ---------------------------------------------------------------------------------------------- R19.4
def check_pdu_count(prog, r):
    n = 0
    for pat, container in ((BMP_ENC, "BMP"), (MRT_ENC, "MRT")):
        k = _find(prog, pat)
        if not k:
            r.unanalysable("encoder %s not found" % container)
            continue
        fv = view(prog, k)
        r.analysed(fv.name)
        brs = branches(fv)
        for bi, t in fv.calls(re.compile(r"rustybgp_packet::bgp::PeerCodec::encode_to$")):
            n += 1
            arm = "?"
            for g, l, h in flat_guards(fv, bi, brs):
                if g[0] == "discr" and g[2] and (g[2].endswith("bmp::Message") or g[2].endswith("mrt::Message")) and len(l) == 1:
                    arm = next(iter(l))
            if arm == "?" and container == "MRT":
                arm = "Mp"
            used = _count_used(fv, bi, t) or _per_frame(fv, bi, t)
            if arm == "PeerUp":
                r.ok("%s %s: OPEN messages are encoded as one frame each" % (container, arm))
            elif used:
                r.ok("%s %s: the frame count returned by encode_to is inspected" % (container, arm))
            else:
                r.fail(fv.name, "pdu-count-ignored:" + arm, "the %s %s record holds exactly one BGP PDU, but the UPDATE is re-encoded with this codec's own limits and the number of frames encode_to produced is discarded: "
                       "an update that splits (received with extended messages, or grown by re-encoding) puts several PDUs into one record" % (container, arm), fv.loc(bi))
    r.floor("embedded PDU encodings", n, 4)


def _per_frame(fv, bi, t):
    """The buffer filled by encode_to is copied into the record frame by frame: every put_slice that follows copies a
    piece obtained with split_at (whose length comes from the PDU's own header), never the whole buffer."""
    rend = Renderer(fv, depth=30, through_names=True)
    srcs = []
    for b2, t2 in fv.calls(re.compile(r".*BufMut::put_slice$")):
        if b2 not in fv.reach_after(bi):
            continue
        e = rend.operand(t2["args"][1], 30)
        calls = expr_calls(e)
        vs = expr_vars(e)
        if "buf" in vs or any(c.endswith("BytesMut::as_ref") or c.endswith("AsRef::as_ref") for c in calls) or "pdu" in vs or any(c.endswith("split_at") for c in calls):
            srcs.append((b2, any(c.endswith("split_at") for c in calls)))
    return bool(srcs) and all(sp for _, sp in srcs)


def _count_used(fv, bi, t):
    """The Ok payload of encode_to's result reaches a comparison / switch / store (not just unwrap-and-drop)."""
    seen = {t["dest"]["l"]}
    for b in sorted(fv.reach_after(bi) | {t.get("to")}):
        if b is None or b not in fv.live:
            continue
        for s in fv.blocks[b]["s"]:
            rv = s.get("rv")
            if not rv:
                continue
            ops = [rv.get("o"), rv.get("a"), rv.get("b")]
            ls = [(o.get("c") or o.get("m") or {}).get("l") for o in ops if o]
            if any(x in seen for x in ls if x is not None):
                if rv["r"] == "bin":
                    return True
                seen.add(s["p"]["l"])
        tt = fv.blocks[b]["t"]
        if tt["t"] == "call":
            if any((a.get("c") or a.get("m") or {}).get("l") in seen for a in tt.get("args", [])):
                nm = tt["f"].get("name", "")
                if re.search(r"Result::<T, E>::(unwrap|expect|unwrap_or)$", nm) and tt.get("dest"):
                    seen.add(tt["dest"]["l"])
                elif not nm.endswith("drop_in_place") and not nm.endswith("mem::drop"):
                    return True
        if tt["t"] == "switch":
            p = tt["o"].get("c") or tt["o"].get("m")
            if p and p["l"] in seen:
                return True
    return False


# ---------------------------------------------------------------------------------------------- R19.5
def check_sent_open(prog, r):
    n = 0
    for k in crate_fns(prog, "rustybgpd"):
        ix = prog.ix[k]
        if not any(a.endswith("PeerUpData") for a in ix.get("aggs", [])):
            continue
        if "::tests::" in ix["name"] or ix["name"].startswith("rustybgpd::bmp::tests") or ix["name"].endswith("::clone"):
            continue
        fv = view(prog, k)
        rend = Renderer(fv, depth=20, through_names=False)
        for bi, si, s in fv.aggregates(re.compile(r"rustybgpd::.*PeerUpData$")):
            names = s["rv"].get("fn") or []
            if "sent_open" not in names:
                continue
            n += 1
            r.analysed(root_name(prog, k))
            e = rend.operand(s["rv"]["fields"][names.index("sent_open")], 20)
            opens = [x for x in walk(e) if isinstance(x, tuple) and x and x[0] == "agg" and str(x[1]).endswith("bgp::Open")]
            if not opens:
                r.unanalysable("%s: sent_open is not built in place (%s)" % (short(root_name(prog, k)), show(e, 80)), fv.loc(bi))
                continue
            txt_f = set(expr_fields(opens[0])) | set(expr_vars(opens[0]))
            remote = sorted(x for x in txt_f if x.startswith("remote_"))
            local_ok = any("local_asn" == x for x in txt_f) and any(x in ("local_router_id", "router_id") and True for x in txt_f)
            if remote:
                r.fail(root_name(prog, k), "sent-open-from-remote", "PeerUpData.sent_open is filled from %s: the Sent OPEN of a Peer Up must carry the local AS number, hold time and BGP identifier" % remote, fv.loc(bi))
            elif local_ok:
                r.ok("%s: sent_open built from local_asn / local_router_id" % short(root_name(prog, k)))
            else:
                r.fail(root_name(prog, k), "sent-open-source", "PeerUpData.sent_open does not read local_asn and the local router id (reads %s)" % sorted(txt_f)[:8], fv.loc(bi))
    r.floor("PeerUpData constructions with a Sent OPEN", n, 1)


# ------------------------------------------------------------------------------------------ R19.7
def _whole_list_refs(e, field):
    """Mentions of `<x>.<field>` in e that are not reached through an iterator item (Iterator::next)."""
    out = []
    def go(x):
        if not isinstance(x, tuple) or not x:
            return
        if x[0] == "call" and isinstance(x[1], str) and x[1].endswith("Iterator::next"):
            return
        if x[0] == "field" and len(x) >= 3 and x[2] == field:
            out.append(x)
        for y in x[1:]:
            if isinstance(y, tuple):
                if y and isinstance(y[0], str):
                    go(y)
                else:
                    for z in y:
                        go(z)
    go(e)
    return out


def check_snapshot_entries(prog, r):
    """The BMP Adj-RIB-In snapshot is keyed per (family, prefix) and a withdrawal removes keys; the flush replays each stored
    value's own prefix list as one Route Monitoring UPDATE.  So the value stored under a key may name that key's prefix only:
    a value that copies the whole incoming prefix list keeps announcing siblings that were withdrawn since (and replays a
    k-prefix UPDATE k times).  Armed only while the flush reads the prefixes from the stored value."""
    ak = prog.one(r"rustybgpd::bmp::apply_snapshot")
    fk = prog.one(r"rustybgpd::bmp::flush_peer_snapshot")
    av, fl = view(prog, ak), view(prog, fk)
    r.analysed(av.name)
    r.analysed(fl.name)
    # does the replay read the stored value's list?
    from_value = None
    FR = Renderer(fl, depth=12, through_names=True)
    for bi, si, s_ in fl.aggregates(re.compile(r".*bgp::Update$"), "Reach"):
        rv = s_["rv"]
        for nme, f in zip(rv.get("fn") or [], rv["fields"]):
            if nme == "entries":
                e = FR.operand(f, 12)
                from_value = bool([x for x in walk(e) if isinstance(x, tuple) and x and x[0] == "field" and len(x) >= 3 and x[2] == "nlris"])
    if from_value is None:
        r.unanalysable("flush_peer_snapshot: no Update::Reach built from the snapshot", fl.loc())
        return
    if not from_value:
        r.ok("flush_peer_snapshot replays the key's prefix, not the stored list")
        return
    n = 0
    AR = Renderer(av, depth=12, through_names=True)
    ins_blocks = {bi for bi, t in av.calls(re.compile(r".*HashMap::<.*>::insert$"))}
    for bi, si, s_ in av.aggregates(re.compile(r".*AdjRibInChange$")):
        rv = s_["rv"]
        for nme, f in zip(rv.get("fn") or [], rv["fields"]):
            if nme != "nlris":
                continue
            n += 1
            e = AR.operand(f, 12)
            whole = _whole_list_refs(e, "nlris")
            if whole:
                r.fail(av.name, "snapshot-entry-whole-list", "the value stored under one (family, prefix) key takes its prefix list from %s, i.e. every prefix of the incoming UPDATE: after a "
                       "partial withdrawal the surviving keys still replay the withdrawn prefixes in the snapshot's Route Monitoring messages" % show(whole[0], 80), av.loc(bi))
            else:
                r.ok("apply_snapshot: the stored value's prefix list does not copy the incoming list (per-key prefix)")
    r.floor("snapshot values built in apply_snapshot", n, 1)
