"""C18 — a subscriber reconstructs the exact Adj-RIB-In (structural clauses)."""
import re

from ..cfg import Renderer, walk, show, flat_guards, branches
from ..facts import callee_names, short
from ..util import view, crate_fns, root_name, expr_calls, expr_fields, expr_vars, loops

EXPLANATION = (
    "Static lock-scope and ordering rules over daemon/src/table_manager.rs and daemon/src/bmp.rs (MIR): R18.1 every load of "
    "TableManager.subscribers whose value reaches TableShard::notify_adj_rib_in(_post) must execute while a guard from "
    "shards[i].lock() is live (dominated by the lock call, inside the per-shard loop) — the ordering subscribe() relies on; "
    "loads feeding only Loc-RIB events are listed as advisory; R18.2 subscribe registers the sender (rcu) before the first "
    "shard lock and sends EndOfSnapshot only after the shard loop; the snapshot walk runs under the shard lock; R18.3 an "
    "Adj-RIB-In announcement emitted before Table::insert is compensated by a withdrawal on every path where the table ends "
    "up not holding the route; R18.4 BMP PeerDown messages are sent only through send_peer_down, whose send is control-"
    "dependent on track_peer_down(..) == true. Decides the mechanism's structure, not linearizability over all schedules.")
ASSUMPTIONS = [
    "ArcSwap::rcu publishes before returning; ArcSwap::load after a Mutex acquire observes every rcu that completed before the matching release (std/arc_swap memory ordering)",
]

NOTIFY = re.compile(r"rustybgpd::table_manager::TableShard::notify_adj_rib_in(_post)?")
LOCK = re.compile(r".*Mutex::<T>::lock")
LOAD = re.compile(r"arc_swap::.*::load(_full)?")


def _feeds_adj_rib_in(prog, key):
    tgt = set(prog.find(r"rustybgpd::table_manager::TableShard::notify_adj_rib_in(_post)?"))
    return bool(prog.reachable([key]) & tgt)


def check_fold(prog, r):
    """bmp::apply_snapshot folds snapshot entries and the live events queued behind them; a later announcement must
    overwrite the earlier one (HashMap::insert), a withdrawal must remove the key.  `entry().or_insert*` would keep the
    first event, i.e. state the RIB no longer holds."""
    k = prog.find(r"rustybgpd::bmp::apply_snapshot")
    if len(k) != 1:
        r.unanalysable("bmp::apply_snapshot anchor matched %d" % len(k))
        return
    fv = view(prog, k[0])
    r.analysed(fv.name)
    ins = [b for b, t in fv.calls(re.compile(r".*HashMap::<K, V, S(, A)?>::insert$")) if "AdjRibInChange" in t["f"].get("ga", "")]
    keep_first = [b for b, t in fv.calls(re.compile(r".*(Entry|VacantEntry)::<.*>::(or_insert|or_insert_with|or_insert_with_key)$")) if "AdjRibInChange" in t["f"].get("ga", "") and "HashMap" not in t["f"].get("ga", "").split(",")[-1]]
    rem = [b for b, t in fv.calls(re.compile(r".*HashMap::<K, V, S(, A)?>::remove$")) if "AdjRibInChange" in t["f"].get("ga", "")]
    # the per-peer map itself is created with entry().or_default(): that is about the outer map, not the routes
    route_keep_first = []
    for b, t in fv.calls(re.compile(r".*Entry::<.*>::(or_insert|or_insert_with)$")):
        ga = t["f"].get("ga", "")
        if "PathNlri" in ga.split("AdjRibInChange")[0]:
            route_keep_first.append(b)
    if route_keep_first:
        r.fail(fv.name, "fold-keeps-first", "apply_snapshot stores a route with entry().or_insert*: when the same route is announced again before the fold is flushed the earlier attributes win, "
               "and the subscriber is sent state the RIB no longer holds", fv.loc(route_keep_first[0]))
    elif ins and rem:
        r.ok("apply_snapshot: announcements overwrite (HashMap::insert), withdrawals remove")
    else:
        r.fail(fv.name, "fold-shape", "apply_snapshot: %d overwriting insert(s), %d removal(s) of route entries" % (len(ins), len(rem)), fv.loc())


def run(prog, rep, tier):
    r1 = rep.rule("R18.1", "subscriber-list loads that feed Adj-RIB-In events happen inside the shard critical section")
    n_feed = 0
    tm_methods = [k for k in crate_fns(prog, "rustybgpd") if prog.ix[k]["name"].startswith("rustybgpd::table_manager::TableManager::") and prog.ix[k]["kind"] == "method"]
    for k in tm_methods:
        fv = view(prog, k)
        loads = []
        for bi, t in fv.calls(LOAD):
            e = Renderer(fv, depth=6).operand(t["args"][0], 6)
            if "subscribers" in expr_fields(e):
                loads.append((bi, t))
        if not loads:
            continue
        locks = []
        for b, t in fv.calls(LOCK):
            e = Renderer(fv, depth=10, through_names=True).operand(t["args"][0], 10)
            if "shards" in expr_fields(e) or "shard" in expr_vars(e):
                locks.append(b)
        for bi, t in loads:
            dest = t["dest"]["l"]
            # which calls take the loaded value (by reference) and do they reach Adj-RIB-In notifications?
            feeds = []
            for cb, ct in fv.calls():
                if cb == bi:
                    continue
                for a in ct["args"]:
                    ee = Renderer(fv, depth=16, through_names=True).operand(a, 16)
                    if _mentions_local(fv, ee, dest, bi):
                        for nm in callee_names(ct):
                            hk = prog.by_name.get(nm, [None])[0]
                            if hk and (NOTIFY.fullmatch(nm) or _feeds_adj_rib_in(prog, hk)):
                                feeds.append(nm)
            where = short(fv.name)
            r1.analysed(fv.name)
            if not feeds:
                r1.note("advisory: %s loads subscribers%s; the value feeds Loc-RIB events only" % (where, "" if any(fv.dominates(l, bi) for l in locks) else " before the shard lock"))
                continue
            n_feed += 1
            inside = any(fv.dominates(l, bi) for l in locks)
            if inside:
                r1.ok("%s: subscribers loaded under the shard lock (feeds %s)" % (where, ", ".join(sorted({short(f) for f in feeds}))))
            else:
                r1.fail(fv.name, "load-outside-lock",
                        "subscribers is loaded before any shard lock is taken but the value is passed to %s, which emits Adj-RIB-In events: a subscriber that registers and snapshots "
                        "the shard in between receives neither the snapshot entry nor the live event" % ", ".join(sorted({short(f) for f in feeds})), fv.loc(bi))
    r1.floor("subscriber loads feeding Adj-RIB-In events", n_feed, 3)

    r2 = rep.rule("R18.2", "subscribe: register, then snapshot each shard under its lock, then EndOfSnapshot")
    sk = prog.one(r"rustybgpd::table_manager::TableManager::subscribe")
    fv = view(prog, sk)
    r2.analysed(fv.name)
    rcus = [b for b, t in fv.calls(re.compile(r"arc_swap::.*::rcu"))]
    locks = [b for b, t in fv.calls(LOCK)]
    if rcus and locks and all(fv.dominates(rcus[0], l) for l in locks):
        r2.ok("subscribe: rcu(register) dominates every shard lock")
    else:
        r2.fail(fv.name, "snapshot-before-register", "a shard is locked/snapshotted before the subscriber is registered: updates between snapshot and registration are lost", fv.loc())
    # the copy-on-write list is only ever changed by an atomic read-modify-write (rcu): a load followed by a store loses a
    # registration that lands in between, and that subscriber then misses every live event
    n_rcu = 0
    for k in crate_fns(prog, "rustybgpd"):
        nm = prog.ix[k]["name"]
        if "::tests::" in nm:
            continue
        cnames = [c["f"].get("name", "") for c in prog.ix[k]["calls"]]
        if not any(re.match(r"arc_swap::.*::(rcu|store|swap|compare_and_swap)$", c) for c in cnames):
            continue
        fv2 = view(prog, k)
        for b, t in fv2.calls(re.compile(r"arc_swap::.*::(rcu|store|swap|compare_and_swap)$")):
            e = Renderer(fv2, depth=8, through_names=True).operand(t["args"][0], 8)
            if "subscribers" not in expr_fields(e):
                continue
            meth = t["f"]["name"].split("::")[-1]
            if meth == "rcu":
                n_rcu += 1
                r2.ok("%s: subscribers changed by rcu" % short(root_name(prog, k)))
            else:
                r2.fail(root_name(prog, k), "subscribers-non-atomic-update:" + meth,
                        "the subscriber list is overwritten with ArcSwap::%s instead of an rcu read-modify-write: a registration (or removal) made by another thread between "
                        "the load and the store is lost, so a registered subscriber silently stops receiving live events" % meth, fv2.loc(b))
    r2.floor("rcu updates of the subscriber list", n_rcu, 2)
    sends = [(b, t) for b, t in fv.calls(re.compile(r".*UnboundedSender::<T>::send"))]
    ls = loops(fv)
    shard_loop = None
    for h, body, backs in ls:
        if any(l in body for l in locks) and (shard_loop is None or len(body) > len(shard_loop[1])):
            shard_loop = (h, body)
    eos = []
    for b, t in sends:
        e = Renderer(fv, depth=8).operand(t["args"][1], 8)
        if e[0] == "agg" and e[2] == "EndOfSnapshot":
            eos.append(b)
    if shard_loop and eos and all(b not in shard_loop[1] and fv.dominates(shard_loop[0], b) for b in eos):
        r2.ok("subscribe: EndOfSnapshot sent after the shard loop")
    else:
        r2.fail(fv.name, "end-of-snapshot-order", "EndOfSnapshot is not sent strictly after the shard loop", fv.loc())
    snap = [b for b, t in sends if b not in eos]
    # the critical section ends where the guard is released: a drop of the MutexGuard local (scope end) or mem::drop(guard)
    rel = []
    for bi in sorted(fv.live):
        t = fv.blocks[bi]["t"]
        if t["t"] == "drop" and "MutexGuard" in fv.f["locals"][t["p"]["l"]]:
            rel.append(bi)
        if t["t"] == "call" and (t["f"].get("name") or "").endswith("mem::drop"):
            for a in t["args"]:
                pl = a.get("m") or a.get("c")
                if pl and "MutexGuard" in fv.f["locals"][pl["l"]]:
                    rel.append(bi)
    if not rel:
        r2.unanalysable("subscribe: no release of the shard guard found", fv.loc())
    after_release = [b for b in snap if any(b in fv.reach_after(d, removed_blocks=locks) for d in rel)]
    if snap and all(any(fv.dominates(l, b) for l in locks) for b in snap) and not after_release:
        r2.ok("subscribe: %d snapshot send site(s) all inside the shard critical section (after lock, before the guard is released)" % len(snap))
    elif after_release:
        r2.fail(fv.name, "snapshot-sent-after-unlock", "snapshot events are queued after the shard guard was released: a session that updates a prefix of that shard in between has its live event "
                "queued before the stale snapshot entry, so the last event the subscriber sees for that prefix is not the current state", fv.loc(after_release[0]))
    else:
        r2.fail(fv.name, "snapshot-outside-lock", "snapshot events are produced outside the shard critical section", fv.loc())

    r3 = rep.rule("R18.3", "announcement emitted before Table::insert is compensated when the table does not keep the route")
    ik = prog.one(r"rustybgpd::table_manager::TableManager::insert_route")
    iv = view(prog, ik)
    r3.analysed(iv.name)
    ins = [b for b, t in iv.calls(re.compile(r"rustybgp_table::Table::insert"))]
    if len(ins) != 1:
        r3.unanalysable("insert_route: %d calls of Table::insert" % len(ins), iv.loc())
    else:
        ib = ins[0]
        rend = Renderer(iv, depth=8)
        ann = {}
        wd_after = {}
        for b, t in iv.calls(NOTIFY):
            kind = "post" if t["f"]["name"].endswith("_post") else "pre"
            e = rend.operand(t["args"][5], 8)
            is_wd = e[0] == "agg" and e[2] == "None"
            if not is_wd and ib in iv.reach(b):
                ann.setdefault(kind, []).append(b)
            if is_wd and b in iv.reach_after(ib):
                gs = flat_guards(iv, b)
                if any(g[0] == "discr" and g[2] and g[2].endswith("InsertResult") and l == {"PrefixLimitExceeded"} for g, l, h in gs):
                    wd_after.setdefault(kind, []).append(b)
        # is there a path on which insert refuses the route?
        refused = [b for b in iv.live if any(g[0] == "discr" and g[2] and g[2].endswith("InsertResult") and l == {"PrefixLimitExceeded"} for g, l, h in flat_guards(iv, b))]
        if not refused:
            r3.ok("insert_route: no refusing outcome of Table::insert is distinguished")
        for kind in ("pre", "post"):
            if kind in ann and refused:
                if kind in wd_after:
                    r3.ok("insert_route: %s-policy announcement compensated on PrefixLimitExceeded" % kind)
                else:
                    r3.fail(iv.name, "phantom-announce:" + kind,
                            "the %s-policy Adj-RIB-In announcement is emitted before Table::insert, and on InsertResult::PrefixLimitExceeded the function returns without a compensating "
                            "withdrawal: subscribers keep a route the RIB never stored" % kind, iv.loc(ann[kind][0]))
            elif kind not in ann:
                r3.ok("insert_route: no %s-policy announcement precedes Table::insert" % kind)

    r7 = rep.rule("R18.7", "the snapshot iterators select the same entries the live stream reports: every stored path pre-policy, exactly the non-filtered ones post-policy")
    check_snapshot_selection(prog, r7)
    r6 = rep.rule("R18.6", "both outcomes of the import policy are reported to post-policy Adj-RIB-In subscribers (announcement if accepted, withdrawal if rejected)")
    check_post_policy_events(prog, r6)

    r5 = rep.rule("R18.5", "the subscriber-side fold keeps the last event per (peer, family, prefix, path id)")
    check_fold(prog, r5)
    r4 = rep.rule("R18.4", "BMP PeerDown is sent only for peers whose PeerUp was sent")
    n = 0
    spd = prog.one(r"rustybgpd::bmp::send_peer_down")
    for k in crate_fns(prog, "rustybgpd"):
        if not prog.ix[k]["name"].startswith("rustybgpd::bmp::"):
            continue
        if not any(a.endswith("bmp::Message::PeerDown") for a in prog.ix[k].get("aggs", [])):
            continue
        fv = view(prog, k)
        for bi, si, s in fv.aggregates(re.compile(r"rustybgp_packet::bmp::Message"), "PeerDown"):
            n += 1
            r4.analysed(root_name(prog, k))
            dest = s["p"]
            # the value must flow into send_peer_down and nowhere into a Sink::send directly
            into_spd = any(_mentions_local(fv, Renderer(fv, depth=16, through_names=True).operand(a, 16), dest, bi) for b2, t2 in fv.calls(re.compile(r"rustybgpd::bmp::send_peer_down")) for a in t2["args"])
            direct = any(_mentions_local(fv, Renderer(fv, depth=16, through_names=True).operand(a, 16), dest, bi) for b2, t2 in fv.calls(re.compile(r".*SinkExt::send")) for a in t2["args"])
            if into_spd and not direct:
                r4.ok("%s: PeerDown goes through send_peer_down" % short(root_name(prog, k)))
            else:
                r4.fail(root_name(prog, k), "peerdown-direct", "a PeerDown message is sent without the PeerUp tracking check", fv.loc(bi))
    r4.floor("PeerDown constructions in daemon/src/bmp.rs", n, 1)
    sv = view(prog, prog.body_key(spd))
    r4.analysed(prog.name(spd))
    snd = [b for b, t in sv.calls(re.compile(r".*SinkExt::send"))]
    sbrs = branches(sv, Renderer(sv, depth=12, through_names=True))      # a hoisted `let was_up = track_peer_down(..)` is looked through
    ok = snd and all(any(g[0] == "call" and g[1].endswith("bmp::track_peer_down") and l == {"true"} for g, l, h in flat_guards(sv, b, sbrs)) for b in snd)
    if ok:
        r4.ok("send_peer_down: send only when track_peer_down(..) returned true")
    else:
        r4.fail(prog.name(spd), "peerdown-untracked", "send_peer_down sends without track_peer_down(..) == true", sv.loc())
    tv = view(prog, prog.one(r"rustybgpd::bmp::track_peer_down"))
    if any(any(re.search(r"HashSet::<[^>]*>::remove$", n_) for n_ in callee_names(t)) for b, t in tv.calls()):
        r4.ok("track_peer_down: true iff the address was recorded by track_peer_up (HashSet::remove)")
    else:
        r4.fail(tv.name, "track-down-def", "track_peer_down is not 'remove from the PeerUp set'", tv.loc())


def _mentions_local(fv, e, local, def_block):
    """Expression mentions local `local` (by debug name, tmp id, or through the call that defines it).
    `local` may also be a place dict (coroutine-saved variable): then its last field name is matched."""
    if isinstance(local, dict):
        from ..util import last_field
        nm = last_field(local) if local.get("p") else fv.local_name.get(local["l"])
        if local.get("p"):
            return any(isinstance(x, tuple) and x and ((x[0] == "field" and x[2] == nm) or (x[0] == "var" and x[1] == nm)) for x in walk(e))
        local = local["l"]
    name = fv.local_name.get(local)
    for x in walk(e):
        if not isinstance(x, tuple) or not x:
            continue
        if x[0] == "tmp" and x[1] == local:
            return True
        if name and x[0] == "var" and x[1] == name:
            return True
        if x[0] == "call" and x[3] == def_block:
            return True
    return False


# ---------------------------------------------------------------------------------------------- R18.6
def check_post_policy_events(prog, r):
    """A route's post-policy state changes on either outcome of apply_import: accepted -> the post-policy view holds the new
    attributes, rejected -> it holds nothing for that (peer, prefix, path id) any more (an earlier accepted version must go).
    Every function that evaluates the import policy for a route it stores must therefore call notify_adj_rib_in_post on both
    outcomes, with Some(attr) when accepted and None when rejected."""
    n = 0
    for k in crate_fns(prog, "rustybgpd"):
        nm = prog.ix[k]["name"]
        if not nm.startswith("rustybgpd::table_manager::") or "::tests::" in nm:
            continue
        fv = view(prog, k)
        ai = [b for b, t in fv.calls(re.compile(r".*::apply_import$"))]
        if not ai:
            continue
        if nm.endswith("::apply_import"):
            continue
        n += 1
        r.analysed(nm)
        rend = Renderer(fv, depth=8)
        posts = []
        for b, t in fv.calls(re.compile(r".*::notify_adj_rib_in_post$")):
            if not any(b in fv.reach_after(a) for a in ai):
                continue
            e = rend.operand(t["args"][5], 8)
            kind = e[2] if e[0] == "agg" and e[2] in ("Some", "None") else "?"
            gs = flat_guards(fv, b)
            fl = [l for g, l, h in gs if g[0] == "var" and g[1] == "filtered"]
            other = [g for g, l, h in gs if g[0] == "discr" and any(c.endswith("Table::insert") for c in expr_calls(g))]
            if other:
                continue        # compensation after a refused insert: not the policy outcome report
            posts.append((b, kind, fl))
        for v, want in (("true", "None"), ("false", "Some")):
            hit = [b for b, kind, fl in posts if all(v in l for l in fl) and kind in (want, "?")]
            wrong = [b for b, kind, fl in posts if all(v in l for l in fl) and kind not in (want, "?")]
            what = "rejected by the import policy" if v == "true" else "accepted by the import policy"
            if hit:
                r.ok("%s: route %s => post-policy %s" % (short(nm), what, "withdrawal" if want == "None" else "announcement"))
            elif wrong:
                r.fail(nm, "post-event-wrong-kind:filtered=" + v, "a route %s is reported to post-policy subscribers as %s" % (what, "an announcement" if want == "None" else "a withdrawal"), fv.loc(wrong[0]))
            else:
                r.fail(nm, "post-event-missing:filtered=" + v,
                       "a route %s is stored without any post-policy Adj-RIB-In event: a subscriber that saw the earlier version of this (peer, prefix, path id) keeps it "
                       "although the post-policy view no longer holds it" % what, fv.loc(ai[0]))
    r.floor("functions evaluating the import policy for a stored route", n, 2)


_SELECT = re.compile(r".*Iterator::(filter|filter_map|take_while|skip_while|skip|take|step_by|map_while)$")


def _entry_selectors(prog, key, depth=2, seen=None):
    """Closures (and element-dropping adaptors) applied to an iterator over RibEntry in `key`, its closures and the rustybgp_table
    functions they call (an `impl Iterator` helper such as Destination::unfiltered_iter)."""
    from .c16 import _place_reads
    seen = seen if seen is not None else set()
    out = []
    for kk in prog.with_closures(key):
        if kk in seen:
            continue
        seen.add(kk)
        fv = view(prog, kk)
        rend = Renderer(fv, depth=6)
        for bi, t in fv.calls():
            nm = t["f"].get("name") or ""
            ga = t["f"].get("ga", "")
            if _SELECT.match(nm) and "RibEntry" in ga:
                cl = [x[2] for a in t["args"][1:] for x in walk(rend.operand(a, 6)) if isinstance(x, tuple) and x and x[0] == "agg" and str(x[1]).startswith("closure")]
                ck = [k2 for c in cl for k2 in prog.ix if k2.endswith(str(c)) or str(c).endswith(k2)]
                out.append((nm.split("::")[-1], ck[0] if ck else None, fv, bi))
            elif depth > 0 and nm.startswith("rustybgp_table::"):
                for hk in prog.by_name.get(nm, []):
                    out += _entry_selectors(prog, hk, depth - 1, seen)
    return out


def check_snapshot_selection(prog, r):
    """subscribe(snapshot) replays Table::iter_reach (pre-policy) and Table::iter_reach_post (post-policy).  The live stream reports
    every stored path pre-policy, and post-policy exactly those the import policy accepted (R18.6), whatever else is known about
    the path (stale, next hop unreachable, ..).  The snapshot must select by the same predicate: a path the snapshot leaves out
    but the live stream had announced is missing for every later subscriber."""
    from .. import predicates
    from .c15 import _entry_atom, _table_of
    for meth, want_desc in (("iter_reach", "every entry"), ("iter_reach_post", "not is_filtered")):
        k = prog.one(r"rustybgp_table::Table::%s$" % meth)
        r.analysed(prog.name(k))
        sels = _entry_selectors(prog, k)
        fv0 = view(prog, k)
        tabs, uni_all, bad_shape = [], {"is_filtered"}, None
        rows_ = []
        for kind, ck, fv, bi in sels:
            if kind not in ("filter", "filter_map") or ck is None:      # filter_map: the entry is kept when the closure yields Some
                bad_shape = "an element-dropping adaptor `%s` is applied to the path list" % kind
                break
            rws, cfv = predicates.rows(prog, ck, _entry_atom)
            if rws is None or any(us or res is None for f_, res, us in rws):
                bad_shape = "a filter over the path list has conditions that are not flags of the entry"
                break
            rows_.append(rws)
            uni_all |= {a for f_, res, us in rws for a in f_}
        if bad_shape:
            r.unanalysable("Table::%s: %s" % (meth, bad_shape), fv0.loc())
            continue
        uni = sorted(uni_all)
        import itertools
        bad = None
        tabs = [_table_of(rws, uni) for rws in rows_]
        for vals in itertools.product([False, True], repeat=len(uni)):
            v = dict(zip(uni, vals))
            got = all(t[vals] for t in tabs) if all(t[vals] is not None for t in tabs) else None
            want = True if meth == "iter_reach" else not v["is_filtered"]
            if got is None or got != want:
                bad = (v, got)
                break
        if bad is None:
            r.ok("Table::%s selects %s (%d filter(s) over the path list, atoms %s)" % (meth, want_desc, len(rows_), ",".join(uni)))
        else:
            v, got = bad
            r.fail(prog.name(k), "snapshot-selection:" + meth, "a stored path with %s is %s the %s snapshot, but the live stream %s it: a subscriber that arrives later never learns of it (and two "
                   "subscribers disagree depending on when they subscribed)" % (", ".join("%s=%s" % (a, v[a]) for a in uni), "left out of" if not got else "included in",
                                                                                  "pre-policy" if meth == "iter_reach" else "post-policy", "announces" if not got else "does not announce"), fv0.loc())
