"""C01 — neighbour view converges to export(Loc-RIB); no withdrawal lost (structural clauses)."""
import re

from ..cfg import Renderer, walk, show, flat_guards, branches
from ..facts import callee_names, short
from ..sig import fn_tokens
from ..util import view, crate_fns, root_name, expr_calls, expr_fields, expr_vars, loops, last_field, emission_blocks, field_writes

EXPLANATION = (
    "Static rules over daemon/src/event/export.rs, peer_tx.rs, event/mod.rs and table_manager.rs (MIR): R01.1 the initial dump "
    "and the registration of the per-peer change channel happen in one shard critical section (register_peer: lock, callback, "
    "insert, no unlock in between) and on_established takes its dump only inside that callback; R01.2 in process_nlri_change "
    "every mark_withdrawn is followed by sink.unreach and every sink.unreach is preceded by mark_withdrawn (likewise mark_sent / "
    "sink.reach): a withdrawal recorded but not emitted is a lost withdrawal; R01.3 the non-add-path arm and the add-path arm "
    "apply the same filters and rewrites (same callee set); R01.4 destination ids are recycled, so the pending-update maps keyed "
    "by (dest id, path id) must compare the stored NLRI before cancelling or overwriting an entry; R01.5 process_nlri_change "
    "truncates to the add-path window after its per-peer filters, so callers must hand it untruncated path lists (or truncate "
    "to 1 only for non-add-path sessions). Decides these mechanisms, not equality of the neighbour's view with a fresh dump "
    "over all interleavings.")
ASSUMPTIONS = ["IdAllocator::alloc returns the lowest free id (ids are reused as soon as a destination disappears)"]

PNC = r"rustybgpd::event::export::process_nlri_change"


def run(prog, rep, tier):
    r1 = rep.rule("R01.1", "initial dump and channel registration are atomic per shard")
    check_register(prog, r1)
    r2 = rep.rule("R01.2", "export-map marks and sink emissions are paired")
    pk = prog.one(PNC)
    pv = view(prog, pk)
    check_pairing(prog, pv, r2)
    r3 = rep.rule("R01.3", "non-add-path and add-path arms apply the same filters and rewrites")
    check_arms(prog, pv, r3)
    r4 = rep.rule("R01.4", "pending-update maps keyed by recycled ids compare the NLRI before cancelling/overwriting")
    check_pending(prog, r4)
    r5 = rep.rule("R01.5", "process_nlri_change receives untruncated ranked lists for add-path sessions")
    check_untruncated(prog, r5)
    r6 = rep.rule("R01.6", "the export map that records what was sent is the one the initial dump wrote into; destination ids (its keys) are unique among live prefixes")
    check_export_map_lifetime(prog, r6)
    from . import c06 as _c06
    _c06.check_ids(prog, r6)
    # a neighbour is told about a change only if the change says the best path moved: the table-side rules that decide that flag
    # are necessary conditions of this property as well (shared with R06.5 / R06.7)
    r7 = rep.rule("R01.7", "a change of the best path is reported as one: best-path reads use the full eligibility predicate before and after a mutation (shared with R06.5), and a change is emitted whenever the visible set moved (R06.7)")
    _c06.check_best_predicate(prog, r7)
    _c06.check_emission_guard(prog, r7)
    r8 = rep.rule("R01.8", "once the best path changed, the non-add-path arm either announces it or consults what was sent (and withdraws): no other way out")
    check_plain_arm_exits(prog, r8)


def check_register(prog, r):
    fv = view(prog, prog.one(r"rustybgpd::table_manager::TableManager::register_peer"))
    r.analysed(fv.name)
    locks = [b for b, t in fv.calls(re.compile(r".*Mutex::<T>::lock"))]
    cbs = [b for b, t in fv.calls(re.compile(r".*FnMut::call_mut|.*FnOnce::call_once|.*Fn::call")) if "on_shard" in show(Renderer(fv, depth=6).operand(t["args"][0], 6), 80) or True]
    cbs = [b for b in cbs if "Table" in fv.blocks[b]["t"]["f"].get("ga", "")]
    ins = []
    for b, t in fv.calls(re.compile(r".*HashMap::<K, V, S(, A)?>::insert")):
        e = Renderer(fv, depth=10, through_names=True).operand(t["args"][0], 10)
        if "peer_event_tx" in expr_fields(e):
            ins.append(b)
    if len(locks) != 1 or len(cbs) != 1 or len(ins) != 1:
        r.unanalysable("register_peer: lock x%d, dump callback x%d, peer_event_tx.insert x%d" % (len(locks), len(cbs), len(ins)), fv.loc())
        return
    lb, cb, ib = locks[0], cbs[0], ins[0]
    if fv.dominates(lb, cb) and fv.dominates(cb, ib):
        r.ok("register_peer: lock -> dump callback -> peer_event_tx.insert")
    else:
        r.fail(fv.name, "order", "the dump callback and the channel registration are not ordered lock -> dump -> insert", fv.loc(lb))
    # the guard must not be dropped between callback and insert
    guard_local = None
    for b, t in fv.calls(re.compile(r".*Result::<T, E>::unwrap")):
        if fv.dominates(lb, b) and "MutexGuard" in fv.f["locals"][t["dest"]["l"]]:
            guard_local = t["dest"]["l"]
    drops = [b for b in fv.live if fv.blocks[b]["t"]["t"] == "drop" and fv.blocks[b]["t"]["p"]["l"] == guard_local and not fv.blocks[b]["t"]["p"].get("p")]
    between = [d for d in drops if d in fv.reach_after(cb, [ib])]
    if guard_local is None:
        r.unanalysable("register_peer: MutexGuard local not found", fv.loc())
    elif between:
        r.fail(fv.name, "unlock-between", "the shard guard can be released between the dump and the channel registration: changes in the gap are neither dumped nor delivered", fv.loc(between[0]))
    else:
        r.ok("register_peer: the shard guard is live from the dump to the registration")
    # on_established: dump only inside the register_peer closure
    oe = prog.one(r"rustybgpd::event::PeerSession::on_established")
    body = prog.body_key(oe)
    r.analysed(prog.name(oe))
    direct = []
    inside = 0
    for kk in prog.with_closures(oe):
        kv = view(prog, kk)
        for b, t in kv.calls(re.compile(r".*collect_loc_rib_paths(_limited)?|rustybgp_table::Table::collect_loc_rib_paths.*")):
            if prog.ix[kk]["kind"] == "closure" and _closure_passed_to(prog, kk, r"rustybgpd::table_manager::TableManager::register_peer"):
                inside += 1
            else:
                direct.append((kv, b))
    if inside >= 1 and not direct:
        r.ok("on_established: the initial dump is taken only inside the register_peer callback")
    else:
        r.fail(prog.name(oe), "dump-outside-registration", "on_established collects the Loc-RIB outside the register_peer critical section", direct[0][0].loc(direct[0][1]) if direct else "daemon/src/event/mod.rs")


def _closure_passed_to(prog, ck, callee_rx):
    parent = prog.ix[ck].get("parent")
    if not parent or parent not in prog.ix:
        return False
    pv = view(prog, parent)
    rx = re.compile(callee_rx)
    for b, t in pv.calls(rx):
        for a in t["args"]:
            p = a.get("m") or a.get("c")
            if p and not p.get("p"):
                for bi, si, s in pv.defs().get(p["l"], []):
                    if si != "t" and s["rv"]["r"] == "agg" and s["rv"].get("k") == "closure" and s["rv"]["def"] == ck:
                        return True
    return False


def check_pairing(prog, fv, r):
    r.analysed(fv.name)
    pairs = (("mark_withdrawn", "unreach"), ("mark_sent", "reach"))
    for mark, emit in pairs:
        marks = fv.calls(re.compile(r"rustybgpd::event::export::ExportMap::" + mark))
        emits = fv.calls(re.compile(r"rustybgpd::event::export::NlriSink::" + emit))
        if not marks or not emits:
            r.unanalysable("process_nlri_change: %s x%d, sink.%s x%d" % (mark, len(marks), emit, len(emits)), fv.loc())
            continue
        eb = [b for b, t in emits]
        mb = [b for b, t in marks]
        for b, t in marks:
            if fv.must_pass(b, eb, fv.returns() + _loop_heads_after(fv, b)):
                # operands agree (dest id, path id)
                r.ok("%s @%d is always followed by sink.%s" % (mark, fv.line(b), emit))
            else:
                r.fail(fv.name, "%s-without-%s@%s" % (mark, emit, _arm(fv, b)), "%s is recorded in the export map but sink.%s is not called on every path after it: the neighbour is never told" % (mark, emit), fv.loc(b))
        for b, t in emits:
            if fv.dominated_by_any(b, mb):
                r.ok("sink.%s @%d is always preceded by %s" % (emit, fv.line(b), mark))
            else:
                r.fail(fv.name, "%s-without-%s@%s" % (emit, mark, _arm(fv, b)), "sink.%s is called without recording %s in the export map: later diffs are computed against the wrong state" % (emit, mark), fv.loc(b))
    r.floor("mark/emit call sites", sum(len(fv.calls(re.compile(r"rustybgpd::event::export::ExportMap::" + m))) for m, _ in pairs), 4)


def _loop_heads_after(fv, b):
    # a loop iteration boundary also ends "this NLRI's handling"
    out = []
    for h, body, backs in loops(fv):
        if b in body:
            out.append(h)
    return out


def _arm(fv, b):
    for g, l, h in flat_guards(fv, b):
        if g[0] == "bin" and g[1] in ("Eq", "Ne") and "effective_max" in expr_vars(g):
            one = (g[1] == "Eq") == (l == {"true"})
            return "plain" if one else "addpath"
    return "?"


WANT = ["ibgp_split_horizon_suppress", "rs_isolation_suppress", "RtcFilter::allows", "pre_policy_defaults", "apply_export", "rr_reflect_attrs",
        "is_ibgp_learned", "with_llgr_stale_community", "export_attrs", "Source::is_llgr_stale", "Source::is_local"]


def arm_tokens(prog, fv):
    """Tokens (local callees, field reads) per arm of `effective_max == 1`."""
    arms = {"plain": set(), "addpath": set()}
    for b in sorted(fv.live):
        a = _arm(fv, b)
        if a not in arms:
            continue
        t = fv.blocks[b]["t"]
        if t["t"] == "call":
            for n in callee_names(t):
                arms[a].add("call:" + n)
        for s in fv.blocks[b]["s"]:
            rv = s.get("rv")
            if rv and rv["r"] == "agg" and rv.get("k") == "closure":
                arms[a] |= fn_tokens(prog, rv["def"], depth=1)
    return arms


def check_arms(prog, fv, r):
    arms = arm_tokens(prog, fv)
    for w in WANT:
        inp = any(t.endswith(w) for t in arms["plain"] if t.startswith("call:"))
        ina = any(t.endswith(w) for t in arms["addpath"] if t.startswith("call:"))
        if inp and ina:
            r.ok("both arms use %s" % w)
        elif inp or ina:
            r.fail(fv.name, "arm-disagreement:" + w, "%s is applied in the %s arm only: the same route is exported differently to add-path and non-add-path sessions" % (w, "non-add-path" if inp else "add-path"), fv.loc())
        else:
            r.fail(fv.name, "missing:" + w, "neither arm of process_nlri_change applies %s" % w, fv.loc())
    # echo test: a comparison involving source.remote_addr in both arms
    for a in ("plain", "addpath"):
        if "field:remote_addr" in arms[a]:
            r.ok("%s arm tests the path's source address against the neighbour (echo)" % a)
        else:
            r.fail(fv.name, "no-echo-test:" + a, "the %s arm does not exclude paths learned from the neighbour itself" % a, fv.loc())


def check_drain_order(prog, r):
    """drain_messages must put every withdrawal on the wire before any announcement of the same flush: the maps are
    keyed by recycled ids, so one prefix can be pending as a withdrawal (old id) and as an announcement (new id)."""
    fv = view(prog, prog.one(r"rustybgpd::peer_tx::PendingTx::drain_messages"))
    r.analysed(fv.name)
    un = emission_blocks(prog, fv, re.compile(r"rustybgp_packet::bgp::Update"), "Unreach")
    re_ = emission_blocks(prog, fv, re.compile(r"rustybgp_packet::bgp::Update"), "Reach")
    if not un or not re_:
        r.unanalysable("drain_messages: Update::Unreach x%d, Update::Reach x%d constructions" % (len(un), len(re_)), fv.loc())
        return
    late = [u for u in un if any(u in fv.reach_after(x) or u == x for x in re_)]
    if late:
        r.fail(fv.name, "withdrawals-after-announcements", "drain_messages can emit an Update::Unreach (line %d) after an Update::Reach of the same flush: a prefix pending as a withdrawal under its old "
               "destination id and as an announcement under a new one ends up withdrawn at the neighbour" % fv.line(late[0]), fv.loc(late[0]))
    else:
        r.ok("drain_messages: all withdrawals are emitted before the first announcement")
    # the End-of-RIB marker closes the flush
    eor = [b for b, t in fv.calls(re.compile(r"rustybgp_packet::bgp::Message::eor$"))]
    if eor and any(x in fv.reach_after(e) for e in eor for x in un + re_):
        r.fail(fv.name, "eor-before-updates", "End-of-RIB can be emitted before pending updates of the same flush", fv.loc(eor[0]))
    elif eor:
        r.ok("drain_messages: End-of-RIB is emitted last")


def check_pending(prog, r):
    check_drain_order(prog, r)
    reach_fixed = True
    # Only `reach` cancelling a pending `unreach` is a hazard: a pending reach for P under id k means P is still
    # live, so no other prefix can own k when an unreach(k, ..) arrives (events of one shard are ordered).
    for meth, other in (("reach", "unreach"),):
        fv = view(prog, prog.one(r"rustybgpd::peer_tx::PendingTx::" + meth))
        r.analysed(fv.name)
        rem = []
        for b, t in fv.calls(re.compile(r".*HashMap::<K, V, S(, A)?>::remove")):
            e = Renderer(fv, depth=8).operand(t["args"][0], 8)
            if other in expr_fields(e):
                rem.append(b)
        if not rem:
            r.ok("PendingTx::%s does not cancel entries of the `%s` map by key" % (meth, other))
            continue
        for b in rem:
            ok = False
            for g, l, h in flat_guards(fv, b):
                if g[0] == "call" and re.search(r"PartialEq(<.*>)?(>)?::(eq|ne)$", g[1]) and "Nlri" in g[5]:
                    if g[1].endswith("eq") == (l == {"true"}):
                        ok = True
                if g[0] == "call" and g[1].endswith("is_some_and") and l == {"true"}:
                    ok = ok or _closure_compares_nlri(prog, g)
            if ok:
                r.ok("PendingTx::%s cancels a pending %s only for the same NLRI" % (meth, other))
            else:
                reach_fixed = False
                r.fail(fv.name, "cancel-by-recycled-key:" + other,
                       "PendingTx::%s removes the pending `%s` entry under (dest_id, path_id) without comparing the NLRI: dest ids are reused as soon as a prefix disappears, "
                       "so a withdrawal still waiting for prefix P is silently cancelled by an announcement for a new prefix P' that was given P's id" % (meth, other), fv.loc(b))
    # overwrite of a pending unreach with a different NLRI
    fv = view(prog, prog.one(r"rustybgpd::peer_tx::PendingTx::unreach"))
    for b, t in fv.calls(re.compile(r".*HashMap::<K, V, S(, A)?>::insert")):
        e = Renderer(fv, depth=8).operand(t["args"][0], 8)
        if "unreach" not in expr_fields(e):
            continue
        dest = t["dest"]["l"]
        used = _value_used(fv, dest, b)
        guarded = any(g[0] == "call" and ("Nlri" in g[5] or g[1].endswith("::get") or g[1].endswith("contains_key")) for g, l, h in flat_guards(fv, b))
        # third accepted form: the old entry is looked up first (a `get` on the same map dominating the insert) and,
        # when it names a different NLRI, saved by a push into another field of self
        looked = [bb for bb, tt in fv.calls(re.compile(r".*HashMap::<K, V, S(, A)?>::get$"))
                  if "unreach" in expr_fields(Renderer(fv, depth=8).operand(tt["args"][0], 8)) and fv.dominates(bb, b)]
        saved = False
        for bb, tt in fv.calls(re.compile(r".*Vec::<T(, A)?>::push$")):
            tgt = Renderer(fv, depth=8).operand(tt["args"][0], 8)
            if "self" not in expr_vars(tgt) or fv.dominates(b, bb):
                continue
            for g, l, h in flat_guards(fv, bb):
                if g[0] == "call" and re.search(r"PartialEq(<.*>)?(>)?::(eq|ne)$", g[1]) and "Nlri" in g[5] and (g[1].endswith("ne") == (l == {"true"})):
                    saved = True
        if used or guarded or (looked and saved):
            r.ok("PendingTx::unreach keeps a displaced pending withdrawal")
        elif not reach_fixed:
            r.note("PendingTx::unreach overwrites by key; subsumed by the reach-side finding (a different NLRI can only be displaced once reach() keeps foreign withdrawals)")
        else:
            r.fail(fv.name, "overwrite-by-recycled-key:unreach",
                   "PendingTx::unreach overwrites a pending withdrawal stored under the same (dest_id, path_id) and drops the displaced NLRI: with a recycled id the earlier prefix is never withdrawn", fv.loc(b))


def _closure_compares_nlri(prog, g):
    for x in walk(g):
        if isinstance(x, tuple) and x and x[0] == "agg" and x[1] == "closure":
            toks = fn_tokens(prog, x[2], depth=0)
            if any(re.search(r"Nlri as std::cmp::PartialEq>::eq$", t) or ("PartialEq::eq" in t) for t in toks if t.startswith("call:")):
                return True
    return False


def _value_used(fv, local, at):
    """The Option returned by insert is inspected (switch on its discriminant / moved somewhere) rather than dropped."""
    for b in fv.reach_after(at) | {fv.blocks[at]["t"].get("to")}:
        if b is None:
            continue
        for s in fv.blocks[b]["s"]:
            rv = s.get("rv")
            if rv and rv["r"] == "discr" and rv["p"]["l"] == local:
                return True
            if rv and rv["r"] == "use":
                p = rv["o"].get("m")
                if p and p["l"] == local:
                    return True
        t = fv.blocks[b]["t"]
        if t["t"] == "call":
            for a in t["args"]:
                p = a.get("m") or a.get("c")
                if p and p["l"] == local:
                    return True
    return False


def check_untruncated(prog, r):
    pk = prog.one(PNC)
    n = 0
    for c in sorted(prog.callers(pk)):
        cv = view(prog, c)
        rn = root_name(prog, c)
        for b, t in cv.calls(re.compile(PNC)):
            n += 1
            r.analysed(rn)
            e = Renderer(cv, depth=30, through_names=True).operand(t["args"][0], 30)
            lim = [x for x in walk(e) if isinstance(x, tuple) and x and x[0] == "call" and x[1].endswith("collect_loc_rib_paths_limited")]
            # loop variable of `for change in <expr>`: find the iterator source
            if not lim:
                lim = _iter_source(prog, cv, b)
            if not lim:
                r.ok("%s: update comes from the change stream / full list" % short(rn))
                continue
            x = lim[0]
            larg = x[2][-1]
            if larg[0] == "const" and larg[1] == 1:
                r.ok("%s: list limited to 1 (non-add-path)" % short(rn))
            elif larg[0] == "call" and _returns_one_or_all(prog, larg):
                r.ok("%s: list limit is %s, which returns 1 (non-add-path: only the best is ever offered) or usize::MAX (no cut before the filters)" % (short(rn), larg[1].split("::")[-1]))
            else:
                r.fail(rn, "truncated-before-filters",
                       "process_nlri_change is fed from collect_loc_rib_paths_limited(.., %s): the list is cut to the add-path window before the echo / split-horizon / policy "
                       "filters run, while live updates filter first and cut afterwards — the dump and the incremental state disagree when a filtered path is among the first N" % show(larg, 30),
                       cv.loc(b))
    r.floor("callers of process_nlri_change", n, 3)


def _returns_one_or_all(prog, call):
    """The workspace function called here can only return 1 or usize::MAX (value set from the abstract interpreter)."""
    from ..absint import analyse, summarise
    ks = [k for k in prog.ix if prog.name(k) == call[1] and prog.ix[k]["kind"] in ("fn", "method")]
    if len(ks) != 1:
        return False
    try:
        summ = summarise(analyse(prog, ks[0]))
    except Exception:
        return False
    rng = summ.get("ranges", {}).get("")
    return bool(rng and rng[2] and set(rng[2]) <= {1, 2 ** 64 - 1})


def _iter_source(prog, cv, b):
    """If block b is inside a `for x in ITER` loop, return collect_loc_rib_paths_limited calls feeding ITER."""
    out = []
    rend = Renderer(cv, depth=30, through_names=True)
    for h, body, backs in loops(cv):
        if b not in body:
            continue
        for hb in [h]:
            t = cv.blocks[hb]["t"]
            if t["t"] == "call" and any(n.endswith("Iterator::next") for n in callee_names(t)):
                e = rend.operand(t["args"][0], 30)
                for x in walk(e):
                    if isinstance(x, tuple) and x and x[0] == "call" and x[1].endswith("collect_loc_rib_paths_limited"):
                        out.append(x)
                # the iterator may be a saved local: look for the into_iter call that initialised it
                if not out:
                    for ib, it in cv.calls(re.compile(r".*IntoIterator::into_iter")):
                        if cv.dominates(ib, hb):
                            ee = rend.operand(it["args"][0], 30)
                            for x in walk(ee):
                                if isinstance(x, tuple) and x and x[0] == "call" and x[1].endswith("collect_loc_rib_paths_limited"):
                                    out.append(x)
                            if not out and ("changes" in expr_vars(ee) or "changes" in expr_fields(ee)):
                                for cb, ct in cv.calls(re.compile(r".*collect_loc_rib_paths_limited")):
                                    out.append(rend.call_expr(ct, 10, cb))
    return out


# ---------------------------------------------------------------------------------------------- R01.6
def check_export_map_lifetime(prog, r):
    """on_established starts the session with a fresh ExportMap and then takes the initial dump under register_peer; the dump
    marks every route it sends in that map.  A (re)assignment of the map after the dump throws those marks away: a later
    withdrawal of a dumped route finds nothing marked as sent and is suppressed."""
    k = prog.one(r"rustybgpd::event::PeerSession::on_established")
    fv = view(prog, prog.body_key(k))
    r.analysed(prog.name(k))
    dumps = [b for b, t in fv.calls(re.compile(r"rustybgpd::table_manager::TableManager::register_peer$"))]
    if not dumps:
        r.unanalysable("on_established: no call of TableManager::register_peer", fv.loc())
        return
    writes = [b for b, si, s_ in field_writes(fv, "export_map")]
    writes += [b for b, t in fv.calls() if t.get("dest") and last_field(t["dest"]) == "export_map"]
    late = [w for w in writes if any(w in fv.reach_after(d) for d in dumps)]
    if late:
        r.fail(prog.name(k), "export-map-reset-after-dump", "self.export_map is assigned (line %d) after the initial dump taken under register_peer: the marks of everything the dump sent are "
               "discarded, so later withdrawals of those routes are never sent" % fv.line(late[0]), fv.loc(late[0]))
    elif writes:
        r.ok("on_established: the ExportMap is created before the initial dump and not replaced afterwards")
    else:
        r.ok("on_established: the ExportMap is not replaced around the initial dump")


def check_plain_arm_exits(prog, r):
    """Non-add-path arm of process_nlri_change: `if !best_changed { return }` is the one legitimate early exit.  Whatever makes the
    new best not exportable to this neighbour (its own route, split horizon, policy, no best at all) must fall through to the
    `was_sent` consultation, so that a route announced earlier is withdrawn; an extra `return` on one of those conditions leaves
    the neighbour with the stale route for ever."""
    from ..cfg import bool_edges
    k = prog.one(r"rustybgpd::event::export::process_nlri_change")
    fv = view(prog, k)
    r.analysed(prog.name(k))
    brs = branches(fv)
    bc = [br for bi, br in brs.items() if "best_changed" in expr_fields(br.expr) and _arm(fv, bi) == "plain"]
    if len(bc) != 1:
        r.unanalysable("process_nlri_change: %d tests of best_changed in the non-add-path arm" % len(bc), fv.loc())
        return
    br = bc[0]
    neg = br.expr[0] == "un" and br.expr[1] == "Not"
    early = bool_edges(fv, br, True if neg else False)       # the edge taken when best_changed is false
    consult = [b for b, t in fv.calls(re.compile(r"rustybgpd::event::export::ExportMap::(was_sent|sent_path_ids)$")) if _arm(fv, b) == "plain"]
    emits = [b for b, t in fv.calls(re.compile(r".*NlriSink::(reach|unreach)$")) if _arm(fv, b) == "plain"]
    if not consult or not emits:
        r.unanalysable("process_nlri_change: non-add-path arm has %d was_sent consultations / %d sink emissions" % (len(consult), len(emits)), fv.loc(br.bi))
        return
    rets = [b for b in fv.returns()]
    if fv.must_pass(br.bi, consult + emits, rets, after=True, removed_edges=early):
        r.ok("process_nlri_change: after `best_changed`, every way out of the non-add-path arm passes a sink emission or the was_sent consultation")
    else:
        # name the exit: a return block reachable without passing them
        reach = fv.reach_after(br.bi, set(consult + emits), early)
        bad = sorted(b for b in rets if b in reach)
        r.fail(prog.name(k), "plain-arm-exit-without-withdraw", "the non-add-path arm can return after the best path changed without announcing it and without consulting was_sent(): "
               "when the new best is not exportable to this neighbour on that path, a route announced earlier is never withdrawn", fv.loc(bad[0] if bad else br.bi))
