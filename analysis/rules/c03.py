"""C03 — no byte sequence can panic, wedge or stall a wire decoder."""
import re

from ..absint import check_panic_freedom
from ..cfg import Renderer, walk, show, flat_guards, branches
from ..facts import callee_names, short
from ..util import view, crate_fns, root_name, expr_calls, expr_fields, expr_vars, loops, loop_cond_exits

EXPLANATION = (
    "R03.1: abstract interpretation (zone domain over integer locals, len(), cursor positions, Option/Result tags) of every "
    "function of the packet crate reachable from the wire entry points (PeerCodec::try_parse / parse_message, validate_message, "
    "RtrCodec::decode, bfd::Message::decode): each site that can unwind (arithmetic overflow, bounds check, division, "
    "unwrap/expect, slice/range index, copy_from_slice, split_to, Vec::remove/insert, panic!/unreachable!/assert!) is an obligation "
    "that must be discharged from the guards on every path, or listed in specs/reviewed_sites.json with a reason; R03.2 every "
    "loop in that code advances a cursor quantity on every path to its back edge; R03.3 a stream decoder that returns "
    "Ok(Some(_)) has consumed at least a header; R03.4 Ok(None) (need more bytes) is returned only under a comparison with the "
    "buffer length; R03.5 every Err leaving the BGP parser is a Notification and the session driver turns it into a teardown. "
    "Debug arithmetic semantics in the quick tier; the thorough tier repeats R03.1 with release (wrapping) semantics.")
ASSUMPTIONS = [
    "models of std / bytes / byteorder callees in analysis/models.py (reviewed by hand)",
    "allocation failure and stack depth are out of scope",
]

ENTRY = [r"rustybgp_packet::bgp::PeerCodec::try_parse", r"rustybgp_packet::bgp::PeerCodec::parse_message", r"rustybgp_packet::bgp::validate_message",
         r"rustybgp_packet::<rpki::RtrCodec as tokio_util::codec::Decoder>::decode", r"rustybgp_packet::bfd::Message::decode"]


def roots(prog):
    return [prog.one(e) for e in ENTRY]


def run(prog, rep, tier):
    r1 = rep.rule("R03.1", "panic-site freedom of wire-reachable decoder code (debug arithmetic)")
    r6 = rep.rule("R03.6", "lengths computed while decoding are not truncated (usize -> u8/u16 casts are range-proved)")
    fns = check_panic_freedom(prog, r1, roots(prog), "C03", scope_crates=("rustybgp_packet",), profile="debug",
                              casts_in=lambda k: True, cast_rule=r6, cast_filter=lambda ob: bool(re.match(r"cast:usize->(u8|u16)$", ob.kind)))
    r1.floor("functions reachable from the wire entry points", len(fns), 120)
    r2 = rep.rule("R03.2", "every loop in wire-reachable code makes progress")
    check_loops(prog, r2, fns)
    r3 = rep.rule("R03.3", "a returned frame was consumed from the stream buffer (at least a header)")
    check_frames(prog, r3)
    r4 = rep.rule("R03.4", "'need more bytes' is returned only under a buffer-length comparison")
    check_need_more(prog, r4)
    r5 = rep.rule("R03.5", "parser errors terminate the session with a NOTIFICATION")
    check_error_mapping(prog, r5)
    if tier == "thorough":
        r1b = rep.rule("R03.1r", "panic-site freedom with release (wrapping) arithmetic")
        check_panic_freedom(prog, r1b, roots(prog), "C03", scope_crates=("rustybgp_packet",), profile="release")


# ---------------------------------------------------------------------------------------------- R03.2 .. R03.5
def _interp(prog, k, profile="debug"):
    from ..absint import analyse
    cache = getattr(prog, "_absint_cache", None)
    if cache is None:
        cache = prog._absint_cache = {}
    it = cache.get((k, profile, "final"))
    if it is None:
        it = analyse(prog, k, profile)
        cache[(k, profile, "final")] = it
    return it


def check_loops(prog, r, fns):
    n = 0
    for k in fns:
        fv = view(prog, k)
        ls = loops(fv)
        if not ls:
            continue
        it = _interp(prog, k)
        for head, body, backs in ls:
            n += 1
            where = "%s loop@%d" % (short(prog.name(k)), fv.line(head))
            # iterator-driven loops (`for x in ..`): the header calls Iterator::next and exits on None
            iter_driven = False
            b, steps = head, 0
            while steps < 6:
                t = fv.blocks[b]["t"]
                if t["t"] == "call" and any(nm.endswith("Iterator::next") for nm in callee_names(t)):
                    ga = t["f"].get("ga", "")
                    # iterators over finite collections / ranges; `repeat`, `cycle`, `from_fn` are not
                    if not re.search(r"Repeat|Cycle|FromFn|Successors|RangeFrom", ga):
                        iter_driven = True
                    break
                ss = [s for _, s in fv.succ[b] if s in body]
                if len(fv.succ[b]) != 1 or not ss:
                    break
                b = ss[0]
                steps += 1
            if iter_driven:
                r.ok(where + ": iterator-driven (terminates with the iterator)")
                continue
            prog_blocks = {p for p in it.progress if p in body}
            stuck = [bk for bk in backs if bk in fv.reach(head, prog_blocks) and head not in prog_blocks]
            # reach() includes paths head -> back edge source avoiding every progress block
            if not stuck:
                r.ok(where + ": every iteration consumes input / advances a cursor (%d progress site(s))" % len(prog_blocks))
            else:
                r.fail(prog.name(k), "loop-without-progress@" + _loop_tag(fv, head),
                       "a path around this loop neither consumes input nor advances a cursor variable: hostile input can make it spin", fv.loc(head))
    r.floor("loops in wire-reachable code", n, 25)


def _loop_tag(fv, head):
    t = fv.blocks[head]["t"]
    sn = (t.get("sn") or "")[:40]
    return re.sub(r"\s+", "", sn) or "head"


def check_frames(prog, r):
    for nm, hdr in ((r"rustybgp_packet::bgp::PeerCodec::try_parse", 19), (r"rustybgp_packet::<rpki::RtrCodec as tokio_util::codec::Decoder>::decode", 8)):
        k = prog.one(nm)
        fv = view(prog, k)
        it = _interp(prog, k)
        r.analysed(fv.name)
        rend = Renderer(fv, depth=10)
        somes = []
        for bi, si, s in fv.defs().get(0, []):
            if bi not in fv.live:
                continue
            e = rend.call_expr(s, 10, bi) if si == "t" else rend.rvalue(s["rv"], 10)
            if e[0] == "agg" and e[2] == "Ok" and e[3] and e[3][0][0] == "agg" and e[3][0][2] == "Some":
                somes.append(bi)
        if not somes:
            r.unanalysable("%s: no Ok(Some(_)) return found" % short(fv.name), fv.loc())
            continue
        for sb in somes:
            cons = [b for b in it.consumed if fv.dominates(b, sb)]
            if not cons:
                r.fail(fv.name, "frame-not-consumed", "a message is returned without removing its bytes from the stream buffer: the same frame is decoded again forever", fv.loc(sb))
                continue
            lo = max(it.consumed[b] for b in cons)
            if lo >= hdr:
                r.ok("%s: Ok(Some) after consuming >= %s bytes" % (short(fv.name), lo))
            else:
                r.fail(fv.name, "frame-consumes-too-little",
                       "a message is returned after consuming n >= %s bytes (header is %d): a length field below the header size yields messages without consuming input (endless loop)" % (lo, hdr), fv.loc(cons[0]))


def check_need_more(prog, r, names=(r"rustybgp_packet::bgp::PeerCodec::try_parse", r"rustybgp_packet::<rpki::RtrCodec as tokio_util::codec::Decoder>::decode")):
    for nm in names:
        k = prog.one(nm)
        fv = view(prog, k)
        r.analysed(fv.name)
        rend = Renderer(fv, depth=10)
        n = 0
        for bi, si, s in fv.defs().get(0, []):
            if bi not in fv.live:
                continue
            e = rend.call_expr(s, 10, bi) if si == "t" else rend.rvalue(s["rv"], 10)
            if not (e[0] == "agg" and e[2] == "Ok" and e[3] and e[3][0][0] == "agg" and e[3][0][2] == "None"):
                continue
            n += 1
            gs = flat_guards(fv, bi)
            def short_side(g, l):
                """The guard says "the buffer holds fewer bytes than needed" on the edge taken."""
                if not (g[0] == "bin" and g[1] in ("Lt", "Le", "Gt", "Ge") and l <= {"true", "false"} and len(l) == 1):
                    return False
                isbuf = lambda x: any(c.endswith("::len") for c in expr_calls(x)) or bool({"buffer_len", "buflen", "buf_len"} & set(expr_vars(x)))
                a, b = g[2], g[3]
                if isbuf(a) == isbuf(b):
                    return False
                op = g[1]
                if l == {"false"}:
                    op = {"Lt": "Ge", "Le": "Gt", "Gt": "Le", "Ge": "Lt"}[op]
                if isbuf(b):
                    op = {"Lt": "Gt", "Le": "Ge", "Gt": "Lt", "Ge": "Le"}[op]
                return op in ("Lt", "Le")
            len_cmp = any(short_side(g, l) for g, l, h in gs)
            on_err = any(g[0] == "discr" and "Err" in l for g, l, h in gs)
            if len_cmp and not on_err:
                r.ok("%s: Ok(None) under a buffer-length comparison" % short(fv.name))
            else:
                r.fail(fv.name, "need-more-not-length-justified",
                       "Ok(None) ('need more bytes') is returned %s: a complete but unusable frame stalls the stream forever" % ("for every parse error" if on_err else "without a buffer-length test"), fv.loc(bi))
        if n == 0:
            r.unanalysable("%s: no Ok(None) return" % short(fv.name), fv.loc())


def check_error_mapping(prog, r):
    rs = prog.one(r"rustybgpd::event::PeerSession::run_select")
    fv = view(prog, prog.body_key(rs))
    r.analysed(prog.name(rs))
    n = 0
    for what, rx in (("try_parse", r"rustybgp_packet::bgp::PeerCodec::try_parse"), ("validate_message", r"rustybgp_packet::bgp::validate_message")):
        from ..util import body_holding
        fv = body_holding(prog, rs, rx)
        calls = fv.calls(re.compile(rx))
        if not calls:
            r.unanalysable("run_select: no call of %s" % what, fv.loc())
            continue
        # blocks under the Err outcome of that call must build Step::Terminate with a notification
        ok = False
        for bi, si, s in fv.aggregates(re.compile(r"rustybgpd::event::Step"), "Terminate"):
            gs = flat_guards(fv, bi)
            if any(g[0] == "discr" and any(c.endswith(what) for c in expr_calls(g)) and l == {"Err"} for g, l, h in gs):
                e = Renderer(fv, depth=6).operand(s["rv"]["fields"][1], 6)
                if e[0] == "agg" and e[2] == "Some":
                    ok = True
        n += 1
        if ok:
            r.ok("run_select: Err from %s => Step::Terminate with a NOTIFICATION" % what)
        else:
            r.fail(prog.name(rs), "err-not-terminating:" + what, "an Err from %s does not terminate the session with a NOTIFICATION" % what, fv.loc(calls[0][0]))
