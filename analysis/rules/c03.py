"""C03 — no byte sequence can panic, wedge or stall a wire decoder."""
import re

from ..absint import check_panic_freedom
from ..cfg import Renderer, walk, show, flat_guards, branches
from ..facts import callee_names, short
from ..util import view, crate_fns, root_name, expr_calls, expr_fields, expr_vars, loops, loop_cond_exits

EXPLANATION = (
    "R03.1: abstract interpretation (zone domain over integer locals, len(), cursor positions, Option/Result tags) of every "
    "function of the packet crate reachable from the wire entry points (PeerCodec::try_parse / parse_message, validate_message, "
    "RtrCodec::decode, bfd::Message::decode): each site that can unwind (arithmetic overflow, bounds check, division, "
    "unwrap/expect, slice/range index, copy_from_slice, split_to, Vec::remove/insert, panic!/unreachable!/assert!) is an obligation "
    "that must be discharged from the guards on every path, or listed in specs/reviewed_sites.json with a reason; R03.2 every "
    "loop in that code advances a cursor quantity on every path to its back edge; R03.3 a stream decoder that returns "
    "Ok(Some(_)) has consumed at least a header; R03.4 Ok(None) (need more bytes) is returned only under a comparison with the "
    "buffer length; R03.5 every Err leaving the BGP parser is a Notification and the session driver turns it into a teardown. "
    "Debug arithmetic semantics in the quick tier; the thorough tier repeats R03.1 with release (wrapping) semantics.")
ASSUMPTIONS = [
    "models of std / bytes / byteorder callees in analysis/models.py (reviewed by hand)",
    "allocation failure and stack depth are out of scope",
]

ENTRY = [r"rustybgp_packet::bgp::PeerCodec::try_parse", r"rustybgp_packet::bgp::PeerCodec::parse_message", r"rustybgp_packet::bgp::validate_message",
         r"rustybgp_packet::<rpki::RtrCodec as tokio_util::codec::Decoder>::decode", r"rustybgp_packet::bfd::Message::decode"]


def roots(prog):
    return [prog.one(e) for e in ENTRY]


def run(prog, rep, tier):
    r1 = rep.rule("R03.1", "panic-site freedom of wire-reachable decoder code (debug arithmetic)")
    fns = check_panic_freedom(prog, r1, roots(prog), "C03", scope_crates=("rustybgp_packet",), profile="debug")
    r1.floor("functions reachable from the wire entry points", len(fns), 120)
    if tier == "thorough":
        r1b = rep.rule("R03.1r", "panic-site freedom with release (wrapping) arithmetic")
        check_panic_freedom(prog, r1b, roots(prog), "C03", scope_crates=("rustybgp_packet",), profile="release")
