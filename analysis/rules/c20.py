"""C20 — FIB requests and next-hop tracking stay in step with the RIB (structural clauses)."""
import re

from ..cfg import Renderer, walk, show, flat_guards, branches, strip
from ..facts import callee_names, short
from ..sig import fn_tokens
from ..util import view, crate_fns, root_name, expr_calls, expr_fields, expr_vars, loops

EXPLANATION = (
    "Static rules over daemon/src/table_manager.rs and kernel/src/lib.rs (MIR): R20.1 next hops returned by the bulk removal "
    "mutators flow into unregister_nexthop in every TableShard wrapper; insert_route reaches nht_register on every path through "
    "Table::insert except PrefixLimitExceeded; remove_route unregisters the removed path's next hop; the three sites that can see "
    "the kernel/local pseudo-source exclude both with the same pair of tests; soft_reset_in registers/unregisters exactly when "
    "the address changes; R20.2 the nexthop_invalid flag given to Table::insert derives from the unreachable set and every "
    "change produced by a validity flip is distributed; R20.3 the FIB request carries the ECMP set and its guard is implied by "
    "'the ECMP set may have changed' (best_changed alone is not: a tie inserted behind an unchanged best); R20.4 the watch "
    "refcount is decremented only when > 1 and removed at <= 1. Decides pairing structure, not replay equality with the RIB.")
ASSUMPTIONS = ["KernelHandle requests are delivered in order over one channel"]

TS = "rustybgpd::table_manager::TableShard::"
UNREG = re.compile(r"rustybgp_kernel::KernelHandle::unregister_nexthop")
REG = re.compile(r"rustybgp_kernel::KernelHandle::register_nexthop")


def run(prog, rep, tier):
    r1 = rep.rule("R20.1", "next-hop registration pairing")
    # (a) bulk removals
    for meth, tcalls in (("disconnected", ["drop"]), ("drop_stale", ["drop_stale"]), ("mark_llgr_stale", ["drop_no_llgr"]), ("drop_llgr_stale", ["drop_llgr_stale"])):
        fv = view(prog, prog.one(re.escape(TS + meth)))
        r1.analysed(fv.name)
        for tc in tcalls:
            cs = fv.calls(re.compile(r"rustybgp_table::Table::" + tc))
            if len(cs) != 1:
                r1.unanalysable("%s: %d calls of Table::%s" % (meth, len(cs), tc), fv.loc())
                continue
            cb, ct = cs[0]
            un = [b for b, t in fv.calls(UNREG) if b in fv.reach_after(cb)]
            ok = False
            for b in un:
                # argument derives from the tuple's second component via the loop variable; accept: in a loop whose
                # iterator derives from the call result
                e = Renderer(fv, depth=30, through_names=True).operand(fv.blocks[b]["t"]["args"][1], 30)
                if any(isinstance(x, tuple) and x and x[0] == "call" and x[1].endswith("Table::" + tc) for x in walk(e)) or _loop_over_result(fv, b, cb):
                    ok = True
            if ok:
                r1.ok("%s: next hops returned by Table::%s are unregistered" % (meth, tc))
            else:
                r1.fail(fv.name, "returned-nexthops-unused:" + tc, "the next hops returned by Table::%s are not passed to unregister_nexthop: registrations leak for every purged path" % tc, fv.loc(cb))
    # (b) insert_route
    iv = view(prog, prog.one(r"rustybgpd::table_manager::TableManager::insert_route"))
    r1.analysed(iv.name)
    ins = [b for b, t in iv.calls(re.compile(r"rustybgp_table::Table::insert"))]
    regs = [b for b, t in iv.calls(re.compile(r"rustybgpd::table_manager::nht_register"))]
    if len(ins) == 1 and regs:
        ib = ins[0]
        bad = []
        for ret in iv.returns():
            # paths insert -> ret avoiding nht_register: allowed only through the PrefixLimitExceeded edge
            esc = iv.reach_after(ib, regs)
            if ret in esc:
                # remove the PrefixLimitExceeded edges and re-test
                lim_edges = set()
                for b2, br in branches(iv).items():
                    if br.expr[0] == "discr" and br.adt and br.adt.endswith("InsertResult"):
                        for v, tgt in br.cases + [("else", br.otherwise)]:
                            if br.label(prog, v) == "PrefixLimitExceeded":
                                lim_edges.add((b2, v, tgt))
                if ret in iv.reach_after(ib, regs, lim_edges):
                    bad.append(ret)
        if bad:
            r1.fail(iv.name, "insert-without-register", "a path through Table::insert (other than PrefixLimitExceeded) returns without nht_register(new, old)", iv.loc(ib))
        else:
            r1.ok("insert_route: every accepted insertion reaches nht_register(new_nh, old_nh)")
        # arguments: new = nh after policy, old = lookup_nexthop before insert
        for b in regs:
            t = iv.blocks[b]["t"]
            e_old = Renderer(iv, depth=12, through_names=True).operand(t["args"][3], 12)
            if any(c.endswith("Table::lookup_nexthop") for c in expr_calls(e_old)):
                r1.ok("insert_route: old next hop comes from lookup_nexthop before the insertion")
            else:
                r1.fail(iv.name, "old-nexthop-source", "nht_register's old next hop is %s, not the pre-insertion lookup" % show(e_old, 60), iv.loc(b))
    else:
        r1.unanalysable("insert_route: Table::insert x%d, nht_register x%d" % (len(ins), len(regs)), iv.loc())
    # (c) remove_route
    rv = view(prog, prog.one(r"rustybgpd::table_manager::TableManager::remove_route"))
    r1.analysed(rv.name)
    un = rv.calls(UNREG)
    rem = rv.calls(re.compile(r"rustybgp_table::Table::remove"))
    if un and rem and all(b in rv.reach_after(rem[0][0]) for b, t in un):
        r1.ok("remove_route: removed path's next hop is unregistered")
    else:
        r1.fail(rv.name, "remove-without-unregister", "remove_route does not unregister the removed path's next hop", rv.loc())
    # (d) pseudo-source exclusion at the three sites
    for nm in (r"rustybgpd::table_manager::nht_register", r"rustybgpd::table_manager::TableManager::remove_route", re.escape(TS + "soft_reset_in")):
        fv = view(prog, prog.one(nm))
        sites = [b for b, t in fv.calls(UNREG)] + [b for b, t in fv.calls(REG)]
        if not sites:
            r1.unanalysable("%s: no (un)register call" % short(fv.name), fv.loc())
            continue
        for b in sites:
            gs = flat_guards(fv, b)
            k = any(g[0] == "call" and g[1].endswith("Source::is_kernel") and l == {"false"} for g, l, h in gs)
            lo = any(g[0] == "call" and g[1].endswith("Source::is_local") and l == {"false"} for g, l, h in gs)
            if k and lo:
                r1.ok("%s @%d: excluded for kernel and local sources" % (short(fv.name), fv.line(b)))
            else:
                r1.fail(fv.name, "pseudo-source:%s" % ("kernel" if not k else "local"), "next-hop tracking call is not excluded for the %s pseudo-source (the sibling sites test both is_kernel and is_local)" % ("kernel" if not k else "local"), fv.loc(b))
    # (e) soft_reset_in: register/unregister only when the address changes
    sv = view(prog, prog.one(re.escape(TS + "soft_reset_in")))
    for b, t in sv.calls(REG) + sv.calls(UNREG):
        gs = flat_guards(sv, b)
        if any(g[0] == "call" and re.search(r"PartialEq(>)?::ne$", g[1]) and l == {"true"} and ("old_nh" in show(g, 300) or "lookup_nexthop" in show(g, 300)) for g, l, h in gs) or \
                any(g[0] == "call" and re.search(r"PartialEq(>)?::eq$", g[1]) and l == {"false"} for g, l, h in gs):
            r1.ok("soft_reset_in @%d: only when the next-hop address changed" % sv.line(b))
        else:
            r1.fail(sv.name, "softreset-unconditional", "soft_reset_in (un)registers a next hop without comparing old and new address", sv.loc(b))

    r2 = rep.rule("R20.2", "unreachable next hops are consulted at insertion; validity flips are distributed")
    for fv, idx in ((iv, 9), (sv, 9)):
        for b, t in fv.calls(re.compile(r"rustybgp_table::Table::insert")):
            e = Renderer(fv, depth=20, through_names=True).operand(t["args"][idx], 20)
            r2.analysed(fv.name)
            if any(re.search(r"HashSet::<[^>]*>::contains$", c) for c in expr_calls(e)) or _closure_contains(prog, e):
                r2.ok("%s: nexthop_invalid flag = unreachable-set.contains(next hop)" % short(fv.name))
            else:
                r2.fail(fv.name, "nexthop-invalid-arg", "Table::insert is given nexthop_invalid = %s; it must come from the unreachable-next-hop set" % show(e, 70), fv.loc(b))
    uv = view(prog, prog.one(r"rustybgpd::table_manager::TableManager::update_nexthop_validity"))
    r2.analysed(uv.name)
    uc = uv.calls(re.compile(r"rustybgp_table::Table::update_nexthop_validity"))
    du = uv.calls(re.compile(re.escape(TS + "distribute_update")))
    if uc and du and all(b in uv.reach_after(uc[0][0]) for b, t in du):
        r2.ok("update_nexthop_validity: every change is passed to distribute_update")
    else:
        r2.fail(uv.name, "flip-not-distributed", "changes from a next-hop validity flip are not distributed", uv.loc())
    st = [b for b, t in uv.calls(re.compile(r"arc_swap::.*::store"))]
    if st and uc and all(uv.dominates(b, uc[0][0]) for b in st):
        r2.ok("update_nexthop_validity: the unreachable set is updated before re-selection")
    else:
        r2.fail(uv.name, "set-after-reselect", "the unreachable set is not updated before the tables are re-evaluated", uv.loc())

    # every removed path gives its next hop back for unregistration, whether or not it was eligible: registration happens for
    # every stored peer path (filtered and next-hop-invalid ones included), so the collection of next hops to unregister
    # may be conditioned on the removal predicate only
    n_nh = 0
    for m in ("drop", "drop_stale", "drop_llgr_stale", "drop_no_llgr"):
        for kk in prog.with_closures(prog.one(r"rustybgp_table::Table::" + m)):
            dv = view(prog, kk)
            dbrs = branches(dv)
            rend_ = Renderer(dv, depth=8)
            rend_n = Renderer(dv, depth=14, through_names=True)
            for bi, t in dv.calls(re.compile(r".*(Vec::<T(, A)?>::push|Extend::extend|Vec::<T(, A)?>::extend|Vec::<T(, A)?>::extend_from_slice)$")):
                if "IpAddr" not in t["f"].get("ga", ""):
                    continue
                n_nh += 1
                bad = {c.split("::")[-1] for g, l, h in flat_guards(dv, bi, dbrs) for c in expr_calls(g) if re.search(r"RibEntry::(is_filtered|is_nexthop_invalid)$", c)}
                if not t["f"]["name"].endswith("::push") and len(t["args"]) > 1:
                    # iterator form: the filters feeding the extend are closures in the chain
                    src = rend_n.operand(t["args"][1], 14)
                    for x in walk(src):
                        ck = None
                        if isinstance(x, tuple) and x and x[0] == "agg" and x[1] == "closure":
                            ck = x[2]
                        if isinstance(x, tuple) and x and x[0] == "call" and x[1].startswith("closure::"):
                            ck = x[1][len("closure::"):]
                        if ck and ck in prog.ix:
                            for c in prog.callees(ck):
                                nmc = prog.name(c)
                                if re.search(r"RibEntry::(is_filtered|is_nexthop_invalid)$", nmc):
                                    bad.add(nmc.split("::")[-1])
                bad = sorted(bad)
                if bad:
                    r1.fail("rustybgp_table::Table::" + m, "unregister-only-eligible", "Table::%s hands back a removed path's next hop only when %s: filtered or next-hop-invalid paths were registered too, "
                            "so their registrations are never released" % (m, " / ".join(bad)), dv.loc(bi))
                else:
                    r1.ok("Table::%s: the next hop of every removed path is returned for unregistration" % m)
    if n_nh < 3:
        r1.unanalysable("next-hop collection sites in the drop* functions: %d (want >= 3)" % n_nh)
    # every path using a next hop follows its reachability: the flag update visits all entries of a destination
    from ..util import mutating_short_circuit_closures
    uk = prog.one(r"rustybgp_table::Table::update_nexthop_validity")
    for kk in prog.with_closures(uk):
        uv = view(prog, kk)
        for bi, meth, ck, what in mutating_short_circuit_closures(prog, uv):
            r2.fail(prog.name(uk), "flag-update-short-circuits:" + meth, "update_nexthop_validity updates the next-hop-invalid flag inside a closure given to Iterator::%s (%s): iteration stops at the "
                    "first entry that changes, so other paths using the same next hop keep their old eligibility" % (meth, what), uv.loc(bi))
    uvv = view(prog, uk)
    setters = [b for kk in prog.with_closures(uk) for b, t in view(prog, kk).calls(re.compile(r"rustybgp_table::RibEntry::set_nexthop_invalid$"))]
    if setters:
        r2.ok("update_nexthop_validity: set_nexthop_invalid reached from %d site(s), none inside a short-circuiting iterator closure" % len(setters)) if not any(
            mutating_short_circuit_closures(prog, view(prog, kk)) for kk in prog.with_closures(uk)) else None
    else:
        r2.unanalysable("update_nexthop_validity never calls set_nexthop_invalid", uvv.loc())
    r3 = rep.rule("R20.3", "FIB request carries the ECMP set and fires whenever that set may change")
    dv = view(prog, prog.one(re.escape(TS + "distribute_update")))
    r3.analysed(dv.name)
    applies = dv.calls(re.compile(r"rustybgp_kernel::KernelHandle::apply"))
    if not applies:
        r3.unanalysable("distribute_update: no KernelHandle::apply", dv.loc())
    first = True
    for b, t in applies:
        gs = flat_guards(dv, b)
        bc = any("best_changed" in expr_fields(g) and l == {"true"} for g, l, h in gs)
        ac = any("any_changed" in expr_fields(g) for g, l, h in gs) or any("ecmp" in show(g, 200) for g, l, h in gs)
        if not first:
            continue
        first = False
        if bc and not ac:
            r3.fail(dv.name, "fib-guard-best-only",
                    "the FIB request is sent only when best_changed: inserting or removing a path tied with an unchanged best changes the ECMP next-hop set (any_changed) but no request is issued",
                    dv.loc(b))
        else:
            r3.ok("FIB request guard covers ECMP-set changes")
    toks = fn_tokens(prog, dv.key, depth=0)
    for kk in prog.with_closures(dv.key):
        toks |= fn_tokens(prog, kk, depth=0)
    if any(t.endswith("NlriChange::ecmp_paths") for t in toks if t.startswith("call:")):
        r3.ok("FIB request next hops come from NlriChange::ecmp_paths")
    else:
        r3.fail(dv.name, "fib-not-ecmp", "the FIB request does not carry ecmp_paths()", dv.loc())

    # VRF tables: a withdrawal (no eligible path left, empty next-hop set) must reach every VRF table -- it cannot be made to depend
    # on the import targets of a best path that no longer exists
    from ..util import bool_true_requires
    vrf_applies = [b for b, t in applies if any(b in body for h, body, backs in loops(dv))]
    if not vrf_applies:
        r3.unanalysable("distribute_update: no per-VRF KernelHandle::apply (inside the loop over VRFs)", dv.loc())
    for b in vrf_applies:
        gs = flat_guards(dv, b, branches(dv, Renderer(dv, depth=12, through_names=True)), named=True)
        for g, l, h in list(gs):
            if g[0] == "var" and l == {"true"}:
                gs += bool_true_requires(dv, g[1])
        need_best = [g for g, l, h in gs if l == {"true"} and h != "not" and any(c.endswith("Vrf::can_import") or c.endswith("NlriChange::new_best") for c in expr_calls(g) + [c2 for x in walk(g) if isinstance(x, tuple) and x and x[0] == "agg" and x[1] == "closure" and x[2] in prog.ix for c2 in [prog.name(k2) for k2 in prog.callees(x[2]) if k2 in prog.ix]])]
        if need_best:
            r3.fail(dv.name, "vrf-withdraw-needs-best", "the per-VRF FIB request is sent only if %s holds: when the prefix loses its last eligible path there is no best path to test, so the "
                    "withdrawal never reaches the VRF tables and they keep the old next hops" % show(need_best[0], 70), dv.loc(b))
        else:
            r3.ok("distribute_update: the per-VRF request is also sent when there is no best path (withdrawal)")
    # the set itself: the run of paths equal to the best on every step before the router-id step (shared with R02.3)
    from . import c02
    from ..cfg import FnView
    ek = prog.one(r"rustybgp_table::NlriChange::ecmp_paths")
    efv = FnView(prog, ek)
    r3.analysed(efv.name)
    c02.check_ecmp(prog, efv, c02.SPEC_ORDER, r3)

    r4 = rep.rule("R20.4", "watch refcount: decrement only when > 1, remove at <= 1, first registration reports state")
    ks = [k for k in crate_fns(prog, "rustybgp_kernel") if any(a.endswith("Request::RegisterNexthop") or True for a in [""]) and "run_service_loop" in prog.ix[k]["name"]]
    found = False
    for k in ks:
        kv = view(prog, k)
        brs = branches(kv)
        for bi in sorted(kv.live):
            for s in kv.blocks[bi]["s"]:
                rv_ = s.get("rv")
                if rv_ and rv_["r"] == "bin" and rv_["op"].startswith("Sub"):
                    e = Renderer(kv, depth=10).rvalue(rv_, 10)
                    gs = flat_guards(kv, bi, brs)
                    if not any(g[0] == "discr" and "UnregisterNexthop" in l for g, l, h in gs):
                        continue
                    found = True
                    r4.analysed(root_name(prog, k))
                    ok = False
                    for g, l, h in gs:
                        same_place = g[0] == "bin" and e[0] == "bin" and any(show(strip(x_), 200) == show(strip(e[2]), 200) for x_ in (g[2], g[3]) if isinstance(x_, tuple))
                        if g[0] == "bin" and g[1] in ("Le", "Lt", "Gt", "Ge") and (any(c.endswith("::get") for c in expr_calls(g)) or same_place):
                            c = g[3][1] if g[3][0] == "const" else None
                            # (*get <= 1) false  or (*get > 1) true
                            if (g[1] == "Le" and c == 1 and l == {"false"}) or (g[1] == "Gt" and c == 1 and l == {"true"}) or (g[1] == "Lt" and c == 2 and l == {"false"}) or (g[1] == "Ge" and c == 2 and l == {"true"}):
                                ok = True
                    if ok:
                        r4.ok("refcount decremented only when > 1")
                    else:
                        r4.fail(root_name(prog, k), "refcount-underflow", "the watch refcount can be decremented when it is <= 1 (u32 underflow / premature unwatch)", kv.loc(bi))
    if not found:
        r4.unanalysable("kernel run_service_loop: refcount decrement not found")


def _loop_over_result(fv, b, call_block):
    """Block b lies in a loop entered after call_block whose iterator is built from a value defined by the call."""
    for h, body, backs in loops(fv):
        if b in body and call_block not in body and h in fv.reach_after(call_block):
            return True
    return False


def _closure_contains(prog, e):
    for x in walk(e):
        if isinstance(x, tuple) and x and x[0] == "agg" and x[1] == "closure":
            toks = fn_tokens(prog, x[2], depth=0)
            if any(re.search(r"HashSet::<[^>]*>::contains$", t) for t in toks):
                return True
    return False
