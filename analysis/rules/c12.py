"""C12 — RPKI origin validation follows RFC 6811 (structural clauses)."""
import re

from ..cfg import Renderer, walk, show, flat_guards, strip
from ..facts import callee_names, short
from ..util import view, crate_fns, root_name, field_writes, expr_calls, expr_vars, expr_fields

EXPLANATION = (
    "Static rules over RpkiTable in table/src/lib.rs: R12.1 'some VRP covers the route' needs an ancestor enumeration of the "
    "route's key — validate may query the trie with get / common_prefixes / a full iter, never with a descendant query "
    "(iter_prefix*, split_by_prefix) keyed on the route address, and keys it looks up must be built with the same scheme as "
    "insert/remove (address bytes followed by the length byte); R12.2 the classification guards: matched.push is reached only "
    "under route_len <= max_length, as_number != 0 and as_number == origin; Valid iff matched non-empty, Invalid iff matched "
    "empty and an unmatched list non-empty, default NotFound; the covering test itself (VRP prefix contains the route prefix) "
    "must be implied by the lookup; R12.3 insert's duplicate test and remove's retain test compare the same three fields; "
    "R12.4 the policy evaluator is handed the RPKI table whenever an assigned policy tests the state: needs_rpki is computed "
    "over the complete policy list of the assignment (shared with R14.6). "
    "Decides lookup direction and guard structure, not equality with RFC 6811 over all VRP sets.")
ASSUMPTIONS = [
    "patricia_tree::PatriciaMap: iter_prefix(k) yields keys having k as a prefix (descendants); common_prefixes(k) yields keys that are prefixes of k (ancestors); get(k) is exact",
]

DESC = re.compile(r"patricia_tree::.*::(iter_prefix|iter_prefix_mut|split_by_prefix)")
ANC = re.compile(r"patricia_tree::.*::(get|get_mut|common_prefixes|common_prefix_values|iter|get_longest_common_prefix|longest_common_prefix_len)")


def _trie_calls(fv):
    out = []
    for bi, t in fv.calls():
        for n in callee_names(t):
            if n.startswith("patricia_tree::"):
                out.append((bi, t, n))
                break
    return out


def cmp_rel(e, labels):
    """(lhs, rel, rhs) established by a comparison guard with the given outcome labels, or None."""
    if e[0] != "bin" or e[1] not in ("Lt", "Le", "Gt", "Ge", "Eq", "Ne"):
        return None
    op = {"Lt": "<", "Le": "<=", "Gt": ">", "Ge": ">=", "Eq": "==", "Ne": "!="}[e[1]]
    if labels == {"false"}:
        op = {"<": ">=", "<=": ">", ">": "<=", ">=": "<", "==": "!=", "!=": "=="}[op]
    elif labels != {"true"}:
        return None
    return (e[2], op, e[3])


def _flip(op):
    return {"<": ">", "<=": ">=", ">": "<", ">=": "<=", "==": "==", "!=": "!="}[op]


def _expand_named_tests(fv, guards):
    """Hoisted tests (`let length_ok = mask <= roa.max_length; let origin_ok = a != 0 && a == asn;`) stand for what they compute."""
    from ..util import var_def_expr, bool_true_requires
    out, seen = list(guards), set()
    work = list(guards)
    while work:
        g, labels, how = work.pop()
        if not (isinstance(g, tuple) and g and g[0] == "var" and set(labels) in ({"true"}, {"false"})) or (g[1], tuple(labels)) in seen:
            continue
        seen.add((g[1], tuple(labels)))
        d = var_def_expr(fv, g[1], depth=12)
        if d is not None and d != g:
            out.append((d, labels, how))
            work.append((d, labels, how))
            continue
        if set(labels) == {"true"}:
            # `a && b`: on the true side the last operand was evaluated (and was true) under the earlier ones
            for l_, n_ in fv.local_name.items():
                if n_ != g[1]:
                    continue
                for bi_, si_, st_ in fv.defs().get(l_, []):
                    if bi_ not in fv.live or si_ == "t":
                        continue
                    rv_ = st_["rv"]
                    if rv_["r"] == "use" and "k" in rv_["o"]:
                        continue
                    e_ = Renderer(fv, depth=12).rvalue(rv_, 12)
                    out.append((e_, {"true"}, how))
            for x in bool_true_requires(fv, g[1]):
                out.append(x)
                work.append(x)
    return out


def rels_for(fv, bi):
    out = []
    for g, labels, how in _expand_named_tests(fv, flat_guards(fv, bi)):
        r = cmp_rel(g, labels)
        if r:
            a, op, b = r
            out.append((a, op, b))
            out.append((b, _flip(op), a))
    return out


def has_rel(rels, lhs_field, ops, rhs_pred):
    for a, op, b in rels:
        if lhs_field in expr_fields(a) and op in ops and rhs_pred(b):
            return True
    return False


def run(prog, rep, tier):
    vk = prog.one(r"rustybgp_table::RpkiTable::validate")
    fv = view(prog, vk)
    bodies = [view(prog, k) for k in prog.with_closures(vk)]

    r1 = rep.rule("R12.1", "validate enumerates covering (ancestor) VRPs: no descendant trie query on the route key; keys built like insert/remove")
    r1.analysed(fv.name)
    tcalls = [(b, bi, t, n) for b in bodies for bi, t, n in _trie_calls(b)]
    if not tcalls:
        r1.unanalysable("RpkiTable::validate makes no trie query", fv.loc())
    n_anc = 0
    for b, bi, t, n in tcalls:
        meth = n.split("::")[-1]
        if DESC.fullmatch(n):
            key = Renderer(b, depth=25, through_names=True).operand(t["args"][1], 25) if len(t["args"]) > 1 else None
            r1.fail(fv.name, "descendant-query:" + meth,
                    "the trie is queried with %s (yields VRPs whose key *extends* the route's address bytes: more-specific and sibling prefixes) "
                    "keyed on %s; VRPs covering the route with a shorter prefix whose remaining key bytes differ are never visited"
                    % (meth, show(key, 90) if key else "?"), b.loc(bi))
        elif ANC.fullmatch(n):
            n_anc += 1
            r1.ok("validate: trie query %s" % meth)
        elif meth in ("is_empty", "len"):
            r1.ok("validate: trie %s()" % meth)
        else:
            r1.unanalysable("RpkiTable::validate uses unmodelled trie API %s" % n, b.loc(bi))
    if tcalls and n_anc == 0 and not any(DESC.fullmatch(n) for _, _, _, n in tcalls):
        r1.unanalysable("RpkiTable::validate has no ancestor-capable trie query", fv.loc())
    # key scheme agreement between insert / remove (and validate when it uses get)
    schemes = {}
    for m in ("insert", "remove", "validate"):
        k = prog.one(r"rustybgp_table::RpkiTable::" + m)
        toks = set()
        for kk in prog.with_closures(k):
            b = view(prog, kk)
            for bi, t in b.calls():
                names = callee_names(t)
                if any(re.search(r"Vec::<T, A>::push$", n) for n in names) and "[u8" in t["f"].get("ga", ""):
                    e = Renderer(b, depth=30, through_names=True).operand(t["args"][1], 30)
                    # the trailing key byte is a prefix length: the net's mask (also as the third field of the
                    # destructured (family, bytes, mask) tuple) or a length iterated over 0..=mask
                    txt = show(e, 400)
                    is_len = "mask" in expr_fields(e) or "mask" in expr_vars(e) or "m" in expr_vars(e) or re.fullmatch(r"_\d+\.2", txt) \
                        or ("Iterator::next" in txt and re.search(r"RangeInclusive::(<\w+>::)?new\(0, (mask|_\d+\.2)\)", txt))
                    toks.add("push:" + ("prefix-length" if is_len else show(e, 30)))
                if any(re.search(r"::octets$", n) for n in names):
                    toks.add("octets")
        schemes[m] = toks
    if schemes["insert"] != schemes["remove"] or "octets" not in schemes["insert"] or not any(t.startswith("push:") for t in schemes["insert"]):
        r1.fail("rustybgp_table::RpkiTable::insert", "key-scheme", "insert and remove build trie keys differently: %s vs %s" % (sorted(schemes["insert"]), sorted(schemes["remove"])), "table/src/lib.rs")
    else:
        r1.ok("insert/remove key scheme: %s" % sorted(schemes["insert"]))
    uses_get = any(n.split("::")[-1] in ("get", "get_mut") for _, _, _, n in tcalls)
    if uses_get:
        # exact-key lookup of covering prefixes: the key for length L is the route's address with the bits beyond L cleared,
        # i.e. each byte is AND-ed with a mask made of *leading* ones (0xff << (8 - bits)); anything else looks up a sibling
        masks = []
        for b in bodies:
            for bi in sorted(b.live):
                for s_ in b.blocks[bi]["s"]:
                    rv = s_.get("rv")
                    if rv and rv["r"] == "bin" and rv["op"] in ("Shl", "Shr", "ShlUnchecked", "ShrUnchecked"):
                        a = rv["a"]
                        if (a.get("k") or {}).get("v") == 255:
                            masks.append((b, bi, rv["op"]))
        ands = sum(1 for b in bodies for bi in b.live for s_ in b.blocks[bi]["s"] if s_.get("rv") and s_["rv"]["r"] == "bin" and s_["rv"]["op"] == "BitAnd")
        ands += sum(1 for b in bodies for bi, t_ in b.calls(re.compile(r".*BitAnd(<.*>)?(>)?::bitand$|.*BitAndAssign.*::bitand_assign$")))
        if not masks or not ands:
            r1.unanalysable("validate: the masking of the lookup key (byte &= 0xff << (8 - bits)) was not recognised", fv.loc())
        elif all(op.startswith("Shl") for _, _, op in masks):
            r1.ok("validate: lookup keys keep the leading bits of each byte (0xff << ..)")
        else:
            bb, bbi, op = [m for m in masks if not m[2].startswith("Shl")][0]
            r1.fail(fv.name, "key-mask-direction", "the lookup key is masked with 0xff >> ..: that keeps the trailing bits of the byte, so prefix lengths that are not a multiple of 8 look up the wrong prefix "
                    "(covering VRPs missed, sibling prefixes matched)", bb.loc(bbi))
    if uses_get:
        if schemes["validate"] >= schemes["insert"]:
            r1.ok("validate builds exact keys with the insert/remove scheme")
        else:
            r1.fail(fv.name, "key-scheme-validate", "validate looks up exact keys built as %s, insert uses %s" % (sorted(schemes["validate"]), sorted(schemes["insert"])), fv.loc())

    # ---------------------------------------------------------------- R12.2
    r2 = rep.rule("R12.2", "classification guards of validate: matched / unmatched pushes and the state assignments")
    r2.analysed(fv.name)
    LISTS = ("matched", "unmatched_asn", "unmatched_length")
    # which list is which: a field of the RpkiValidation under construction, or a local that is moved into that field
    # when the result is built at the end
    roles = {}
    for b in bodies:
        for bi, si, s in b.aggregates(re.compile(r"rustybgp_table::RpkiValidation$")):
            fnm = s["rv"].get("fn") or []
            for i, fo in enumerate(s["rv"]["fields"]):
                q = fo.get("c") or fo.get("m")
                if q is not None and not q.get("p") and i < len(fnm) and fnm[i] in LISTS:
                    # the operand and every local it was moved from
                    work, seen_l = [q["l"]], set()
                    while work:
                        l_ = work.pop()
                        if l_ in seen_l:
                            continue
                        seen_l.add(l_)
                        roles[(b.key, l_)] = fnm[i]
                        for bi2, si2, s2 in b.defs().get(l_, []):
                            if si2 != "t" and s2["rv"]["r"] == "use":
                                q2 = s2["rv"]["o"].get("c") or s2["rv"]["o"].get("m")
                                if q2 is not None and not q2.get("p"):
                                    work.append(q2["l"])

    def place_role(b, p, depth=4):
        for e in p.get("p") or []:
            if isinstance(e, dict) and e.get("n") in LISTS:
                return e["n"]
        if (b.key, p["l"]) in roles:
            return roles[(b.key, p["l"])]
        if depth <= 0:
            return None
        for bi, si, s in b.defs().get(p["l"], []):
            if si == "t":
                # Deref::deref / as_ref style accessors: look at the receiver
                for a in s.get("args", [])[:1]:
                    q = a.get("c") or a.get("m")
                    if q is not None:
                        r_ = place_role(b, q, depth - 1)
                        if r_:
                            return r_
                continue
            rv = s["rv"]
            q = rv.get("p") if rv["r"] in ("ref", "rawptr") else ((rv.get("o") or {}).get("c") or (rv.get("o") or {}).get("m") if rv["r"] in ("use", "cast") else None)
            if q is not None:
                r_ = place_role(b, q, depth - 1)
                if r_:
                    return r_
        return None

    def operand_role(b, o):
        q = o.get("c") or o.get("m")
        return place_role(b, q) if q is not None else None

    def selected_lists(b, o, depth=4):
        """`let bucket = match (..) { .. => &mut result.matched, .. => &mut result.unmatched_asn, .. }; bucket.push(x)`: the receiver
        is one of several lists, chosen where the reference is taken -- [(list, block that selects it)]."""
        out, seen_l = [], set()
        q = o.get("c") or o.get("m")
        work = [(q["l"], depth)] if q is not None else []
        while work:
            l_, d_ = work.pop()
            if l_ in seen_l or d_ <= 0:
                continue
            seen_l.add(l_)
            for bi2, si2, s2 in b.defs().get(l_, []):
                if bi2 not in b.live or si2 == "t":
                    continue
                rv2 = s2["rv"]
                if rv2["r"] in ("ref", "rawptr"):
                    nm_ = [e.get("n") for e in rv2["p"].get("p") or [] if isinstance(e, dict) and e.get("n") in LISTS]
                    if nm_:
                        out.append((nm_[0], bi2))
                    else:
                        work.append((rv2["p"]["l"], d_ - 1))
                elif rv2["r"] in ("use", "cast"):
                    q2 = rv2["o"].get("c") or rv2["o"].get("m")
                    if q2 is not None:
                        work.append((q2["l"], d_ - 1))
        return out

    pushes = {}
    for b in bodies:
        for bi, t in b.calls(re.compile(r".*Vec::<T, A>::push")):
            sel = selected_lists(b, t["args"][0])
            if len({x for x, _ in sel}) >= 2:
                for f, sb in sel:
                    pushes.setdefault(f, []).append((b, sb))
                continue
            f = operand_role(b, t["args"][0])
            if f:
                pushes.setdefault(f, []).append((b, bi))
    for f in ("matched", "unmatched_asn", "unmatched_length"):
        if f not in pushes:
            r2.unanalysable("validate never pushes to result.%s" % f, fv.loc())
    is_zero = lambda x: x[0] == "const" and x[1] == 0
    is_origin = lambda x: x[0] != "const" and "as_number" not in expr_fields(x)
    # the quantity compared with max_length must be the *route's* prefix length (`mask`, taken from the NLRI), not the
    # covering VRP's own length the lookup loop iterates over
    def _place_from_mask(b_, q_, depth=6):
        """The place is (a copy of) an NLRI prefix length: following copies, casts and tuples built and taken apart again leads
        to a place with a field called `mask`."""
        if q_ is None or depth <= 0:
            return False
        proj = q_.get("p") or []
        if any(isinstance(e_, dict) and e_.get("n") == "mask" for e_ in proj):
            return True
        idx = [e_.get("f") for e_ in proj if isinstance(e_, dict) and "f" in e_]
        for bi_, si_, st_ in b_.defs().get(q_["l"], []):
            if si_ == "t" or (st_["p"].get("p") and not proj):
                continue
            rv_ = st_["rv"]
            if rv_["r"] in ("use", "cast"):
                q2 = rv_["o"].get("c") or rv_["o"].get("m")
                if q2 is not None:
                    q3 = {"l": q2["l"], "p": (q2.get("p") or []) + [e_ for e_ in proj if isinstance(e_, dict) and "f" in e_]} if proj else q2
                    if _place_from_mask(b_, q3, depth - 1):
                        return True
            elif rv_["r"] == "agg" and rv_.get("k") == "tuple" and idx and idx[0] < len(rv_["fields"]):
                f_ = rv_["fields"][idx[0]]
                q2 = f_.get("c") or f_.get("m")
                if q2 is not None and _place_from_mask(b_, q2, depth - 1):
                    return True
        return False

    def _from_mask(b_, name, depth=6):
        return any(_place_from_mask(b_, {"l": l_}, depth) for l_, n_ in b_.local_name.items() if n_ == name)
    not_maxlen = lambda x: "max_length" not in expr_fields(x) and ("mask" in expr_vars(x) or "mask" in expr_fields(x) or any(_from_mask(bb_, v_) for bb_ in bodies for v_ in expr_vars(x)))
    for b, bi in pushes.get("matched", []):
        rels = rels_for(b, bi)
        probs = []
        if not has_rel(rels, "max_length", (">=",), not_maxlen):
            probs.append("route length <= max_length")
        if not has_rel(rels, "as_number", ("!=",), is_zero):
            probs.append("as_number != 0")
        if not has_rel(rels, "as_number", ("==",), is_origin):
            probs.append("as_number == origin AS")
        if probs:
            r2.fail(fv.name, "matched-guard:" + "+".join(p.split()[0] for p in probs), "a VRP is counted as matching without the test(s): " + "; ".join(probs), b.loc(bi))
        else:
            r2.ok("matched.push under len<=max_length ∧ as_number≠0 ∧ as_number=origin")
    for b, bi in pushes.get("unmatched_asn", []):
        rels = rels_for(b, bi)
        if has_rel(rels, "max_length", (">=",), not_maxlen):
            r2.ok("unmatched_asn.push under len<=max_length")
        else:
            r2.fail(fv.name, "unmatched_asn-guard", "unmatched_asn is filled without the length test", b.loc(bi))
    for b, bi in pushes.get("unmatched_length", []):
        rels = rels_for(b, bi)
        if has_rel(rels, "max_length", ("<",), not_maxlen):
            r2.ok("unmatched_length.push under len>max_length")
        else:
            r2.fail(fv.name, "unmatched_length-guard", "unmatched_length is filled on the wrong side of the length test", b.loc(bi))
    # state decision table: on every entry->return path the state that ends up in the result agrees with the emptiness
    # tests of the three lists taken on that path (flag / field writes / tuple-then-build spellings alike)
    from ..paths import enumerate_paths, PathLimit
    try:
        paths = enumerate_paths(fv, Renderer(fv, depth=10), max_paths=20000)
    except PathLimit:
        paths = None
        r2.unanalysable("validate: too many paths for the state decision table", fv.loc())
    seen = {"Valid": 0, "Invalid": 0, "NotFound": 0}
    bad = {}
    for conds, blocks, env in (paths or []):
        st_ = [v for k_, v in env.items() if k_[0] == 0 and k_[1] and k_[1][-1] == "state"]
        if not st_:
            continue             # the None return (no table for the family) or a path that builds no result
        state = st_[0]
        facts = {}
        for br, labels in conds:
            e = br.expr
            if br.bi not in fv.blocks and False:
                continue
            t_ = fv.blocks[br.bi]["t"]
            # the switch operand is the bool result of an is_empty call: find that call
            o = t_["o"]
            q = o.get("c") or o.get("m")
            neg = False
            call = None
            steps = 0
            while q is not None and steps < 4 and call is None:
                steps += 1
                ds = [d for d in fv.defs().get(q["l"], []) if d[0] in fv.live]
                if len(ds) != 1:
                    break
                bi2, si2, s2 = ds[0]
                if si2 == "t":
                    call = s2
                elif s2["rv"]["r"] == "un" and s2["rv"].get("op") == "Not":
                    neg = not neg
                    q = s2["rv"]["a"].get("c") or s2["rv"]["a"].get("m")
                elif s2["rv"]["r"] == "use":
                    q = s2["rv"]["o"].get("c") or s2["rv"]["o"].get("m")
                else:
                    break
            if call is None or not any(n.endswith("::is_empty") for n in callee_names(call)) or len(labels) != 1:
                continue
            role = operand_role(fv, call["args"][0])
            if not role:
                continue
            val = (labels == frozenset({"true"}))
            if fv.blocks[br.bi]["t"]["ty"] == "bool" and neg:
                val = not val
            facts.setdefault(role, "empty" if val else "nonempty")
        if state in seen:
            seen[state] += 1
        ok = True
        if state == "Valid":
            ok = facts.get("matched") == "nonempty"
        elif state == "Invalid":
            ok = facts.get("matched") == "empty" and (facts.get("unmatched_asn") == "nonempty" or facts.get("unmatched_length") == "nonempty")
        elif state == "NotFound":
            ok = all(facts.get(f, "empty") == "empty" for f in LISTS)
        else:
            bad.setdefault("state-not-literal", (state, facts))
            continue
        if not ok:
            bad.setdefault({"Valid": "valid-guard", "Invalid": "invalid-guard", "NotFound": "default-state"}[state], (state, facts))
    if paths is not None:
        for key_, (state, facts) in sorted(bad.items()):
            r2.fail(fv.name, key_, "the result's state is %s on a path where %s (Valid needs matched non-empty; Invalid needs matched empty and an unmatched list non-empty; "
                    "NotFound needs all three empty)" % (state, sorted(facts.items())), fv.loc())
        if not bad and seen["Valid"] and seen["Invalid"] and seen["NotFound"]:
            r2.ok("validate: state is Valid / Invalid / NotFound exactly as the emptiness of matched / unmatched_asn / unmatched_length says (%d / %d / %d paths)" % (seen["Valid"], seen["Invalid"], seen["NotFound"]))
        elif not bad:
            r2.unanalysable("validate: Valid/Invalid/NotFound results found on %d/%d/%d paths" % (seen["Valid"], seen["Invalid"], seen["NotFound"]), fv.loc())
    # origin derivation: the route's origin AS is as_path_origin() of its AS_PATH, else the *local* AS of the session (a route
    # without an AS_SEQUENCE tail originates here); the neighbour's AS is never the fallback
    flds_ = set()
    for b in bodies:
        for bi_ in b.live:
            for st_ in b.blocks[bi_]["s"]:
                if "rv" in st_:
                    flds_ |= {x for x in expr_fields(Renderer(b, depth=4).rvalue(st_["rv"], 4)) if x in ("remote_asn", "local_asn")}
    if "remote_asn" in flds_:
        r2.fail(fv.name, "origin-fallback", "validate reads Source.remote_asn: a route whose AS_PATH has no AS_SEQUENCE tail (or no AS_PATH) originates at the local AS; comparing the "
                "neighbour's AS instead turns Invalid routes into Valid ones on eBGP sessions", fv.loc())
    elif "local_asn" in flds_:
        r2.ok("origin AS falls back to the session's local AS")
    else:
        r2.unanalysable("validate: no fallback origin AS (Source.local_asn) read", fv.loc())
    toks = {c for b in bodies for c in sum(([n for n in callee_names(t)] for _, t in b.calls()), [])}
    if any(c.endswith("Attribute::as_path_origin") for c in toks):
        r2.ok("origin AS derived with Attribute::as_path_origin")
    else:
        r2.fail(fv.name, "origin-derivation", "the origin AS is not derived with as_path_origin", fv.loc())

    # ---------------------------------------------------------------- R12.3
    r3 = rep.rule("R12.3", "insert's duplicate test and remove's retain test compare the same identity fields; the purge of a cache's VRPs skips none")
    # a reset installs the cache's new set over its old one, and only over its old one (shared with R13.1)
    from . import c13 as _c13
    _c13.check_reset_scope(prog, r3)
    from ..util import remove_while_indexing
    dsv = view(prog, prog.one(r"rustybgp_table::RpkiTable::drop_source"))
    r3.analysed(dsv.name)
    for rb, il, bad in remove_while_indexing(dsv):
        if bad is None:
            r3.ok("drop_source: the index is not advanced after Vec::remove(i)")
        else:
            r3.fail(dsv.name, "remove-then-advance", "drop_source advances the index (line %d) right after removing element i: VRPs of a dropped cache survive and keep validating routes" % dsv.line(bad), dsv.loc(rb))
    check_vrp_identity(prog, r3)

    # ---------------------------------------------------------------- R12.4
    # The policy evaluator sees an RFC 6811 state only when the assignment's needs_rpki flag is set (without the table every
    # Condition::Rpki is false while the API still reports the state): the flag must cover the complete list (shared with R14.6).
    r4 = rep.rule("R12.4", "the RPKI table reaches policy evaluation whenever an assigned policy tests the validation state: needs_rpki is computed over the complete policy list")
    from . import c14 as _c14
    _c14.check_needs_rpki(prog, r4)


def check_vrp_identity(prog, r3):
    """A VRP is identified by (cache, max-length, AS): insert's duplicate test, remove's retain test and drop_source agree."""
    sets = {}
    for m in ("insert", "remove"):
        k = prog.one(r"rustybgp_table::RpkiTable::" + m)
        fields = set()
        for kk in prog.with_closures(k):
            b = view(prog, kk)
            rend = Renderer(b, depth=8)
            for bi in sorted(b.live):
                for s in b.blocks[bi]["s"]:
                    rv = s.get("rv")
                    if rv and rv["r"] == "bin" and rv["op"] in ("Eq", "Ne"):
                        e = rend.rvalue(rv, 8)
                        for f in expr_fields(e):
                            if f in ("max_length", "as_number", "source"):
                                fields.add(f)
                t = b.blocks[bi]["t"]
                if t["t"] == "call" and any(n.endswith("Arc::<T, A>::ptr_eq") for n in callee_names(t)):
                    for a in t["args"]:
                        for f in expr_fields(rend.operand(a, 8)):
                            if f == "source":
                                fields.add("source(ptr)")
        sets[m] = fields
        r3.analysed("rustybgp_table::RpkiTable::" + m)
    want = {"max_length", "as_number", "source(ptr)"}
    for m in ("insert", "remove"):
        if sets[m] >= want:
            r3.ok("%s compares %s" % (m, sorted(sets[m])))
        else:
            r3.fail("rustybgp_table::RpkiTable::" + m, "identity-fields", "%s identifies a VRP by %s; the set key is (cache, max-length, AS) = %s" % (m, sorted(sets[m]), sorted(want)), "table/src/lib.rs")
    # RpkiTable::remove keeps every VRP except the one named: the retain closure returns false exactly when cache identity,
    # max-length and AS all match (truth table over the three comparisons, whatever the boolean spelling)
    from .. import predicates
    rk_ = prog.one(r"rustybgp_table::RpkiTable::remove")
    clos = [c for c in prog.with_closures(rk_) if c != rk_ and any(re.search(r"Arc::<T, A>::ptr_eq$", x["f"].get("name", "")) for x in prog.ix[c]["calls"])]

    def cls_id(e, labels, fvx):
        lab = set(labels)
        if len(lab) != 1 or not lab <= {"true", "false"}:
            return None
        t_ = lab == {"true"}
        if e[0] == "call" and e[1].endswith("Arc::<T, A>::ptr_eq"):
            return ("same_cache", t_)
        if e[0] == "bin" and e[1] in ("Eq", "Ne"):
            fl = set(expr_fields(e))
            if "max_length" in fl:
                return ("same_maxlen", t_ == (e[1] == "Eq"))
            if "as_number" in fl:
                return ("same_as", t_ == (e[1] == "Eq"))
        return None
    if len(clos) != 1:
        r3.unanalysable("RpkiTable::remove: expected one closure comparing the VRP identity, found %d" % len(clos))
    else:
        rws, cv = predicates.rows(prog, clos[0], cls_id)
        if rws is None:
            r3.unanalysable("RpkiTable::remove: retain predicate has too many paths", cv.loc())
        else:
            bad = predicates.counterexamples(rws, ["same_cache", "same_maxlen", "same_as"], lambda v: not (v["same_cache"] and v["same_maxlen"] and v["same_as"]))
            unk = sorted({u for f_, res_, us in rws for u in us})
            if unk:
                r3.unanalysable("RpkiTable::remove: retain predicate has conditions that are not identity comparisons: %s" % [u[0] for u in unk][:2], cv.loc())
            elif bad:
                kind, v, res_ = bad[0]
                r3.fail("rustybgp_table::RpkiTable::remove", "retain-predicate", "a VRP with (same cache, same max-length, same AS) = (%s, %s, %s) is %s by the withdrawal of another: only the VRP that "
                        "matches on all three may go" % (v.get("same_cache"), v.get("same_maxlen"), v.get("same_as"), "kept" if res_ else "removed") if kind == "mismatch" else "a path's result could not be read", cv.loc())
            else:
                r3.ok("remove: the retain predicate drops exactly the VRP that matches on cache identity, max-length and AS (%d paths)" % len(rws))
    # drop_source matches by the same source identity
    dk = prog.one(r"rustybgp_table::RpkiTable::drop_source")
    dfv = view(prog, dk)
    if any(any(n.endswith("Arc::<T, A>::ptr_eq") for n in callee_names(t)) for kk in prog.with_closures(dk) for _, t in view(prog, kk).calls()):
        r3.ok("drop_source matches by Arc identity of the cache address (same identity insert/remove use)")
    else:
        r3.fail(dfv.name, "drop-identity", "drop_source does not match VRPs by the cache identity used by insert/remove", dfv.loc())

