EXPLANATION = "stub"
ASSUMPTIONS = []
def check_current_paths(prog, r):
    r.note("pending")
def run(prog, rep, tier):
    pass
