"""C06 — the RIB's change stream reproduces the RIB (structural clauses)."""
import re

from ..cfg import FnView, Renderer, walk, show, strip, branches, guards_of, flat_guards, norm_cond, bool_edges
from ..facts import callee_names, short
from ..util import view, crate_fns, root_name, agg_field, expr_calls, expr_fields, expr_vars, field_writes, last_field, field_path

EXPLANATION = (
    "Static rules over table/src/lib.rs MIR: R06.1 every NlriChange construction takes current_paths from "
    "Destination::unfiltered_iter (or an empty Vec) — the ranked list consumers fold must exclude FILTERED and "
    "NEXTHOP_INVALID entries; R06.2 in every mutator the 'old best' read dominates all mutations of the entry list and no "
    "mutation lies between the 'new best' read and the emitted change; R06.3 destination ids: alloc only when a Destination is "
    "created and every path from that creation to a return stores an entry, every removal from Rib.destinations releases the id "
    "(direct dealloc, or the freed_ids idiom drained into dealloc); R06.4 while deferring, insert returns NoChange only after "
    "storing the entry, end_deferral clears the flag and returns collect_loc_rib_paths on every path, which skips no "
    "destination that has an eligible path. Decides these necessary conditions, not fold(stream) == RIB over histories.")
ASSUMPTIONS = [
    "std HashMap::retain removes exactly the keys for which the closure returns false",
    "Vec<RibEntry> methods taking &mut self are the only way to mutate Destination.entry (field private to the module)",
]

NLRI_CHANGE = re.compile(r"rustybgp_table::NlriChange")
ENTRY_MUT = re.compile(r"(alloc::vec::Vec::<T, A>::|std::vec::Vec::<T, A>::)(remove|insert|retain|retain_mut|push|clear|swap_remove|truncate|drain|pop|append|dedup_by|sort)"
                       r"|.*slice::<impl \[T\]>::(sort|sort_unstable|sort_by|sort_unstable_by|sort_by_key|reverse|swap)"
                       r"|rustybgp_table::RibEntry::set_nexthop_invalid|rustybgp_table::RibEntry::set_filtered"
                       r"|rustybgp_table::Source::(mark_stale|mark_llgr_stale|clear_llgr_stale)")


def _is_entry_mut(t):
    names = callee_names(t)
    if not any(ENTRY_MUT.fullmatch(n) for n in names):
        return False
    if any(n.startswith("rustybgp_table::") for n in names):
        return True
    return "RibEntry" in t["f"].get("ga", "")


def nlri_change_sites(prog):
    out = []
    for k in crate_fns(prog, "rustybgp_table"):
        if "rustybgp_table::NlriChange" not in " ".join(prog.ix[k].get("aggs", [])):
            continue
        fv = view(prog, k)
        for bi, si, s in fv.aggregates(NLRI_CHANGE):
            if s.get("x"):
                continue    # derive(Clone) and other expansions
            out.append((fv, bi, si, s))
    return out


def check_current_paths(prog, r):
    sites = nlri_change_sites(prog)
    for fv, bi, si, s in sites:
        r.analysed(root_name(prog, fv.key))
        op = agg_field(s, "current_paths")
        rend = Renderer(fv, depth=40, through_names=True)
        e = rend.operand(op, 40)
        calls = expr_calls(e)
        where = "%s" % short(root_name(prog, fv.key))
        if any(c.endswith("Destination::unfiltered_iter") for c in calls):
            r.ok("%s: current_paths <- unfiltered_iter" % where)
            continue
        src = [c for c in calls if re.search(r"::(iter|iter_mut|into_iter|values|drain)$", c)]
        if not src and any(re.search(r"Vec::<T>::new|vec::from_elem|Vec::<T, A>::new", c) or c.endswith("::new") for c in calls) and not expr_fields(e):
            r.ok("%s: current_paths <- empty Vec" % where)
            continue
        flds = [f for f in expr_fields(e) if f in ("entry",)]
        hasfilter = any(c.endswith("Iterator::filter") for c in calls)
        desc = "current_paths<-%s%s" % (".".join(flds) or "?", "+custom-filter" if hasfilter else "")
        r.fail(root_name(prog, fv.key), desc,
               "NlriChange.current_paths is built from %s, not from Destination::unfiltered_iter: entries flagged NEXTHOP_INVALID (or FILTERED) "
               "can be announced as best/add-path paths" % show(e, 110), fv.loc(bi))
    r.floor("NlriChange constructions", len(sites), 15)


def run(prog, rep, tier):
    r1 = rep.rule("R06.1", "NlriChange.current_paths derives from Destination::unfiltered_iter or an empty Vec")
    check_current_paths(prog, r1)
    r2 = rep.rule("R06.2", "old-best read dominates every mutation; no mutation between new-best read and the emitted change")
    check_bracketing(prog, r2)
    r3 = rep.rule("R06.3", "destination id lifecycle: alloc => entry stored; removal => id released")
    check_ids(prog, r3)
    r4 = rep.rule("R06.4", "deferral: NoChange only after the entry is stored; end_deferral clears the flag and re-emits everything")
    check_deferral(prog, r4)
    r5 = rep.rule("R06.5", "every best-path read uses the full eligibility predicate (not filtered and next hop valid), before and after the mutation alike")
    check_best_predicate(prog, r5)
    r6 = rep.rule("R06.6", "Table::insert reports any_changed when a visible path is added or a visible path is replaced")
    check_insert_any_changed(prog, r6)
    r7 = rep.rule("R06.7", "a change with any_changed set is emitted whether or not the best path changed")
    check_emission_guard(prog, r7)
    r8 = rep.rule("R06.8", "a purge reports a change for a prefix exactly when it removes a path that selection could see (removed by its retain, not filtered, next hop valid)")
    check_purge_visibility(prog, r8)


# ---------------------------------------------------------------------------------------------- R06.5
def check_best_predicate(prog, r):
    """`best_changed` compares a read of the best path before the mutation with one after it.  Both reads must select
    by the same predicate the selection itself uses: Destination::unfiltered_best, or a `find` whose closure tests
    both is_filtered and is_nexthop_invalid.  (A read that accepts a next-hop-invalid entry as "old best" makes the
    comparison miss the moment that entry becomes eligible again.)"""
    n = 0
    for k in crate_fns(prog, "rustybgp_table"):
        ix = prog.ix[k]
        if not any(a.endswith("NlriChange") for a in ix.get("aggs", [])) and not any("NlriChange" in a for a in ix.get("aggs", [])):
            continue
        fv = view(prog, k)
        for bi, t in fv.calls(re.compile(r".*Iterator::find$")):
            if "RibEntry" not in t["f"].get("ga", ""):
                continue
            ck = None
            for a in t["args"]:
                p = a.get("m") or a.get("c")
                if p and not p.get("p") and "{closure@" in fv.f["locals"][p["l"]]:
                    for b2, si, s in fv.defs().get(p["l"], []):
                        if si != "t" and s["rv"]["r"] == "agg" and s["rv"].get("k") == "closure":
                            ck = s["rv"]["def"]
            if not ck:
                continue
            callees = {prog.name(c) for c in prog.callees(ck) if c in prog.ix}
            if not any(c.endswith("RibEntry::is_filtered") for c in callees):
                continue                      # not an eligibility search (e.g. lookup by path id)
            n += 1
            r.analysed(root_name(prog, k))
            if any(c.endswith("RibEntry::is_nexthop_invalid") for c in callees):
                r.ok("%s@%d: best read tests is_filtered and is_nexthop_invalid" % (short(root_name(prog, k)), fv.line(bi)))
            else:
                r.fail(root_name(prog, k), "best-read-ignores-nexthop-validity@%s" % _which_read(fv, bi),
                       "the best-path read at line %d selects the first entry that is not filtered but accepts a next-hop-invalid one: "
                       "best_changed then compares against an entry that was never the selected best" % fv.line(bi), fv.loc(bi))
    # reads through Destination::unfiltered_best use the selection's own predicate by construction; the floor counts both forms
    m = 0
    for k in crate_fns(prog, "rustybgp_table"):
        if "::tests::" in prog.ix[k]["name"] or not any("NlriChange" in a for a in prog.ix[k].get("aggs", [])):
            continue
        m += sum(1 for c in prog.ix[k]["calls"] if (c["f"].get("rname") or c["f"].get("name") or "").endswith("Destination::unfiltered_best"))
    r.floor("best-path reads (unfiltered_best or eligibility find) in functions that build an NlriChange", n + m, 14)


def _which_read(fv, bi):
    """Name of the variable the read ends up in (old_best_key / new_best_key), for a stable violation key."""
    t = fv.blocks[bi]["t"]
    seen = {t["dest"]["l"]}
    for b in sorted(fv.reach_after(bi) | {t.get("to")}):
        if b is None or b not in fv.live:
            continue
        for s in fv.blocks[b]["s"]:
            rv = s.get("rv")
            if rv and rv["r"] == "use":
                p = rv["o"].get("m") or rv["o"].get("c")
                if p and p["l"] in seen:
                    seen.add(s["p"]["l"])
        tt = fv.blocks[b]["t"]
        if tt["t"] == "call" and any((a.get("m") or a.get("c") or {}).get("l") in seen for a in tt.get("args", [])) and tt.get("dest"):
            seen.add(tt["dest"]["l"])
        for l in sorted(seen):
            nm = fv.local_name.get(l)
            if nm and "best" in nm:
                return nm
    return "?"


def _arg_locals(t):
    out = set()
    for a in t.get("args", []):
        q = a.get("c") or a.get("m")
        if q:
            out.add(q["l"])
    return out


# ---------------------------------------------------------------------------------------------- R06.6
def check_insert_any_changed(prog, r):
    fv = view(prog, prog.one(r"rustybgp_table::Table::insert"))
    r.analysed(fv.name)
    ls = [l for l, nme in fv.local_name.items() if nme == "any_changed"]
    if not ls:
        r.unanalysable("Table::insert has no `any_changed` local", fv.loc())
        return
    rend = Renderer(fv, depth=12, through_names=True)
    for l in ls:
        for bi, si, s in fv.defs().get(l, []):
            if bi not in fv.live:
                continue
    # the value of any_changed: union of the expressions of all its definitions (|| is lowered to several assignments)
    new_side = old_side = False
    for l in ls:
        for bi, si, s in fv.defs().get(l, []):
            if bi not in fv.live:
                continue
            e = rend.rvalue(s["rv"], 12) if si != "t" else rend.call_expr(fv.blocks[bi]["t"], 12, bi)
            vs, cs = set(expr_vars(e)), set(expr_calls(e))
            gs = flat_guards(fv, bi)
            for g, lab, how in gs:
                vs |= set(expr_vars(g))
                cs |= set(expr_calls(g))
            if "filtered" in vs:
                new_side = True
            for x in list(walk(e)) + [y for g, lab, how in gs for y in walk(g)]:
                if isinstance(x, tuple) and x and x[0] == "agg" and x[1] == "closure" and x[2] in prog.ix:
                    if any(prog.name(c).endswith("RibEntry::is_filtered") for c in prog.callees(x[2]) if c in prog.ix):
                        old_side = True
            if any(c.endswith("RibEntry::is_filtered") for c in cs) and "replaced" in vs:
                old_side = True
    if new_side and not old_side:
        # the replaced entry's visibility may reach any_changed through other locals (a tuple built by a `match replaced {..}`):
        # follow the definitions backwards through copies, tuple fields and several definitions
        plain = Renderer(fv, depth=6)
        seen_l, work = set(), list(ls)
        hops = 0
        while work and hops < 40:
            hops += 1
            l = work.pop()
            if l in seen_l:
                continue
            seen_l.add(l)
            for bi, si, s in fv.defs().get(l, []):
                if bi not in fv.live:
                    continue
                t_ = fv.blocks[bi]["t"]
                if si == "t":
                    if any(n.endswith("RibEntry::is_filtered") for n in callee_names(t_)):
                        e_arg = rend.operand(t_["args"][0], 12)
                        if "replaced" in expr_vars(e_arg) or "replaced" in show(e_arg, 300) or any("RibEntry" in fv.f["locals"][x] and "Option" in fv.f["locals"][x] for x in _arg_locals(t_)):
                            old_side = True
                    for a in t_["args"]:
                        q = a.get("c") or a.get("m")
                        if q:
                            work.append(q["l"])
                    continue
                def _ls(x, out):
                    if isinstance(x, dict):
                        if isinstance(x.get("l"), int):
                            out.add(x["l"])
                        for v in x.values():
                            _ls(v, out)
                    elif isinstance(x, list):
                        for v in x:
                            _ls(v, out)
                o = set()
                _ls(s["rv"], o)
                work += list(o)
    if new_side and old_side:
        r.ok("Table::insert: any_changed depends on the new path's visibility and on the replaced path's")
    else:
        r.fail(fv.name, "any_changed-misses-%s" % ("replaced-visible-path" if new_side else "new-visible-path"),
               "any_changed in Table::insert does not depend on %s: replacing a visible non-best path by a filtered one (or the reverse) produces NoChange, "
               "so add-path consumers keep a path the RIB no longer exports" % ("the visibility of the entry being replaced" if new_side else "the visibility of the new path"), fv.loc())


# ---------------------------------------------------------------------------------------------- R06.2
BEST_READ = re.compile(r"rustybgp_table::Destination::unfiltered_best|.*Iterator::find")


def _nlri_change_sites_deep(prog):
    """As nlri_change_sites, on the deep view (closures called directly expanded in place): `let best_key = |d| d.unfiltered_best()..;
    let old = best_key(dst); ..; old != best_key(dst)` reads like two written-out reads."""
    from ..util import view_deep
    out = []
    for k in crate_fns(prog, "rustybgp_table"):
        if "rustybgp_table::NlriChange" not in " ".join(prog.ix[k].get("aggs", [])):
            continue
        fv = view_deep(prog, k, only=("call",))
        for bi, si, s in fv.aggregates(NLRI_CHANGE):
            if s.get("x"):
                continue
            out.append((fv, bi, si, s))
    return out


def check_bracketing(prog, r):
    n = 0
    for fv, bi, si, s in _nlri_change_sites_deep(prog):
        op = agg_field(s, "best_changed")
        rend = Renderer(fv, depth=12)
        e = rend.operand(op, 12)
        if e[0] == "const":
            continue
        # locate the two reads: through_names rendering exposes `old != new`
        rend2 = Renderer(fv, depth=40, through_names=True)
        e2 = rend2.operand(op, 40)
        reads = [x for x in walk(e2) if isinstance(x, tuple) and x and x[0] == "call" and BEST_READ.fullmatch(x[1]) and x[3] is not None]
        where = short(root_name(prog, fv.key))
        if len(reads) < 2:
            r.unanalysable("%s: best_changed is not a comparison of two best-path reads: %s" % (where, show(e2, 100)), fv.loc(bi))
            continue
        n += 1
        r.analysed(root_name(prog, fv.key))
        rb = sorted({x[3] for x in reads})
        # order the reads by dominance
        old_b, new_b = rb[0], rb[-1]
        if fv.dominates(new_b, old_b) and not fv.dominates(old_b, new_b):
            old_b, new_b = new_b, old_b
        muts = [b for b, t in fv.calls() if _is_entry_mut(t)]
        # stores of flags through set_* are covered by ENTRY_MUT; direct flag writes:
        for b2, _, _ in field_writes(fv, "flags"):
            muts.append(b2)
        bad = []
        for m in muts:
            # (a) mutation not dominated by the old read and able to reach the aggregate
            if not fv.dominates(old_b, m) and bi in fv.reach(m):
                bad.append(("before-old-read", m))
            # (b) mutation between new read and the aggregate (without passing the old read again)
            if m in fv.reach_after(new_b, {old_b}) | ({new_b} if False else set()) and bi in fv.reach(m, {old_b}):
                bad.append(("after-new-read", m))
        if not fv.dominates(new_b, bi):
            bad.append(("new-read-not-dominating-change", new_b))
        if bad:
            kinds = sorted({k for k, _ in bad})
            r.fail(root_name(prog, fv.key), "bracket:" + "+".join(kinds),
                   "best_changed compares reads that do not bracket the mutation (%s)" % ", ".join("%s at line %d" % (k, fv.line(m)) for k, m in bad[:4]),
                   fv.loc(bi))
        else:
            r.ok("%s: old read @%d, %d mutation site(s), new read @%d, change @%d" % (where, fv.line(old_b), len(muts), fv.line(new_b), fv.line(bi)))
    r.floor("mutators with computed best_changed", n, 8)


# ---------------------------------------------------------------------------------------------- R06.3
def check_ids(prog, r):
    alloc = prog.one(r"rustybgp_table::IdAllocator::alloc")
    dealloc = prog.one(r"rustybgp_table::IdAllocator::dealloc")
    # (a) alloc callers: result must flow into Destination::with_id
    callers = sorted(prog.callers(alloc))
    if not callers:
        r.unanalysable("IdAllocator::alloc has no callers")
    for c in callers:
        fv = view(prog, c)
        for bi, t in fv.calls(re.compile(r"rustybgp_table::IdAllocator::alloc")):
            # the destination of alloc is an argument of with_id
            ok = False
            for b2, t2 in fv.calls(re.compile(r"rustybgp_table::Destination::with_id")):
                e = Renderer(fv, depth=8).operand(t2["args"][0], 8)
                if any(isinstance(x, tuple) and x and x[0] == "call" and x[1].endswith("IdAllocator::alloc") for x in walk(e)):
                    ok = True
            if ok:
                r.ok("%s: alloc() feeds Destination::with_id" % short(root_name(prog, c)))
            else:
                r.fail(root_name(prog, c), "alloc-not-for-destination", "IdAllocator::alloc result is not used to create a Destination", fv.loc(bi))
    # (a2) in the function that creates destinations: every path from creation to return stores an entry
    creators = set()
    for c in callers:
        creators.add(prog.ix[c].get("root") or c)
    for c in sorted(creators):
        fv = view(prog, c)
        # creation point: the call that receives the creating closure (or_insert_with) or calls with_id directly
        cre = []
        for bi, t in fv.calls():
            if any(n.endswith("::or_insert_with") for n in callee_names(t)):
                for a in t["args"]:
                    p = a.get("m") or a.get("c")
                    if p and "{closure@" in fv.f["locals"][p["l"]] and "Destination" in fv.f["locals"][t["dest"]["l"]]:
                        cre.append(bi)
            if any(n.endswith("Destination::with_id") for n in callee_names(t)):
                cre.append(bi)
        if not cre:
            r.unanalysable("%s: cannot find where the Destination is created" % short(prog.name(c)), fv.loc())
            continue
        stores = [b for b, t in fv.calls() if any(re.search(r"Vec::<T, A>::(insert|push)$", n) for n in callee_names(t)) and "RibEntry" in t["f"].get("ga", "")]
        # a path that gives up (prefix limit) is fine when it removes the destination it may have created, or
        # when it is taken only if the destination already holds an entry (`dst.entry.is_empty()` is false)
        brs_ = branches(fv)
        removes = [b for b, t in fv.calls() if re.search(r"HashMap::<K, V, S(, A)?>::remove$", t["f"].get("name", "")) and "Destination" in t["f"].get("ga", "")]
        nonempty_edges = set()
        for bb, br in brs_.items():
            ex, neg = norm_cond(br.expr)
            if isinstance(ex, tuple) and ex[0] == "call" and ex[1].endswith("::is_empty") and "entry" in expr_fields(ex):
                nonempty_edges |= set(bool_edges(fv, br, neg))      # the edge on which is_empty() is false
        for cb in cre:
            escaping = [e for e in fv.returns() if e in fv.reach_after(cb, set(stores) | set(removes), nonempty_edges)]
            if escaping:
                lines = sorted({fv.line(_ret_origin(fv, e, stores, cb)) for e in escaping})
                r.fail(prog.name(c), "alloc-without-entry",
                       "a path from the creation of a Destination (id allocated) returns without storing an entry: an empty destination stays in the map "
                       "(counted by state(), id never released) — return reached without Vec::insert at line(s) %s" % lines, fv.loc(cb))
            else:
                r.ok("%s: every path from Destination creation stores an entry" % short(prog.name(c)))
    # (b) removals from Rib.destinations
    n_rm = 0
    for k in crate_fns(prog, "rustybgp_table"):
        ix = prog.ix[k]
        names = [c["f"].get("name", "") for c in ix["calls"]]
        if not any(re.search(r"HashMap::<K, V, S(, A)?>::(remove|retain|clear|drain|remove_entry|extract_if)$", n) for n in names):
            continue
        fv = view(prog, k)
        for bi, t in fv.calls():
            nm = t["f"].get("name", "")
            m = re.search(r"HashMap::<K, V, S(, A)?>::(remove|retain|clear|drain|remove_entry)$", nm)
            if not m or "Destination" not in t["f"].get("ga", ""):
                continue
            n_rm += 1
            op = m.group(2)
            where = short(root_name(prog, k))
            r.analysed(root_name(prog, k))
            if op in ("remove", "remove_entry"):
                de = [b for b, _ in fv.calls(re.compile(r"rustybgp_table::IdAllocator::dealloc"))]
                if de and (fv.dominated_by_any(bi, de) or fv.must_pass(bi, de, fv.returns())):
                    r.ok("%s: destinations.remove paired with dealloc" % where)
                else:
                    r.fail(root_name(prog, k), "remove-without-dealloc", "a Destination is removed from the map without releasing its id", fv.loc(bi))
            elif op == "retain":
                ck = None
                for a in t["args"]:
                    p = a.get("m") or a.get("c")
                    if p and "{closure@" in fv.f["locals"][p["l"]]:
                        for b2, s2, st in fv.defs().get(p["l"], []):
                            if s2 != "t" and st["rv"]["r"] == "agg" and st["rv"]["k"] == "closure":
                                ck = st["rv"]["def"]
                if not ck:
                    r.unanalysable("%s: retain closure not found" % where, fv.loc(bi))
                    continue
                # drained into dealloc after the retain
                de = [b for b, _ in fv.calls(re.compile(r"rustybgp_table::IdAllocator::dealloc"))]
                after = fv.reach_after(bi)
                if not any(b in after for b in de):
                    r.fail(root_name(prog, k), "retain-no-drain", "ids collected while pruning destinations are never passed to IdAllocator::dealloc", fv.loc(bi))
                    continue
                check_retain_closure(prog, view(prog, ck), r, where)
            else:
                r.fail(root_name(prog, k), "bulk-" + op, "bulk removal of destinations without releasing ids", fv.loc(bi))
    r.floor("removals from Rib.destinations", n_rm, 5)


def _ret_origin(fv, ret, stores, cb):
    """A block close to the early return (first block on a store-free path that is a return-value aggregate)."""
    region = fv.reach_after(cb, stores)
    cands = [b for b in region if ret in fv.reach(b, stores) and any("rv" in s and s["rv"]["r"] == "agg" and s["rv"].get("k") == "adt" for s in fv.blocks[b]["s"])]
    return max(cands, key=lambda b: fv.line(b)) if cands else ret


def check_retain_closure(prog, cfv, r, where):
    """Every way the closure can return `false` must have pushed the id (accepted idioms: constant false dominated
    by a push; `!entry.is_empty()` preceded by `if entry.is_empty() { push }` with no mutation in between)."""
    rend = Renderer(cfv, depth=10)
    pushes = [b for b, t in cfv.calls() if any(re.search(r"Vec::<T, A>::push$", n) for n in callee_names(t)) and "u32" in t["f"].get("ga", "")]
    deallocs = [b for b, _ in cfv.calls(re.compile(r"rustybgp_table::IdAllocator::dealloc"))]
    rel = pushes + deallocs
    n = 0
    for bi, si, s in cfv.defs().get(0, []):
        if bi not in cfv.live:
            continue
        n += 1
        if si == "t":
            e = rend.call_expr(s, 10, bi)
        else:
            e = rend.rvalue(s["rv"], 10)
        if e[0] == "const":
            if e[1] in (1, True):
                r.ok("%s retain: returns true (kept)" % where)
            elif cfv.dominated_by_any(bi, rel):
                r.ok("%s retain: returns false after releasing the id" % where)
            else:
                r.fail(root_name(prog, cfv.key), "retain-false-without-release",
                       "the pruning closure returns false (destination removed) on a path that never records the id for release", cfv.loc(bi))
            continue
        # computed: !is_empty(entry)
        ee = e
        neg = False
        while ee[0] == "un" and ee[1] == "Not":
            ee = ee[2]
            neg = not neg
        if ee[0] == "call" and ee[1].endswith("::is_empty") and neg:
            # need: a push block guarded by the same is_empty()==true, reaching this return, no entry mutation between
            ok = False
            for pb in rel:
                if bi not in cfv.reach(pb):
                    continue
                for g, labels, how in flat_guards(cfv, pb):
                    if g[0] == "call" and g[1].endswith("::is_empty") and labels == {"true"} and g[2] == ee[2]:
                        gb = g[3]
                        between = cfv.reach(gb) & {b for b in cfv.live if bi in cfv.reach(b)}
                        if not any(_is_entry_mut(cfv.blocks[b]["t"]) for b in between if cfv.blocks[b]["t"]["t"] == "call"):
                            ok = True
            if ok:
                r.ok("%s retain: returns !is_empty() after `if is_empty() { release }`" % where)
            else:
                r.fail(root_name(prog, cfv.key), "retain-computed-without-release",
                       "the pruning closure returns !entry.is_empty() but the empty case does not record the id for release", cfv.loc(bi))
            continue
        r.unanalysable("%s retain closure returns %s" % (where, show(e, 80)), cfv.loc(bi))
    if n == 0:
        r.unanalysable("%s retain closure: no return value definitions" % where, cfv.loc())


# ---------------------------------------------------------------------------------------------- R06.4
def check_deferral(prog, r):
    ins = view(prog, prog.one(r"rustybgp_table::Table::insert"))
    r.analysed(ins.name)
    stores = [b for b, t in ins.calls() if any(re.search(r"Vec::<T, A>::insert$", n) for n in callee_names(t)) and "RibEntry" in t["f"].get("ga", "")]
    if not stores:
        r.unanalysable("Table::insert: no Vec::insert on the entry list", ins.loc())
    n = 0
    for bi, si, s in ins.aggregates(re.compile(r"rustybgp_table::InsertResult"), "NoChange"):
        gs = flat_guards(ins, bi)
        deferring = any(_mentions_deferring(g) and labels == {"true"} for g, labels, how in gs)
        if deferring:
            n += 1
            if ins.dominated_by_any(bi, stores):
                r.ok("insert: NoChange under `deferring` is dominated by the entry store")
            else:
                r.fail(ins.name, "deferring-nochange-before-store", "while deferring, insert can return NoChange before storing the entry: the route is lost, not deferred", ins.loc(bi))
    if n == 0:
        # the deferral test may be folded into one flag (`let notify = !deferring && (..)`): then the NoChange that the
        # deferring case takes is the one not restricted to `deferring == false`; it must still come after the store
        for bi, si, s in ins.aggregates(re.compile(r"rustybgp_table::InsertResult"), "NoChange"):
            gs = flat_guards(ins, bi, named=True)
            if any(_mentions_deferring(g) and labels == {"false"} and how != "not" for g, labels, how in gs):
                continue
            from ..util import bool_true_requires
            folded = any(g[0] == "var" and labels == {"false"} and any(_mentions_deferring(g2) and l2 == {"false"} for g2, l2, h2 in bool_true_requires(ins, g[1])) for g, labels, how in gs)
            if ins.dominated_by_any(bi, stores) and (folded or any(g[0] == "matches" and any(_mentions_deferring(x) for x, ll in g[1]) for g, labels, how in gs)):
                n += 1
                r.ok("insert: the NoChange taken while deferring is dominated by the entry store")
    if n == 0:
        r.unanalysable("Table::insert: no NoChange return guarded by `deferring` found", ins.loc())
    # ... and nothing else leaves insert while deferring: every InsertResult::Changed needs `deferring` to be false
    for bi, si, s in ins.aggregates(re.compile(r"rustybgp_table::InsertResult"), "Changed"):
        gs = flat_guards(ins, bi) + flat_guards(ins, bi, named=True)
        from ..util import bool_true_requires
        for g, labels, how in list(gs):
            if g[0] == "var" and labels == {"true"}:
                gs += bool_true_requires(ins, g[1])        # a flag that folds the tests: what it being true implies
        if any(_mentions_deferring(g) and labels == {"false"} and how != "not" for g, labels, how in gs):
            r.ok("insert: Changed is returned only when the family is not deferring")
        else:
            r.fail(ins.name, "changed-while-deferring", "Table::insert can return InsertResult::Changed while the family is deferring: the route is distributed before End-of-RIB / the deferral "
                   "timer and again by end_deferral()", ins.loc(bi))
    # writers of Rib.deferring
    writers = {}
    for k in crate_fns(prog, "rustybgp_table"):
        fv = view(prog, k)
        for bi, si, s in field_writes(fv, "deferring"):
            v = s["rv"]["o"].get("k", {}).get("v") if s["rv"]["r"] == "use" else None
            writers.setdefault(root_name(prog, k), set()).add(v)
        for bi, si, s in fv.aggregates(re.compile(r"rustybgp_table::Rib")):
            op = agg_field(s, "deferring")
            if op is not None:
                writers.setdefault(root_name(prog, k), set()).add(op.get("k", {}).get("v"))
    want = {"rustybgp_table::Table::start_deferral": {1}, "rustybgp_table::Table::end_deferral": {0}, "rustybgp_table::Rib::new": {0}}
    for w, vals in sorted(writers.items()):
        if w in want and vals == want[w]:
            r.ok("deferring written by %s = %s" % (short(w), sorted(vals)))
        else:
            r.fail(w, "deferring-writer", "unexpected writer of Rib.deferring (values %s)" % sorted(map(str, vals)), "table/src/lib.rs")
    for w in want:
        if w not in writers:
            r.unanalysable("expected writer of Rib.deferring not found: %s" % w)
    # end_deferral returns collect_loc_rib_paths on every path
    ed = view(prog, prog.one(r"rustybgp_table::Table::end_deferral"))
    r.analysed(ed.name)
    cl = [b for b, t in ed.calls(re.compile(r"rustybgp_table::Table::collect_loc_rib_paths(_impl)?"))]
    # necessary: whenever the flag was cleared, what was accumulated is handed out.  A return that no clearing write
    # reaches (the family has no slot: nothing was deferred, nothing accumulated) may return without collecting.
    clears = [bi for bi, si, s in field_writes(ed, "deferring")]
    if cl and clears and all((w in cl) or ed.must_pass(w, cl, ed.returns()) for w in clears):     # w in cl: the write precedes the call in its own block
        r.ok("end_deferral: every return after the flag is cleared is the result of collect_loc_rib_paths")
    else:
        r.fail(ed.name, "end-deferral-result", "end_deferral does not return collect_loc_rib_paths on every path", ed.loc())
    # collect_loc_rib_paths: unlimited, and the only skip is `paths.is_empty()`
    cp = view(prog, prog.one(r"rustybgp_table::Table::collect_loc_rib_paths"))
    for b, t in cp.calls(re.compile(r"rustybgp_table::Table::collect_loc_rib_paths_impl")):
        e = Renderer(cp, depth=6).operand(t["args"][2], 6)
        if e[0] == "const" and (e[1] is not None and e[1] >= 2 ** 32 or (e[3] and "MAX" in str(e[3]))):
            r.ok("collect_loc_rib_paths: unlimited (usize::MAX)")
        else:
            r.fail(cp.name, "limited", "collect_loc_rib_paths passes a finite limit %s" % show(e), cp.loc(b))
    impl = prog.one(r"rustybgp_table::Table::collect_loc_rib_paths_impl")
    for ck in prog.with_closures(impl)[1:]:
        cfv = view(prog, ck)
        nones = cfv.aggregates(re.compile(r"std::option::Option<.*>|core::option::Option<.*>|std::option::Option"), "None")
        for bi, si, s in nones:
            if s["p"]["l"] != 0 or s["p"].get("p"):
                continue    # only `return None` / tail None
            gs = flat_guards(cfv, bi)
            if any(g[0] == "call" and g[1].endswith("::is_empty") and labels == {"true"} for g, labels, how in gs) and len(gs) == 1:
                r.ok("collect_loc_rib_paths_impl: a destination is skipped only when it has no eligible path")
            else:
                r.fail(prog.name(impl), "skips-destination", "collect_loc_rib_paths_impl skips destinations under %s" % [show(g, 60) for g, _, _ in gs], cfv.loc(bi))


def _mentions_deferring(e):
    for x in walk(e):
        if isinstance(x, tuple) and x and ((x[0] == "var" and x[1] == "deferring") or (x[0] == "field" and x[2] == "deferring")):
            return True
    return False


# ---------------------------------------------------------------------------------------------- R06.7
def check_emission_guard(prog, r):
    """An NlriChange whose any_changed is a computed value (the path list changed somewhere, not necessarily at rank 1) must
    be produced whenever that value is true: the construction may be conditioned on `best_changed || any_changed`, never on
    best_changed alone (add-path and ECMP consumers rebuild their top-N only from notifications)."""
    n = 0
    for fv, bi, si, s in nlri_change_sites(prog):
        oa, ob = agg_field(s, "any_changed"), agg_field(s, "best_changed")
        if oa is None or ob is None or "k" in oa or "k" in ob:
            continue
        rend = Renderer(fv, depth=6)
        ea, eb = rend.operand(oa, 6), rend.operand(ob, 6)
        if ea == eb:
            continue
        n += 1
        r.analysed(root_name(prog, fv.key))
        need_best = [g for g, l, h in flat_guards(fv, bi) if show(g, 200) == show(eb, 200) and l == {"true"}]
        if need_best:
            r.fail(root_name(prog, fv.key), "emit-needs-best-changed", "the NlriChange is built only when best_changed holds although any_changed (%s) is computed separately: a re-ranking or "
                   "removal below rank 1 is never announced, so add-path peers and the ECMP set keep a stale path list" % show(ea, 40), fv.loc(bi))
        else:
            r.ok("%s: a change is emitted when best_changed or any_changed holds" % short(root_name(prog, fv.key)))
    r.floor("NlriChange constructions with a computed any_changed", n, 4)


def check_purge_visibility(prog, r):
    """drop_stale / drop_llgr_stale / drop_no_llgr / ..: per destination the purge first asks `does any path I am about to remove
    count for selection?` (an `any` over the path list) and stays silent when the answer is no.  That question must use the
    predicate the removal itself uses: an entry the retain drops but the question overlooks disappears without a change event."""
    from .. import predicates
    from .c15 import _entry_atom, _table_of, _closure_key
    import itertools
    n = 0
    for k in crate_fns(prog, "rustybgp_table"):
        ix = prog.ix[k]
        if ix["kind"] not in ("fn", "method") or not ix["name"].startswith("rustybgp_table::Table::"):
            continue
        retains, anys = [], []
        for b in prog.with_closures(k):
            fv = view(prog, b)
            rend = Renderer(fv, depth=6)
            for bi, t in fv.calls(re.compile(r".*(Vec::<T, A>::retain|Iterator::any)$")):
                if "RibEntry" not in t["f"].get("ga", ""):
                    continue
                cl = [x[2] for a in t["args"][1:] for x in walk(rend.operand(a, 6)) if isinstance(x, tuple) and x and x[0] == "agg" and str(x[1]).startswith("closure")]
                ck = _closure_key(prog, cl[0]) if len(cl) == 1 else None
                if ck is None:
                    continue
                if t["f"]["name"].endswith("retain"):
                    retains.append(ck)
                elif any(prog.name(c).endswith("RibEntry::is_filtered") for c in prog.callees(ck) if c in prog.ix) or \
                        any(prog.name(c).endswith("RibEntry::is_filtered") for kk in prog.with_closures(ck) for c in prog.callees(kk) if c in prog.ix):
                    anys.append(ck)
        if len(retains) != 1 or not anys:
            continue
        where = short(ix["name"])
        r.analysed(ix["name"])
        rr, rfv = predicates.rows(prog, retains[0], _entry_atom)
        for ak in anys:
            ar, afv = predicates.rows(prog, ak, _entry_atom)
            if rr is None or ar is None or any(us or res is None for rws in (rr, ar) for f_, res, us in rws):
                r.unanalysable("%s: a condition over the entry is not a flag of the entry" % where, afv.loc())
                continue
            n += 1
            uni = sorted({a for rws in (rr, ar) for f_, res, us in rws for a in f_} | {"is_filtered", "is_nexthop_invalid"})
            tr, ta = _table_of(rr, uni), _table_of(ar, uni)
            bad = None
            for vals in itertools.product([False, True], repeat=len(uni)):
                v = dict(zip(uni, vals))
                if tr[vals] is None or ta[vals] is None:
                    bad = ("undecided", v)
                    break
                want = (not tr[vals]) and not v["is_filtered"] and not v["is_nexthop_invalid"]
                if ta[vals] != want:
                    bad = ("mismatch", v, ta[vals])
                    break
            if bad is None:
                r.ok("%s: `removes a visible path?` = dropped by retain, not filtered, next hop valid (atoms %s)" % (where, ",".join(uni)))
            elif bad[0] == "undecided":
                r.unanalysable("%s: predicates not total over %s" % (where, uni), afv.loc())
            else:
                v = bad[1]
                r.fail(ix["name"], "purge-visibility-predicate", "an entry with %s is %s by the purge's retain, yet the test that decides whether a change is reported answers %s for it: "
                       "%s" % (", ".join("%s=%s" % (a, v[a]) for a in uni), "kept" if tr[tuple(v[a] for a in uni)] else "removed", bad[2],
                               "a visible path is removed without a change event" if not bad[2] else "a change is reported although nothing visible was removed"), afv.loc())
    if n == 0:
        r.note("no purge asks its visibility question with `any` over the path list (a loop with a flag is read by R06.2/R06.7 only)")
    else:
        r.note("purges with a visibility test over the path list: %d" % n)
