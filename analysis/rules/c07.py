"""C07 — Established only after a valid OPEN exchange; one survivor per collision (structural clauses)."""
import re

from ..cfg import Renderer, walk, show, flat_guards, guards_of, branches
from ..facts import callee_names, short
from ..sig import fn_tokens
from ..util import view, crate_fns, root_name, expr_calls, expr_fields, expr_vars, field_writes, agg_field

EXPLANATION = (
    "Static rules over daemon/src/fsm.rs MIR (finite transition-table extraction): R07.1 the only writers of Connection.state "
    "are new (Idle), on_connected (OpenSent), on_open (OpenConfirm, only under state == OpenSent and an acceptable AS) and "
    "on_keepalive (Established, only under state == OpenConfirm); every message handler produces its normal outputs only in "
    "the states RFC 4271 allows and otherwise SessionDown(LocalNotification(FsmUnexpectedState{state: current})); NOTIFICATION, "
    "disconnect and admin shutdown yield SessionDown on every path, hold expiry in every state it is accepted in; the Input / "
    "Message dispatch reaches the right handler; R07.2 PeerFsm::process clears the slot and emits StateChanged(Idle) exactly "
    "under session_down, and Connected on an occupied slot yields CloseConnection; R07.3 collision: check_collision runs "
    "whenever a connection entered OpenConfirm, reports no collision only if the other slot is not OpenConfirm/Established, "
    "the loser is the newcomer if the other is Established else the opposite of collision_winner, the loser's slot is closed, "
    "and collision_winner picks Active iff local id > remote id; R07.4 OPEN acceptance (version, hold time, identifier) happens "
    "in parse_message before the FSM. Decides the transition structure, not driver-level races between the two tasks.")
ASSUMPTIONS = ["PeerFsm::process is atomic w.r.t. the two connection tasks (ConnArbiter mutex) — not checked here"]

ST = re.compile(r"rustybgpd::fsm::State")
OUT = re.compile(r"rustybgpd::fsm::Output")
CONN = "rustybgpd::fsm::Connection::"


_PATHS = {}
ALL_STATES = {"Idle", "Connect", "Active", "OpenSent", "OpenConfirm", "Established"}


def _state_atom(g, labels):
    """Set of states a branch outcome allows, or None if the branch does not test self.state."""
    ALL = ALL_STATES
    if g[0] == "discr" and g[2] and g[2].endswith("fsm::State") and "state" in expr_fields(g):
        if "else" in labels:
            return None
        return set(labels) & ALL
    if g[0] == "call" and re.search(r"PartialEq(>)?::(eq|ne)$", g[1]) and "fsm::State" in g[5] and "state" in expr_fields(g):
        c = [x[3] for x in walk(g) if isinstance(x, tuple) and x and x[0] == "const" and x[3] in ALL]
        c += [x[2] for x in walk(g) if isinstance(x, tuple) and x and x[0] == "agg" and x[2] in ALL]
        if len(c) == 1 and len(labels) == 1 and set(labels) <= {"true", "false"}:
            is_eq = g[1].endswith("::eq")
            holds = set(labels) == {"true"}
            return {c[0]} if is_eq == holds else ALL - {c[0]}
    return None


def state_conds(fv, bi, brs=None):
    """Allowed values of self.state on entry to block bi: the union, over the entry->return paths through bi (bool flags such
    as `let active = matches!(self.state, ..)` are followed as constants), of the states the tests before bi leave possible.
    Independent of whether the handler is written as a match, as guard clauses or with a hoisted flag.  Falls back to the
    dominating guards when the function has too many paths."""
    from ..paths import enumerate_paths, PathLimit
    pk = (fv.key, fv.entry)
    if pk not in _PATHS:
        try:
            _PATHS[pk] = enumerate_paths(fv, Renderer(fv), max_paths=4000)
        except PathLimit:
            _PATHS[pk] = None
    paths = _PATHS[pk]
    if paths is None:
        return _state_conds_guards(fv, bi, brs)
    out = set()
    hit = False
    for conds, blocks, env in paths:
        if bi not in blocks:
            continue
        hit = True
        pos = blocks.index(bi)
        before = set(blocks[:pos])
        allowed = set(ALL_STATES)
        for br, labels in conds:
            if br.bi not in before:
                continue
            s_ = _state_atom(br.expr, labels)
            if s_ is not None:
                allowed &= s_
        out |= allowed
    if not hit:
        return _state_conds_guards(fv, bi, brs)
    return None if out == ALL_STATES else out


def _state_conds_guards(fv, bi, brs=None):
    """Allowed values of self.state on entry to block bi, from necessary guards: returns set of variant names or None (=any)."""
    allowed = None
    ALL = {"Idle", "Connect", "Active", "OpenSent", "OpenConfirm", "Established"}
    for g, labels, how in flat_guards(fv, bi, brs):
        s = None
        if g[0] == "discr" and g[2] and g[2].endswith("fsm::State") and "state" in expr_fields(g):
            s = set(labels) & ALL if not ("else" in labels) else None
            if "else" in labels:
                continue
        elif g[0] == "call" and re.search(r"PartialEq(>)?::(eq|ne)$", g[1]) and "fsm::State" in g[5] and "state" in expr_fields(g):
            c = [x[3] for x in walk(g) if isinstance(x, tuple) and x and x[0] == "const" and x[3] in ALL]
            c += [x[2] for x in walk(g) if isinstance(x, tuple) and x and x[0] == "agg" and x[2] in ALL]
            if len(c) == 1:
                is_eq = g[1].endswith("::eq")
                holds = labels == {"true"}
                s = {c[0]} if is_eq == holds else ALL - {c[0]}
        if s is not None:
            allowed = s if allowed is None else allowed & s
    return allowed


DISPATCH_INPUT = {"Connected": "on_connected", "MessageReceived": "on_message", "KeepaliveTimerExpired": "on_keepalive_timer_expired", "HoldTimerExpired": "on_hold_timer_expired",
                  "Disconnected": "on_disconnected", "AdminShutdown": "on_admin_shutdown", "UpdateSent": "on_update_sent"}
DISPATCH_MSG = {"Open": "on_open", "Keepalive": "on_keepalive", "Update": "on_update", "Notification": "on_notification", "RouteRefresh": "on_route_refresh"}


class _Slice:
    """The part of a dispatcher's body behind one arm, presented like the body of the handler that used to be called there
    (a maintainer may inline `on_x` into `Connection::process`; the rules keep reading 'the handler of X')."""


def handler_view(prog, m):
    """FnView of Connection::<m>; if that method no longer exists, the slice of the dispatcher arm that handles the same
    input (Connection::process on fsm::Input, on_message / process on bgp::Message)."""
    import copy
    ks = prog.find(re.escape(CONN + m))
    if ks:
        return view(prog, ks[0])
    inv_i = {v: k for k, v in DISPATCH_INPUT.items()}
    inv_m = {v: k for k, v in DISPATCH_MSG.items()}
    cands = []
    if m in inv_m:
        cands += [(CONN + "on_message", "bgp::Message", inv_m[m]), (CONN + "process", "bgp::Message", inv_m[m])]
    if m in inv_i:
        cands += [(CONN + "process", "fsm::Input", inv_i[m])]
    for host, enum_rx, variant in cands:
        hk = prog.find(re.escape(host))
        if not hk:
            continue
        fv = view(prog, hk[0])
        for bb, br in branches(fv).items():
            if br.expr[0] == "discr" and br.adt and br.adt.endswith(enum_rx):
                for v, tgt in br.cases:
                    if br.label(prog, v) == variant:
                        sv = copy.copy(fv)
                        sv.entry = tgt
                        sv.live = fv._reach_from(tgt, set(), set())
                        sv._dom = sv._pdom = None
                        sv.name = CONN + m
                        sv.sliced_from = fv.name
                        return sv
    raise __import__("analysis.facts", fromlist=["AnchorError"]).AnchorError("anchor %r matched 0 functions and no dispatcher arm handles it" % (CONN + m))


def handler_name(prog, fv, bi):
    """Name of the Connection handler a site belongs to: the enclosing method, or for a site inside a dispatcher
    (process / on_message) the handler its arm stands for."""
    rn = root_name(prog, fv.key)
    meth = rn.split("::")[-1]
    if not rn.startswith(CONN) or meth not in ("process", "on_message"):
        return rn
    out = rn
    for g, labels, how in flat_guards(fv, bi):
        if g[0] == "discr" and g[2] and len(labels) == 1:
            lab = next(iter(labels))
            if g[2].endswith("bgp::Message") and lab in DISPATCH_MSG:
                return CONN + DISPATCH_MSG[lab]
            if g[2].endswith("fsm::Input") and lab in DISPATCH_INPUT:
                out = CONN + DISPATCH_INPUT[lab]
    return out


def outputs_in(fv):
    """[(block, variant, stmt)] for fsm::Output aggregates."""
    return [(bi, s["rv"]["v"], s) for bi, si, s in fv.aggregates(OUT)]


def run(prog, rep, tier):
    r1 = rep.rule("R07.1", "Connection transition table equals RFC 4271 (writers of state, accepted states per message, FSM-error otherwise)")
    check_connection(prog, r1)
    r2 = rep.rule("R07.2", "PeerFsm::process frees the slot and reports Idle on every SessionDown; occupied slot => CloseConnection")
    check_slot_release(prog, r2)
    r3 = rep.rule("R07.3", "collision handling: at most one connection in OpenConfirm|Established")
    check_collision(prog, r3)
    r5 = rep.rule("R07.5", "a session ended for a local reason (our NOTIFICATION, admin shutdown, hold timer) hands the NOTIFICATION to the driver to send; one ended by the peer or the socket has nothing to send")
    check_sessiondown_message(prog, r5)
    r4 = rep.rule("R07.4", "OPEN acceptance (version, hold time, identifier) is enforced by parse_message before the FSM")
    check_open_accept(prog, r4)


def check_connection(prog, r):
    # --- writers of Connection.state
    want_writers = {"new": {"Idle"}, "on_connected": {"OpenSent"}, "on_open": {"OpenConfirm"}, "on_keepalive": {"Established"}}
    got = {}
    sites = {}
    for k in crate_fns(prog, "rustybgpd"):
        nm = prog.ix[k]["name"]
        if not nm.startswith("rustybgpd::fsm::"):
            continue
        fv = view(prog, k)
        for bi, si, s in field_writes(fv, "state"):
            e = Renderer(fv, depth=6).rvalue(s["rv"], 6)
            base_ty = fv.f["locals"][s["p"]["l"]]
            if "Connection" not in base_ty:
                continue
            v = e[2] if e[0] == "agg" else (e[3] if e[0] == "const" else None)
            got.setdefault(handler_name(prog, fv, bi), set()).add(v)
            sites.setdefault(handler_name(prog, fv, bi), []).append((fv, bi, v))
        for bi, si, s in fv.aggregates(re.compile(r"rustybgpd::fsm::Connection")):
            op = agg_field(s, "state")
            if op is not None:
                e = Renderer(fv, depth=6).operand(op, 6)
                v = e[2] if e[0] == "agg" else (e[3] if e[0] == "const" else None)
                got.setdefault(root_name(prog, k), set()).add(v)
    for w, vals in sorted(got.items()):
        m = w.split("::")[-1]
        r.analysed(w)
        if w.startswith(CONN) and m in want_writers and vals == want_writers[m]:
            r.ok("state written by %s = %s" % (short(w), sorted(vals)))
        else:
            r.fail(w, "state-writer", "unexpected write of Connection.state (%s) — the RFC 4271 table allows only new:Idle, on_connected:OpenSent, on_open:OpenConfirm, on_keepalive:Established" % sorted(map(str, vals)), "daemon/src/fsm.rs")
    for m in want_writers:
        if CONN + m not in got:
            r.unanalysable("expected writer of Connection.state not found: %s" % m)
    # --- guards of the two forward transitions
    for fvw, bi, v in sites.get(CONN + "on_open", []):
        st = state_conds(fvw, bi)
        if st == {"OpenSent"}:
            r.ok("on_open: -> OpenConfirm only from OpenSent")
        else:
            r.fail(fvw.name, "openconfirm-from", "OpenConfirm can be entered from %s (only OpenSent is allowed)" % (sorted(st) if st else "any state"), fvw.loc(bi))
        # AS acceptable: not reachable on the edge where the bad-AS test holds
        gs = flat_guards(fvw, bi)
        asn = [(g, l) for g, l, h in gs if "expected_remote_asn" in expr_fields(g) or "as_number" in expr_fields(g)]
        if asn or _asn_reject_dominates(fvw, bi):
            r.ok("on_open: -> OpenConfirm only after the expected-AS test")
        else:
            r.fail(fvw.name, "openconfirm-asn", "OpenConfirm is entered without passing the expected-AS test", fvw.loc(bi))
    for fvw, bi, v in sites.get(CONN + "on_keepalive", []):
        st = state_conds(fvw, bi)
        if st == {"OpenConfirm"}:
            r.ok("on_keepalive: -> Established only from OpenConfirm")
        else:
            r.fail(fvw.name, "established-from", "Established can be entered from %s (only OpenConfirm is allowed)" % (sorted(st) if st else "any state"), fvw.loc(bi))
    # --- accepted states per message handler
    accepted = {"on_open": {"OpenSent"}, "on_keepalive": {"OpenConfirm", "Established"}, "on_update": {"Established"}, "on_route_refresh": {"Established"}}
    normal = {"SendMessage", "SetKeepaliveTimer", "SetHoldTimer", "SessionNegotiated", "SessionEstablished", "RouteRefresh", "StateChanged"}
    for m, acc in accepted.items():
        fv = handler_view(prog, m)
        r.analysed(fv.name)
        brs = branches(fv)
        n_err = 0
        for bi, v, s in outputs_in(fv):
            st = state_conds(fv, bi, brs)
            if v == "SessionDown":
                e = Renderer(fv, depth=25, through_names=True).operand(s["rv"]["fields"][0], 25)
                is_fsm = any(isinstance(x, tuple) and x and x[0] == "agg" and x[2] == "FsmUnexpectedState" for x in walk(e))
                if is_fsm:
                    n_err += 1
                    if st is not None and not (st & acc):
                        # state operand is the current state
                        cur = any(isinstance(x, tuple) and x and x[0] == "call" and re.search(r"From<.*State>>::from$|::from$", x[1]) and "state" in expr_fields(x) for x in walk(e))
                        if cur:
                            r.ok("%s: FSM error (with current state) in states %s" % (m, sorted(st)))
                        else:
                            r.fail(fv.name, "fsm-error-state-operand", "FsmUnexpectedState does not carry the current state", fv.loc(bi))
                    else:
                        r.fail(fv.name, "fsm-error-in-accepted", "FSM-error teardown reachable in an accepted state (%s)" % (sorted(st) if st else "any"), fv.loc(bi))
                continue
            if v in normal:
                if st is not None and st <= acc:
                    r.ok("%s: %s only in %s" % (m, v, sorted(st)))
                else:
                    r.fail(fv.name, "output-outside-accepted:%s" % v, "%s emits %s in states %s; the message is acceptable only in %s" % (m, v, sorted(st) if st else "any", sorted(acc)), fv.loc(bi))
        if n_err == 0:
            r.fail(fv.name, "no-fsm-error", "%s has no FsmUnexpectedState teardown for unacceptable states" % m, fv.loc())
    # --- unconditional teardown handlers
    for m, reason in (("on_notification", "RemoteNotification"), ("on_disconnected", "IoError"), ("on_admin_shutdown", "AdminShutdown")):
        fv = handler_view(prog, m)
        r.analysed(fv.name)
        downs = [(bi, s) for bi, v, s in outputs_in(fv) if v == "SessionDown"]
        ok = False
        for bi, s in downs:
            e = Renderer(fv, depth=12).operand(s["rv"]["fields"][0], 12)
            if e[0] == "agg" and e[2] == reason and all(fv.dominated_by_any(x, [bi]) or x == bi for x in fv.returns()):
                ok = True
        if ok:
            r.ok("%s: SessionDown(%s) on every path" % (m, reason))
        else:
            r.fail(fv.name, "teardown-missing", "%s does not yield SessionDown(%s) on every path" % (m, reason), fv.loc())
    fv = handler_view(prog, "on_hold_timer_expired")
    r.analysed(fv.name)
    sts = set()
    for bi, v, s in outputs_in(fv):
        if v == "SessionDown":
            st = state_conds(fv, bi)
            sts |= (st or {"*"})
    if sts == {"OpenSent", "OpenConfirm", "Established"}:
        r.ok("on_hold_timer_expired: SessionDown in OpenSent/OpenConfirm/Established")
    else:
        r.fail(fv.name, "hold-expiry-states", "hold-timer expiry tears down in states %s (want OpenSent, OpenConfirm, Established)" % sorted(sts), fv.loc())
    # --- dispatch tables
    for fn, enum_rx, table in ((CONN + "process", "fsm::Input", {"Connected": "on_connected", "MessageReceived": "on_message", "KeepaliveTimerExpired": "on_keepalive_timer_expired",
                                                                  "HoldTimerExpired": "on_hold_timer_expired", "Disconnected": "on_disconnected", "AdminShutdown": "on_admin_shutdown", "UpdateSent": "on_update_sent"}),
                               (CONN + "on_message", "bgp::Message", {"Open": "on_open", "Keepalive": "on_keepalive", "Update": "on_update", "Notification": "on_notification", "RouteRefresh": "on_route_refresh"})):
        if not prog.find(re.escape(fn)):
            continue        # the sub-dispatcher itself was inlined into process: its arms are read through handler_view
        fv = view(prog, prog.one(re.escape(fn)))
        r.analysed(fv.name)
        # handlers that were inlined into the dispatcher have no call: their variant must still have an arm of its own
        arms_ = set()
        for bb_, br_ in branches(fv).items():
            if br_.expr[0] == "discr" and br_.adt and br_.adt.endswith(enum_rx):
                arms_ |= {br_.label(prog, v_) for v_, _t in br_.cases}
        table = {k_: v_ for k_, v_ in table.items() if prog.find(re.escape(CONN + v_)) or k_ not in arms_}
        got = {}
        for bi, t in fv.calls(re.compile(re.escape(CONN) + r"\w+")):
            h = t["f"]["name"].split("::")[-1]
            for g, labels, how in flat_guards(fv, bi):
                if g[0] == "discr" and g[2] and g[2].endswith(enum_rx):
                    for l in labels:
                        got[l] = h
        got = {k_: v_ for k_, v_ in got.items() if k_ in table}        # arms whose handler was inlined call deeper handlers: not this table's business
        if got == table:
            r.ok("%s dispatch: %d variants -> handlers" % (short(fn), len(table)))
        else:
            diff = {k: (got.get(k), v) for k, v in table.items() if got.get(k) != v}
            r.fail(fv.name, "dispatch", "dispatch differs from the table: %s" % diff, fv.loc())


def _asn_reject_dominates(fv, bi):
    """A block that builds OpenBadPeerAs exists and the target is not reachable from it."""
    for b2, si, s in fv.aggregates(None):
        if s["rv"]["v"] == "OpenBadPeerAs":
            if bi not in fv.reach(b2):
                # and the branch deciding it dominates bi
                for br, labels in guards_of(fv, bi):
                    pass
                return True
    return False


def check_slot_release(prog, r):
    fv = view(prog, prog.one(r"rustybgpd::fsm::PeerFsm::process"))
    r.analysed(fv.name)
    brs = branches(fv)
    closes = [b for b, t in fv.calls(re.compile(r"rustybgpd::fsm::PeerFsm::close_connection"))]
    idles = []
    for bi, v, s in outputs_in(fv):
        if v == "StateChanged":
            e = Renderer(fv, depth=6).operand(s["rv"]["fields"][0], 6)
            if (e[0] == "agg" and e[2] == "Idle") or (e[0] == "const" and e[3] == "Idle"):
                idles.append(bi)
    if not closes or not idles:
        r.fail(fv.name, "no-slot-release", "PeerFsm::process never clears the slot / never reports StateChanged(Idle)", fv.loc())
        return
    prelude = None
    for b in closes + idles:
        gs = [(g, l) for g, l, h in flat_guards(fv, b, brs)]
        sd = [(g, l) for g, l in gs if _is_flag(prog, fv, g, {"SessionDown"})]
        other = [(g, l) for g, l in gs if not _is_flag(prog, fv, g, {"SessionDown"})]
        # the prelude guards are: input is not Connected, the slot exists
        extra = [show(g, 60) for g, l in other if not _is_prelude(g)]
        if sd and sd[0][1] == {"true"} and not extra:
            r.ok("slot release @%d exactly under session_down" % fv.line(b))
        else:
            r.fail(fv.name, "slot-release-guard", "slot release / Idle report is guarded by %s (want: session_down only)" % ([show(g, 50) + str(sorted(l)) for g, l in gs]), fv.loc(b))
    # the driver's teardown routes every ended connection through the FSM: sessions that end without the FSM having seen a
    # SessionDown (OPEN rejected by the codec, validate_message errors, locally sent Cease) would otherwise leave their
    # Connection in the slot, and every later connection of that direction is refused with CloseConnection
    ak = prog.find(r"rustybgpd::event::apply_disconnect")
    if len(ak) == 1:
        av = view(prog, prog.body_key(ak[0]))
        r.analysed(prog.name(ak[0]))
        feeds = []
        for b, t in av.calls(re.compile(r"rustybgpd::event::ConnArbiter::process$|rustybgpd::fsm::PeerFsm::process$")):
            e = Renderer(av, depth=8, through_names=True).operand(t["args"][2], 8) if len(t["args"]) > 2 else None
            if e is not None and ((e[0] == "agg" and e[2] == "Disconnected") or (e[0] == "const" and e[3] == "Disconnected")):
                feeds.append(b)
        if feeds and all(av.dominated_by_any(x, feeds) for x in av.returns()):
            r.ok("apply_disconnect: Input::Disconnected is fed to the FSM for the ended role on every path")
        else:
            r.fail(prog.name(ak[0]), "disconnect-not-fed", "apply_disconnect does not feed Input::Disconnected to the FSM on every path: a session that ended without an FSM SessionDown "
                   "(rejected OPEN, message validation error, local Cease) keeps its slot occupied and the neighbour can never reconnect in that direction", av.loc())
    else:
        r.unanalysable("apply_disconnect anchor matched %d" % len(ak))
    # occupied slot => CloseConnection
    oc = view(prog, prog.one(r"rustybgpd::fsm::PeerFsm::on_connected"))
    r.analysed(oc.name)
    good = False
    for bi, si, s in oc.aggregates(re.compile(r"rustybgpd::fsm::PeerFsmOutput"), "CloseConnection"):
        for g, labels, how in flat_guards(oc, bi):
            if g[0] == "call" and g[1].endswith("Option::<T>::is_some") and labels == {"true"}:
                good = True
    news = [b for b, t in oc.calls(re.compile(r"rustybgpd::fsm::Connection::new"))]
    guarded_new = all(any(g[0] == "call" and g[1].endswith("Option::<T>::is_some") and labels == {"false"} for g, labels, how in flat_guards(oc, b)) for b in news) and news
    if good and guarded_new:
        r.ok("on_connected: occupied slot => CloseConnection; Connection::new only into a free slot")
    else:
        r.fail(oc.name, "occupied-slot", "a second connection of the same role is not rejected with CloseConnection", oc.loc())


def flag_meaning(prog, fv, name):
    """What a bool local stands for, as the set of enum labels its truth depends on: either
       `let f = xs.iter().any(|o| matches!(o, Output::X(..)))`  -> labels tested by the closure, or
       `let mut f = false; for o in xs { if let Output::X(..) = o { f = true } }` -> labels guarding the `true` writes."""
    labs = set()
    for l, n in fv.local_name.items():
        if n != name or l >= len(fv.f["locals"]) or fv.f["locals"][l] != "bool":
            continue
        ds = [d for d in fv.defs().get(l, []) if d[0] in fv.live]
        for bi, si, st in ds:
            if si == "t":
                if any(nm.endswith("Iterator::any") for nm in callee_names(st)):
                    e = Renderer(fv, depth=12, through_names=True).call_expr(st, 12, bi)
                    for x in walk(e):
                        ck = None
                        if isinstance(x, tuple) and x and x[0] == "agg" and x[1] == "closure":
                            ck = x[2]
                        if ck and ck in prog.ix:
                            cfv = view(prog, ck)
                            for bb, br in branches(cfv).items():
                                if br.expr[0] == "discr":
                                    for v, tgt in br.cases:
                                        labs.add(br.label(prog, v))
                continue
            rv = st["rv"]
            if rv["r"] == "use" and (rv["o"].get("k") or {}).get("v") == 1:
                for g, labels, how in flat_guards(fv, bi):
                    if g[0] == "discr" and "else" not in labels and len(labels) <= 2:
                        labs |= set(labels)
    return labs


def _is_flag(prog, fv, g, need):
    return g[0] == "var" and need <= flag_meaning(prog, fv, g[1])


def _is_prelude(g):
    s = show(g, 200)
    if g[0] == "discr" and any(c.endswith("Iterator::next") for c in expr_calls(g)):
        return True          # leaving a `for` loop over the outputs: structural, not a condition on the session
    return ("connection_mut" in s) or (g[0] == "discr" and ("input" in expr_vars(g) or "Input" in (g[2] or "")))


def check_collision(prog, r):
    fv = view(prog, prog.one(r"rustybgpd::fsm::PeerFsm::process"))
    cc = [b for b, t in fv.calls(re.compile(r"rustybgpd::fsm::PeerFsm::check_collision"))]
    if len(cc) != 1:
        r.unanalysable("PeerFsm::process: %d calls of check_collision" % len(cc), fv.loc())
        return
    gs = [(g, l) for g, l, h in flat_guards(fv, cc[0]) if not _is_prelude(g)]
    if len(gs) == 1 and _is_flag(prog, fv, gs[0][0], {"StateChanged", "OpenConfirm"}) and gs[0][1] == {"true"}:
        r.ok("check_collision runs exactly when a connection entered OpenConfirm (flag = some output is StateChanged(OpenConfirm))")
    else:
        r.fail(fv.name, "collision-check-guard", "check_collision is guarded by %s (want: entered_open_confirm only)" % [show(g, 50) + str(sorted(l)) for g, l in gs], fv.loc(cc[0]))
    # check_collision body
    ck = view(prog, prog.one(r"rustybgpd::fsm::PeerFsm::check_collision"))
    r.analysed(ck.name)
    brs = branches(ck)
    rend = Renderer(ck, depth=14, through_names=True)
    # (a)-(c) decision table of check_collision over its entry->return paths.  "Other state" = any fsm::State value the
    # function branches on (it has no other); the loser is whatever is handed to close_connection and returned in Some.
    from ..paths import enumerate_paths, PathLimit
    try:
        paths = enumerate_paths(ck, Renderer(ck, depth=14), max_paths=4000)
    except PathLimit:
        paths = []
        r.unanalysable("check_collision: too many paths", ck.loc())
    ALL = ALL_STATES
    role_name = ck.local_name.get(2)

    def other_atom(g, labels):
        if g[0] == "discr" and g[2] and g[2].endswith("fsm::State") and "else" not in labels:
            return set(labels) & ALL
        if g[0] == "call" and re.search(r"PartialEq(>)?::(eq|ne)$", g[1]) and "fsm::State" in g[5] and len(labels) == 1 and set(labels) <= {"true", "false"}:
            c = [x[3] for x in walk(g) if isinstance(x, tuple) and x and x[0] == "const" and x[3] in ALL]
            c += [x[2] for x in walk(g) if isinstance(x, tuple) and x and x[0] == "agg" and x[2] in ALL]
            if len(c) == 1:
                return {c[0]} if (g[1].endswith("::eq") == (set(labels) == {"true"})) else ALL - {c[0]}
        return None
    close_blocks = {b: t for b, t in ck.calls(re.compile(r"rustybgpd::fsm::PeerFsm::close_connection"))}
    ret_aggs = {bi: s for bi, si, s in ck.aggregates(None, None) if s["p"]["l"] == 0 and not s["p"].get("p") and s["rv"].get("v") in ("Some", "None")}
    seen_kinds = set()
    problems = {}
    for conds, blocks, env in paths:
        rb = [b for b in blocks if b in ret_aggs]
        if not rb:
            continue          # the `?` on the other connection: FromResidual builds the None
        kind = ret_aggs[rb[-1]]["rv"]["v"]
        S = set(ALL)
        tested = False
        for br, labels in conds:
            a = other_atom(br.expr, labels)
            if a is not None:
                S &= a
                tested = True
        if tested and not S:
            continue          # contradictory tests: not a feasible path
        if kind == "None":
            if tested and (S & {"OpenConfirm", "Established"}):
                problems.setdefault("none-with-collision", "check_collision can report 'no collision' while the other connection may be in %s" % sorted(S & {"OpenConfirm", "Established"}))
            elif not tested:
                problems.setdefault("none-with-collision", "check_collision reports 'no collision' on a path that never looks at the other connection's state")
            else:
                seen_kinds.add("none")
            continue
        # Some(loser)
        if not tested or not S <= {"OpenConfirm", "Established"}:
            problems.setdefault("collision-without-state", "a collision is reported on a path where the other connection may be in %s" % sorted(S - {"OpenConfirm", "Established"}))
            continue
        cb = [b for b in blocks if b in close_blocks]
        if not cb or blocks.index(cb[-1]) > blocks.index(rb[-1]):
            problems.setdefault("loser-not-closed", "a collision is reported without closing the loser's slot first")
            continue
        # the value closed / returned: last definition on this path of the local handed to close_connection
        q = close_blocks[cb[-1]]["args"][1].get("c") or close_blocks[cb[-1]]["args"][1].get("m")
        e = None
        cur = q["l"] if q is not None and not q.get("p") else None
        hops = 0
        while cur is not None and hops < 6:
            hops += 1
            ds = [d for d in ck.defs().get(cur, []) if d[0] in blocks]
            if cur <= ck.f["argc"] and not ds:
                e = ("var", ck.local_name.get(cur, "arg%d" % cur))
                break
            if not ds:
                break
            bi2, si2, st2 = max(ds, key=lambda d: blocks.index(d[0]))
            if si2 != "t" and st2["rv"]["r"] == "use":
                q2 = st2["rv"]["o"].get("c") or st2["rv"]["o"].get("m")
                if q2 is not None and not q2.get("p"):
                    cur = q2["l"]
                    continue
            e = rend.call_expr(st2, 14, bi2) if si2 == "t" else rend.rvalue(st2["rv"], 14)
            break
        # the Some must carry the same value
        sq = ret_aggs[rb[-1]]["rv"]["fields"][0].get("c") or ret_aggs[rb[-1]]["rv"]["fields"][0].get("m")
        if e is None:
            problems.setdefault("loser-rule", "the loser handed to close_connection could not be traced")
            continue
        is_newcomer = e[0] == "var" and e[1] == role_name
        is_bgpid = e[0] == "call" and e[1].endswith("Role::other") and any(c.endswith("PeerFsm::collision_winner") for c in expr_calls(e))
        if S == {"Established"}:
            if is_newcomer:
                seen_kinds.add("established")
            else:
                problems.setdefault("established-survives", "when the other connection is Established the loser is %s, not the newcomer" % show(e, 60))
        elif S == {"OpenConfirm"}:
            if is_bgpid:
                seen_kinds.add("openconfirm")
            else:
                problems.setdefault("loser-rule", "with both connections in OpenConfirm the loser is %s (want the opposite of collision_winner)" % show(e, 80))
        else:
            problems.setdefault("loser-rule", "one rule (%s) decides the loser for other states %s: Established must always win, OpenConfirm is decided by the BGP identifier" % (show(e, 60), sorted(S)))
    for key_, msg in sorted(problems.items()):
        r.fail(ck.name, key_, msg, ck.loc())
    if not problems:
        if {"none", "established", "openconfirm"} <= seen_kinds:
            r.ok("check_collision: no collision unless the other connection is in OpenConfirm/Established; Established survives; OpenConfirm vs OpenConfirm by collision_winner; loser closed before it is reported")
        else:
            r.unanalysable("check_collision: decision table incomplete (saw %s)" % sorted(seen_kinds), ck.loc())
    # (d) collision_winner
    cw = view(prog, prog.one(r"rustybgpd::fsm::PeerFsm::collision_winner"))
    r.analysed(cw.name)
    okw = 0
    for bi, si, s in cw.aggregates(re.compile(r"rustybgpd::fsm::Role")):
        if s["p"]["l"] != 0:
            continue
        v = s["rv"]["v"]
        for g, labels, how in flat_guards(cw, bi):
            if g[0] == "bin" and g[1] in ("Gt", "Lt", "Ge", "Le"):
                a, b = g[2], g[3]
                local_left = "local_router_id" in expr_fields(a)
                op = g[1]
                if not local_left:
                    op = {"Gt": "Lt", "Lt": "Gt", "Ge": "Le", "Le": "Ge"}[op]
                # the identifiers must be compared as stored (both are host-order u32): any conversion applied to an
                # operand (byte swap, truncation, arithmetic) changes the numeric order RFC 4271 §6.8 prescribes
                allowed = re.compile(r".*(fsm::Connection::remote_id|fsm::PeerFsm::connection|Option::<T>::(map|unwrap_or|copied)|FnOnce::call_once|Fn::call)$")
                odd = [c for x in (a, b) for c in expr_calls(x) if not allowed.fullmatch(c)]
                odd += [x[1] for y in (a, b) for x in walk(y) if isinstance(x, tuple) and x and x[0] in ("bin", "un", "cast") and x is not g]
                if odd:
                    r.fail(cw.name, "winner-operand-transformed", "collision_winner compares transformed identifiers (%s): the BGP identifiers are stored in host order and must be compared as unsigned integers as they are" % ", ".join(sorted(set(map(str, odd)))), cw.loc(bi))
                    continue
                holds = labels == {"true"}
                rel = op if holds else {"Gt": "Le", "Lt": "Ge", "Ge": "Lt", "Le": "Gt"}[op]
                if (v == "Active" and rel == "Gt") or (v == "Passive" and rel == "Le"):
                    okw += 1
                else:
                    r.fail(cw.name, "winner-rule:%s" % v, "collision_winner returns %s when local id %s remote id (RFC 4271 §6.8: the connection initiated by the higher identifier survives)" % (v, {"Gt": ">", "Le": "<=", "Lt": "<", "Ge": ">="}[rel]), cw.loc(bi))
    if okw >= 2:
        r.ok("collision_winner: Active iff local id > remote id")
    elif okw == 0:
        r.unanalysable("collision_winner: comparison not recognised", cw.loc())


def _other_state_conds(fv, bi, brs):
    ALL = {"Idle", "Connect", "Active", "OpenSent", "OpenConfirm", "Established"}
    allowed = None
    for g, labels, how in flat_guards(fv, bi, brs):
        if g[0] == "call" and re.search(r"PartialEq(>)?::(eq|ne)$", g[1]) and "fsm::State" in g[5] and "other_state" in expr_vars(g):
            c = [x[3] for x in walk(g) if isinstance(x, tuple) and x and x[0] == "const" and x[3] in ALL]
            if len(c) == 1:
                is_eq = g[1].endswith("::eq")
                holds = labels == {"true"}
                s = {c[0]} if is_eq == holds else ALL - {c[0]}
                allowed = s if allowed is None else allowed & s
    return allowed


def check_open_accept(prog, r):
    pm = view(prog, prog.one(r"rustybgp_packet::bgp::PeerCodec::parse_message"))
    r.analysed(pm.name)
    opens = [(bi, s) for bi, si, s in pm.aggregates(re.compile(r"rustybgp_packet::bgp::ParsedMessage"), "Open")]
    if len(opens) != 1:
        r.unanalysable("parse_message: %d ParsedMessage::Open constructions" % len(opens), pm.loc())
        return
    bi = opens[0][0]
    gs = flat_guards(pm, bi)
    txt = " & ".join(show(g, 90) + ":" + "|".join(sorted(l)) for g, l, h in gs)
    need = {
        "version == 4": any(g[0] == "bin" and g[1] in ("Ne", "Eq") and "version" in expr_vars(g) and (g[1] == "Ne") == (l == {"false"}) for g, l, h in gs),
        "hold time acceptable (HoldTime::new is Some)": any("HoldTime::new" in show(g, 300) for g, l, h in gs) or "HoldTime::new" in txt,
        "identifier not unspecified": any(g[0] == "call" and g[1].endswith("Ipv4Addr::is_unspecified") and l == {"false"} for g, l, h in gs),
        "identifier not broadcast": any(g[0] == "call" and g[1].endswith("Ipv4Addr::is_broadcast") and l == {"false"} for g, l, h in gs),
        "identifier not multicast": any(g[0] == "call" and g[1].endswith("Ipv4Addr::is_multicast") and l == {"false"} for g, l, h in gs),
    }
    for what, ok in need.items():
        if ok:
            r.ok("OPEN accepted only if " + what)
        else:
            r.fail(pm.name, "open-accept:" + what.split()[0] + what.split()[-1], "an OPEN is accepted without the test: " + what, pm.loc(bi))
    # HoldTime::new rejects 1 and 2
    hk = prog.one(r"rustybgp_packet::bgp::HoldTime::new")
    hv = view(prog, hk)
    r.analysed(hv.name)
    rejects = set()
    for b2, si, s in hv.aggregates(None, "None"):
        if s["p"]["l"] != 0:
            continue
        for g, labels, how in flat_guards(hv, b2):
            if g[0] == "var" or g[0] == "cast":
                for l in labels:
                    if l.isdigit():
                        rejects.add(int(l))
            if g[0] == "bin":
                rejects.add(show(g, 40) + ":" + "|".join(sorted(labels)))
    cds = hv.control_deps()
    for b2, si, s in hv.aggregates(None, "None"):
        for (cb, cl, cs) in cds.get(b2, ()):
            if isinstance(cl, int):
                rejects.add(cl)
    if {1, 2} <= rejects or any(isinstance(x, str) and re.search(r"[<>]", x) for x in rejects):
        r.ok("HoldTime::new rejects 1 and 2 (%s)" % sorted(map(str, rejects)))
    else:
        r.fail(hv.name, "holdtime-1-2", "HoldTime::new does not reject hold times 1 and 2 (rejects: %s)" % sorted(map(str, rejects)), hv.loc())


SENDS = {"LocalNotification": "Some", "AdminShutdown": "Some", "HoldTimerExpired": "Some", "IoError": "None", "RemoteNotification": "None"}


def check_sessiondown_message(prog, r):
    """Output::SessionDown(reason, to_send): the driver transmits only `to_send`.  Every construction in the FSM must pair the
    reason with the right option -- a collision loser closed with (LocalNotification(cease), None) is torn down silently and the
    peer never learns why (RFC 4271 6.8: the loser is sent Cease / Connection Collision Resolution)."""
    n = 0
    for k in crate_fns(prog, "rustybgpd"):
        nm = prog.ix[k]["name"]
        if not nm.startswith("rustybgpd::fsm::") or "::tests::" in nm:
            continue
        fv = view(prog, k)
        ags = fv.aggregates(re.compile(r"rustybgpd::fsm::Output$"), "SessionDown")
        if not ags:
            continue
        r.analysed(root_name(prog, k))
        rend = Renderer(fv, depth=10, through_names=True)
        for bi, si, st in ags:
            f = st["rv"]["fields"]
            e0, e1 = rend.operand(f[0], 10), rend.operand(f[1], 10)
            reason = [x[2] for x in walk(e0) if isinstance(x, tuple) and x and x[0] == "agg" and str(x[1]).endswith("SessionDownReason")]
            opt = [x[2] for x in walk(e1) if isinstance(x, tuple) and x and x[0] == "agg" and str(x[1]).endswith("Option")]
            if len(reason) != 1 or not opt or reason[0] not in SENDS:
                r.unanalysable("%s: SessionDown built from %s / %s" % (short(nm), show(e0, 40), show(e1, 40)), fv.loc(bi))
                continue
            n += 1
            if opt[0] == SENDS[reason[0]]:
                r.ok("%s: SessionDown(%s, %s)" % (short(root_name(prog, k)), reason[0], opt[0]))
            else:
                r.fail(root_name(prog, k), "sessiondown-message:%s:%s" % (reason[0], opt[0]), "SessionDown(%s, ..) is built with %s as the message to send (want %s): %s" %
                       (reason[0], opt[0], SENDS[reason[0]], "the connection is closed without the NOTIFICATION the reason names ever being transmitted" if opt[0] == "None"
                        else "a NOTIFICATION is sent on a connection the peer or the socket already ended"), fv.loc(bi))
    r.floor("SessionDown constructions in the FSM", n, 5)
