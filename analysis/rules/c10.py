"""C10 — GR helper: stale routes live only while a timer or EOR is pending (structural clauses)."""
import re

from ..cfg import Renderer, walk, show, flat_guards, branches
from ..facts import callee_names, short
from ..sig import fn_tokens
from ..tables import extract_arms
from ..util import view, crate_fns, root_name, expr_calls, expr_fields, expr_vars, field_writes

EXPLANATION = (
    "Static rules over daemon/src/gr.rs, event/mod.rs and the table crate: R10.1 the helper transition table "
    "(state, input) -> (state', must/may outputs) is extracted from GrState::process and checked against graph invariants: "
    "every edge into PeerRestarting emits StartTimer, into LlgrStaling (from another state) StartLlgrTimers, every edge from a "
    "stale-holding state to Idle emits the matching Delete*, SessionEstablished emits StopTimer / StopLlgrTimers, and when a "
    "reconnect keeps only some families the families that leave are purged in both reconnect arms; R10.2 the stale/drop family "
    "sets passed to unregister_peer are data-dependent on gr_on_disconnect(shutdown_reason, ..) (a hard reset / admin shutdown "
    "must not retain stale routes); gr_on_disconnect accepts only the listed reasons; R10.3 every cancel_gr_timer is followed "
    "on all paths by a GrState::process input, a re-arm or a purge; R10.4 every GrOutput the table can produce for an input is "
    "consumed by the driver site that feeds that input; R10.5 the stale purge matches only (peer, stale source) entries and does not depend on the import verdict (is_filtered). "
    "Decides timer/purge pairing structure, not timer expiry timing.")
ASSUMPTIONS = [
    "dropping a oneshot::Sender cancels the timer task; sending () fires it (tokio semantics as used by the repo)",
]

STALE_STATES = {"PeerRestarting", "LlgrStaling", "PeerReconnected"}
GRP = r"rustybgpd::gr::GrState::process"


def run(prog, rep, tier):
    r1 = rep.rule("R10.1", "GrState transition table satisfies the stale-route invariants")
    arms = check_table(prog, r1)
    r2 = rep.rule("R10.2", "retention of stale routes follows gr_on_disconnect eligibility")
    check_retention(prog, r2)
    r3 = rep.rule("R10.3", "cancel_gr_timer is always paired with a state advance, re-arm or purge")
    check_cancel(prog, r3)
    check_established_reported(prog, r3)
    r4 = rep.rule("R10.4", "every GrOutput possible for an input is consumed where that input is fed")
    check_outputs_honoured(prog, r4, arms)
    r5 = rep.rule("R10.5", "stale purge spares re-announced routes (matches peer address and stale source only)")
    check_purge_predicate(prog, r5)


def _src(a):
    return a.cond(r"state") or frozenset({"*"})


def _inp(a):
    return a.cond(r"input") or frozenset({"*"})


def check_table(prog, r):
    fv = view(prog, prog.one(GRP))
    r.analysed(fv.name)
    arms = extract_arms(prog, fv, r"gr::Inner", r"rustybgpd::gr::GrOutput")
    # fail closed if the table cannot be read; counted in (state, input) pairs so that merging arms with or-patterns
    # (or splitting them) does not matter
    pairs = {(s_, i_) for a in (arms or []) for s_ in _src(a) for i_ in _inp(a)}
    if not arms or len(arms) < 6 or len(pairs) < 8:
        r.unanalysable("GrState::process: %s arms / %d (state, input) pairs extracted (want >= 6 / 8)" % (len(arms) if arms else 0, len(pairs)), fv.loc())
        return arms or []
    for a in arms:
        ns = {s for s in a.new_states if not s.startswith("call:std::mem::replace")}
        real = {s for s in ns if s != "same"} or {"same"}
        must = {m[0] for m in a.must}
        may = {m[0] for m in a.may} | must
        src, inp = _src(a), _inp(a)
        desc = "(%s, %s) -> %s" % ("|".join(sorted(src)), "|".join(sorted(inp)), "|".join(sorted(real)))
        key = "%s+%s" % ("|".join(sorted(src)), "|".join(sorted(inp)))
        extra = a.describe()
        # (i) into PeerRestarting
        if "PeerRestarting" in real:
            if "StartTimer" in must:
                r.ok(desc + ": StartTimer")
            else:
                r.fail(fv.name, "into-PeerRestarting:" + key, "edge %s enters PeerRestarting without StartTimer: stale routes with no restart timer" % desc, fv.loc(a.block))
        # (ii) into LlgrStaling from elsewhere
        if "LlgrStaling" in real and src != frozenset({"LlgrStaling"}):
            if "StartLlgrTimers" in must:
                r.ok(desc + ": StartLlgrTimers")
            else:
                r.fail(fv.name, "into-LlgrStaling:" + key, "edge %s enters LlgrStaling without StartLlgrTimers" % desc, fv.loc(a.block))
        # (ii') hand-over from the restart timer to LLGR: the families held as GR-stale that get no LLGR timer must be deleted
        # on this edge (no timer and no End-of-RIB will ever come for them)
        if inp == frozenset({"TimerExpired"}) and src == frozenset({"PeerRestarting"}) and "LlgrStaling" in real:
            if may & {"DeleteStaleRoutes"}:
                r.ok(desc + ": GR-stale families without an LLGR timer are deleted at the hand-over")
            else:
                r.fail(fv.name, "llgr-handover-keeps-gr-only-families", "edge %s starts LLGR timers for the LLGR families and forgets `stale_families`: a family negotiated for GR but not for LLGR "
                       "stays GR-stale with no timer armed and no End-of-RIB awaited" % desc, fv.loc(a.block))
        # (iii)/(v) stale-holding -> Idle must delete
        if src <= STALE_STATES and "Idle" in real:
            want = {"PeerRestarting": "DeleteStaleRoutes", "LlgrStaling": "DeleteLlgrStaleRoutes"}
            need = {want[s] for s in src if s in want}
            if src == frozenset({"PeerReconnected"}):
                need = {"DeleteStaleRoutes"} if a.cond(r".*from_llgr") == frozenset({"false"}) else {"DeleteLlgrStaleRoutes"} if a.cond(r".*from_llgr") == frozenset({"true"}) else {"DeleteStaleRoutes", "DeleteLlgrStaleRoutes"}
                if not (need & may):
                    r.fail(fv.name, "to-Idle:" + key, "edge %s leaves a stale-holding state for Idle without a Delete output" % desc, fv.loc(a.block))
                else:
                    r.ok(desc + ": " + ",".join(sorted(need & may)))
            elif need <= may:
                r.ok(desc + ": " + ",".join(sorted(need)))
            else:
                r.fail(fv.name, "to-Idle:" + key, "edge %s can reach Idle without %s: stale routes outlive the helper state" % (desc, ",".join(sorted(need - may))), fv.loc(a.block))
        # (iv) SessionEstablished
        if inp == frozenset({"SessionEstablished"}) and src <= STALE_STATES and src != frozenset({"*"}):
            want = {"PeerRestarting": "StopTimer", "LlgrStaling": "StopLlgrTimers"}
            for s in src:
                if s in want:
                    if want[s] in must:
                        r.ok(desc + ": " + want[s])
                    else:
                        r.fail(fv.name, "reconnect-stop:" + key, "reconnect edge %s does not emit %s" % (desc, want[s]), fv.loc(a.block))
            # partial re-negotiation: families leaving the stale set must be purged (sibling agreement of the two arms)
            if "PeerReconnected" in real:
                dele = [m for m in (a.must + a.may) if m[0].startswith("Delete")]
                partial = False
                # blocks of this arm that build the PeerReconnected state
                recon = [bb for bb, si_, s_ in fv.aggregates(re.compile(r"rustybgpd::gr::Inner"), "PeerReconnected") if bb == a.block or bb in fv.reach(a.block) or a.block in fv.reach(bb)]
                for v, s, b in dele:
                    gs = flat_guards(fv, b)
                    # a Delete that can be emitted while the new state is PeerReconnected: not guarded by "new state is Idle",
                    # and on a common path with the construction of PeerReconnected (an exclusive branch is the Idle case)
                    idle_only = any("Idle" in show(g, 200) and "matches" not in show(g, 50) for g, l, h in gs) or \
                        any(g[0] == "discr" and "new_state" in expr_vars(g) and l == {"Idle"} for g, l, h in gs)
                    same_path = any(b in fv.reach(rb) or rb in fv.reach(b) for rb in recon)
                    if not idle_only and same_path:
                        partial = True
                if partial:
                    r.ok(desc + ": families dropped by the re-negotiation are purged")
                else:
                    r.fail(fv.name, "reconnect-partial:" + key,
                           "reconnect edge %s keeps only the re-negotiated families pending but never purges the other held families (their timers were stopped, no EOR will come): the sibling arm computes `dropped` and deletes it" % desc,
                           fv.loc(a.block))
        # default arm keeps the state
        if not a.conds and real == {"same"} and not may:
            r.ok("default arm: state unchanged, no outputs")
    return arms


def check_live_session_purges(prog, r):
    """While a session is up (PeerSession::process_effects: reconnect, End-of-RIB) the helper may only remove the routes
    still marked stale: TableManager::drop_families removes every path of the peer in the family, including the ones
    re-announced on the new session.  The all-paths drop belongs to the paths that run with the session down."""
    pk = prog.one(r"rustybgpd::event::PeerSession::process_effects")
    fv = view(prog, prog.body_key(pk))
    r.analysed(prog.name(pk))
    allp = fv.calls(re.compile(r"rustybgpd::table_manager::TableManager::drop_families$"))
    stale = fv.calls(re.compile(r"rustybgpd::table_manager::TableManager::(drop_stale_families|drop_llgr_stale_families)$"))
    if allp:
        r.fail(prog.name(pk), "live-session-purge-drops-all", "process_effects (session established) purges with TableManager::drop_families at line %d: that removes the routes the peer "
               "has just re-announced together with the stale ones" % fv.line(allp[0][0]), fv.loc(allp[0][0]))
    elif len(stale) >= 4:
        r.ok("process_effects purges only with drop_stale_families / drop_llgr_stale_families (%d sites)" % len(stale))
    else:
        r.unanalysable("process_effects: %d stale-only purge sites (want >= 4)" % len(stale), fv.loc())


def check_retention(prog, r):
    check_live_session_purges(prog, r)
    sl = prog.one(r"rustybgpd::event::PeerSession::session_loop")
    fv = view(prog, prog.body_key(sl))
    r.analysed(prog.name(sl))
    ups = fv.calls(re.compile(r"rustybgpd::table_manager::TableManager::unregister_peer"))
    if len(ups) != 1:
        r.unanalysable("session_loop: %d calls of unregister_peer" % len(ups), fv.loc())
    rend = Renderer(fv, depth=30, through_names=True)
    for bi, t in ups:
        for idx, what in ((2, "drop_families"), (3, "stale_families")):
            e = rend.operand(t["args"][idx], 30)
            calls = list(expr_calls(e))
            # calls made by closures that are part of the expression (`.and_then(|gr| gr_on_disconnect(&reason, gr))`)
            for x in walk(e):
                if isinstance(x, tuple) and x and x[0] == "agg" and x[1] == "closure" and x[2] in prog.ix:
                    calls += [prog.name(k) for k in prog.callees(x[2]) if k in prog.ix]
            if not any(c.endswith("gr_on_disconnect") for c in calls):
                # the value may be put together by a `match` / several lets: follow every definition that can reach it
                from ..util import back_slice_calls
                q = t["args"][idx].get("c") or t["args"][idx].get("m")
                if q is not None:
                    calls += list(back_slice_calls(prog, fv, [q["l"]]))
            if any(c.endswith("gr_on_disconnect") for c in calls):
                r.ok("session_loop: %s derives from gr_on_disconnect(..)" % what)
            else:
                src = sorted({f for f in expr_fields(e) if f in ("negotiated_gr", "negotiated_llgr")})
                r.fail(prog.name(sl), "retention:%s" % what,
                       "%s passed to unregister_peer derives from %s without consulting gr_on_disconnect(shutdown_reason, ..): after a hard reset, admin shutdown or non-Cease error "
                       "the GR families are still kept as stale, and no restart timer is armed for them" % (what, ",".join(src) or show(e, 60)), fv.loc(bi))
    # gr_on_disconnect as a decision table (analysis/predicates.py): Some(gr) = helper mode.  Necessary: always for a plain
    # TCP / IO drop; never for AdminShutdown / FsmError; for a NOTIFICATION (sent or received) or a hold-timer expiry only when
    # the peer set the N bit (notification_enabled), and never when the NOTIFICATION is a hard reset.
    from .. import predicates
    gk = prog.one(r"rustybgpd::event::gr_on_disconnect")
    r.analysed(prog.name(gk))
    REASONS = {"RemoteNotification", "LocalNotification", "HoldTimerExpired", "IoError", "AdminShutdown", "FsmError"}

    def cls(e, labels, fvx):
        lab = set(labels)
        calls = expr_calls(e)
        if e[0] == "discr" and e[2] and e[2].endswith("fsm::SessionDownReason") and "else" not in lab:
            return ("reason", frozenset(lab))
        if e[0] == "discr" and e[2] and e[2].endswith("Option") and lab <= {"Some", "None"} and len(lab) == 1 and not calls and fvx.local_name.get(1) in expr_vars(e):
            return ("down", lab == {"Some"})
        if e[0] == "discr" and e[2] and e[2].endswith("Notification") and "else" not in lab:
            # a test on the NOTIFICATION's (sub)code
            return ("notif_code", frozenset(lab))
        if len(lab) == 1 and lab <= {"true", "false"}:
            t_ = lab == {"true"}
            if e[0] in ("field", "deref", "var") and "notification_enabled" in (expr_fields(e) + expr_vars(e)):
                return ("n_bit", t_)
            if e[0] == "call" and e[1].endswith("is_hard_reset"):
                return ("hard_reset", t_)
        return None
    rws, gv = predicates.rows(prog, gk, cls)
    if rws is None:
        r.unanalysable("gr_on_disconnect: too many paths", gv.loc())
    else:
        bad = []
        n_some = 0
        for facts, res, unknown in rws:
            if res is None:
                bad.append(("a path's result could not be read", facts))
                continue
            down = facts.get("down")
            reasons = set(facts.get("reason") or (REASONS if down is not False else set()))
            plain = down is False or reasons <= {"IoError"}
            if res:
                n_some += 1
                if reasons & {"AdminShutdown", "FsmError"}:
                    bad.append(("helper mode after %s" % sorted(reasons & {"AdminShutdown", "FsmError"}), facts))
                elif not plain and facts.get("n_bit") is not True:
                    bad.append(("helper mode after %s without the N bit (notification_enabled)" % sorted(reasons), facts))
                elif not plain and facts.get("hard_reset") is True:
                    bad.append(("helper mode after a hard reset", facts))
                elif reasons and reasons <= {"LocalNotification"} and not (facts.get("notif_code") and all(str(x).startswith("Cease") or str(x) == "Other" for x in facts["notif_code"])):
                    # RFC 8538: of the NOTIFICATIONs this speaker sends only a Cease keeps the routes; a session closed for a
                    # malformed UPDATE / bad OPEN / FSM error must not enter helper mode
                    bad.append(("helper mode after a NOTIFICATION we sent that was not tested to be a Cease", facts))
            elif plain and down is not None:
                bad.append(("no helper mode after a plain TCP / IO drop", facts))
        if bad:
            r.fail(gv.name, "eligibility", "gr_on_disconnect: %s (path facts: %s)" % (bad[0][0], sorted((k, str(v)) for k, v in bad[0][1].items())), gv.loc())
        elif n_some == 0:
            r.unanalysable("gr_on_disconnect: no path yields Some(gr)", gv.loc())
        else:
            r.ok("gr_on_disconnect: helper mode always after a TCP/IO drop, never after AdminShutdown/FsmError, otherwise only with the N bit and never after a hard reset (%d paths)" % len(rws))


def check_timer_tasks(prog, r):
    """One-shot driven timer tasks (restart timer, per-family LLGR timers, RTC EOR timer): the expiry handler runs when
    the timeout elapses *and* when the one-shot is fired (force_down / StopBgp purge the routes that way); it does not
    run when the sender is simply dropped (cancel).  All tasks must agree on this three-way reading."""
    n = 0
    for k in crate_fns(prog, "rustybgpd"):
        ix = prog.ix[k]
        if ix["kind"] not in ("coroutine", "closure") or "::tests::" in ix["name"]:
            continue
        names = [c["f"].get("name", "") for c in ix["calls"]]
        hs = [x for x in names if re.search(r"(gr_restart|llgr|rtc_eor)_timer_expired", x)]
        if not hs or not any("tokio::time::timeout" in x or "Timeout" in x for x in names):
            continue
        fv = view(prog, k)
        n += 1
        r.analysed(ix["name"])
        brs = branches(fv)
        outer = [br for br in brs.values() if br.expr[0] == "discr" and br.expr[1] == ("var", "result") and br.adt and br.adt.endswith("result::Result")]
        inner = [br for br in brs.values() if br.expr[0] == "discr" and br.adt and br.adt.endswith("result::Result") and show(br.expr, 60).startswith("discr((result as Ok)")]
        hcalls = [b for b, t in fv.calls(re.compile(r".*(gr_restart|llgr|rtc_eor)_timer_expired.*"))]
        tag = re.sub(r"::\{closure#\d+\}", "", ix["name"]).split("::")[-1] + ":" + re.sub(r".*::", "", hs[0]).split("_timer")[0]
        if not hcalls:
            continue
        if not outer:
            coarse = [br for br in brs.values() if br.expr[0] == "call" and re.search(r"Result::<T, E>::(is_err|is_ok)$", br.expr[1])]
            if coarse:
                r.fail(ix["name"], "timer-task-ignores-fire:" + tag, "the timer task only asks whether the timeout elapsed (is_err/is_ok) and never looks at the one-shot's own result: firing the one-shot "
                       "(force_down, StopBgp) is treated like dropping it, so the stale routes it was meant to purge stay with no timer armed", fv.loc(hcalls[0]))
            else:
                r.unanalysable("%s: the result of the timeout is not matched" % ix["name"], fv.loc())
            continue
        def edges(brl, lab):
            out = set()
            for br in brl:
                for v, tgt in br.cases + [("else", br.otherwise)]:
                    if br.label(prog, v) == lab:
                        out.add((br.bi, tgt))
            return out
        elapsed = edges(outer, "Err")
        fired = edges(inner, "Ok")
        # `let run = match .. { .. => true, .. => false }; if run { handler }`: the handler runs exactly on the paths that
        # assign `true`; without such a flag, on the paths that reach the handler call itself
        targets = list(hcalls)
        from ..cfg import guards_of as _go
        for h in hcalls:
            for br, labels in _go(fv, h, brs):
                if br.ty == "bool" and labels == {"true"} and br.expr[0] in ("var", "tmp"):
                    lv = [l for l, nm_ in fv.local_name.items() if br.expr[0] == "var" and nm_ == br.expr[1]] or ([br.expr[1]] if br.expr[0] == "tmp" else [])
                    tb = [bi for l in lv for bi, si, s_ in fv.defs().get(l, []) if bi in fv.live and si != "t" and s_["rv"]["r"] == "use" and (s_["rv"]["o"].get("k") or {}).get("v") == 1]
                    if tb:
                        targets = tb
        on_fire = any(h in fv.reach(fv.entry, (), elapsed) for h in targets)
        on_cancel = any(h in fv.reach(fv.entry, (), elapsed | fired) for h in targets) if inner else on_fire
        if on_fire and not on_cancel:
            r.ok("%s: handler runs on timeout and on an explicit fire, not on cancel" % tag)
        elif not on_fire:
            r.fail(ix["name"], "timer-task-ignores-fire:" + tag, "the expiry handler runs only when the timeout elapses: firing the one-shot (force_down, StopBgp) is treated like a cancel, "
                   "so the stale routes it was meant to purge stay with no timer armed", fv.loc(hcalls[0]))
        else:
            r.fail(ix["name"], "timer-task-runs-on-cancel:" + tag, "the expiry handler also runs when the one-shot sender is dropped: cancelling the timer (peer reconnected) purges the routes", fv.loc(hcalls[0]))
    r.floor("one-shot timer tasks", n, 3)


CANCEL = re.compile(r"rustybgpd::event::PeerContext::cancel_gr_timer")
FOLLOW = re.compile(r"rustybgpd::gr::GrState::process|rustybgpd::table_manager::TableManager::(drop_families|drop_stale_families|drop_llgr_stale_families)")


def check_cancel(prog, r):
    check_timer_tasks(prog, r)
    ck = prog.one(r"rustybgpd::event::PeerContext::cancel_gr_timer")
    n = 0
    for c in sorted(prog.callers(ck)):
        fv = view(prog, c)
        rn = root_name(prog, c)
        for bi, t in fv.calls(CANCEL):
            n += 1
            r.analysed(rn)
            follow = [b for b, tt in fv.calls(FOLLOW)]
            rearm = [b for b, si, s in field_writes(fv, "gr_restart_timer")]
            exits = fv.returns()
            idle = any(g[0] == "call" and g[1].endswith("GrState::is_peer_restarting") and l == {"false"} for g, l, h in flat_guards(fv, bi))
            if idle:
                r.ok("%s: cancel_gr_timer @%d only while GrState is not in helper mode (no restart timer can be pending)" % (short(rn), fv.line(bi)))
            elif fv.must_pass(bi, follow + rearm, exits):
                r.ok("%s: cancel_gr_timer @%d always followed by a GrState input / purge / re-arm" % (short(rn), fv.line(bi)))
            else:
                # describe the escaping branch
                esc = fv.reach_after(bi, follow + rearm)
                gs = []
                for b in sorted(esc):
                    for g, l, h in flat_guards(fv, b):
                        s = show(g, 50) + ":" + "|".join(sorted(l))
                        if s not in gs:
                            gs.append(s)
                branch = _branch_tag(fv, bi)
                r.fail(rn, "cancel-unpaired:" + branch,
                       "cancel_gr_timer (line %d) can be followed by a return without GrState::process, a purge or a re-arm: a pending restart timer is disarmed while the stale routes stay" % fv.line(bi), fv.loc(bi))
    r.floor("call sites of cancel_gr_timer", n, 3)


def _branch_tag(fv, bi):
    tags = []
    for g, l, h in flat_guards(fv, bi):
        s = show(g, 200)
        if "negotiated_gr" in s or "negotiated_llgr" in s:
            tags.append("gr" + ("+" if l == {"true"} else "-"))
        if "GrSessionEstablished" in l or "effect" in s and "GrSessionEstablished" in "|".join(sorted(l)):
            tags.append("GrSessionEstablished")
        if g[0] == "var" and g[1] == "is_restarting":
            tags.append("is_restarting" + ("+" if l == {"true"} else "-"))
    return ",".join(sorted(set(tags))) or "top"


def check_outputs_honoured(prog, r, arms):
    if not arms:
        r.unanalysable("no transition table available")
        return
    # outputs possible per input, from the extracted table
    per_input = {}
    for a in arms:
        for i in _inp(a):
            per_input.setdefault(i, set()).update(m[0] for m in a.must + a.may)
    gp = prog.one(GRP)
    n = 0
    for c in sorted(prog.callers(gp)):
        if not c.startswith("rustybgpd::") or c.startswith("rustybgpd::gr::"):
            continue
        fv = view(prog, c)
        rn = root_name(prog, c)
        for bi, t in fv.calls(re.compile(GRP)):
            e = Renderer(fv, depth=10).operand(t["args"][1], 10)
            inp = e[2] if e[0] == "agg" else None
            if inp is None:
                r.unanalysable("%s: GrInput not a literal variant" % short(rn), fv.loc(bi))
                continue
            n += 1
            r.analysed(rn)
            possible = per_input.get(inp, set()) | per_input.get("*", set())
            consumed = set()
            bodies = [c] + [k for k in prog.with_closures(prog.ix[c].get("root") or c)]
            for k in set(bodies):
                kv = view(prog, k)
                for cb, tt in kv.calls():
                    for nm in callee_names(tt):
                        if nm.startswith("rustybgpd::event::collect_delete") or nm.endswith("spawn_llgr_timers"):
                            hk = prog.by_name.get(nm, [None])[0]
                            if hk:
                                for hh in prog.with_closures(hk):
                                    consumed |= _out_variants(prog, view(prog, hh))
                consumed |= _out_variants(prog, kv)
            cancels_before = any(b for b, tt in fv.calls(CANCEL) if bi in fv.reach_after(b)) or \
                any(bi in view(prog, k).reach(view(prog, k).entry) and view(prog, k).calls(CANCEL) for k in set(bodies))
            missing = set()
            for o in possible:
                if o == "StopTimer" and cancels_before:
                    continue
                if o not in consumed:
                    missing.add(o)
            if missing:
                r.fail(rn, "unhandled:%s:%s" % (inp, ",".join(sorted(missing))),
                       "GrState::process(%s) can emit %s but the driver here never matches on %s" % (inp, sorted(possible), sorted(missing)), fv.loc(bi))
            else:
                r.ok("%s feeds %s: handles %s" % (short(rn), inp, sorted(possible)))
    r.floor("driver sites feeding GrState::process", n, 5)
    # StartTimer arm stores the sender; StartLlgrTimers arm marks LLGR stale (restale + NO_LLGR purge)
    ad = view(prog, prog.body_key(prog.one(r"rustybgpd::event::apply_disconnect")))
    ws = field_writes(ad, "gr_restart_timer")
    ok = False
    for b, si, s in ws:
        if any(g[0] == "discr" and g[2] and g[2].endswith("gr::GrOutput") and l == {"StartTimer"} for g, l, h in flat_guards(ad, b)):
            ok = True
    if ok:
        r.ok("apply_disconnect: StartTimer stores the timer sender in gr_restart_timer")
    else:
        r.fail(ad.name, "starttimer-not-stored", "the StartTimer arm does not store the timer handle: the restart timer cannot be cancelled or fired", ad.loc())
    sp = prog.one(r"rustybgpd::event::spawn_llgr_timers")
    toks = fn_tokens(prog, sp, depth=3)
    need = ["TableManager::mark_llgr_stale", "Table::restale_llgr", "Table::drop_no_llgr"]
    miss = [n_ for n_ in need if not any(t.endswith(n_) for t in toks if t.startswith("call:"))]
    if miss:
        r.fail(prog.name(sp), "llgr-start:" + ",".join(miss), "starting the LLGR period does not reach %s" % miss, "daemon/src/event/mod.rs")
    else:
        r.ok("spawn_llgr_timers -> mark_llgr_stale -> restale_llgr + drop_no_llgr")


def _out_variants(prog, fv):
    out = set()
    for bi, br in branches(fv).items():
        if br.expr[0] == "discr" and br.adt and br.adt.endswith("gr::GrOutput"):
            for v, tgt in br.cases:
                out.add(br.label(prog, v))
    return out


def check_purge_predicate(prog, r):
    for m, need in (("drop_stale", r"Source::is_stale"), ("drop_llgr_stale", r"RibEntry::is_llgr_stale")):
        k = prog.one(r"rustybgp_table::Table::" + m)
        r.analysed(prog.name(k))
        ok = False
        for ck in prog.with_closures(k)[1:]:
            cfv = view(prog, ck)
            # the closure passed to Vec::retain over entries
            toks = fn_tokens(prog, ck, depth=0)
            if any(t.endswith(need) for t in toks if t.startswith("call:")) and "field:remote_addr" in toks:
                ok = True
        # and the retain over RibEntry exists
        has_retain = any("RibEntry" in t["f"].get("ga", "") for kk in prog.with_closures(k) for b, t in view(prog, kk).calls(re.compile(r".*Vec::<T, A>::retain")))
        if ok and has_retain:
            r.ok("%s: retain predicate tests remote_addr and %s" % (m, need.split("::")[-1]))
        else:
            r.fail(prog.name(k), "purge-predicate", "%s does not restrict the purge to (peer address, %s)" % (m, need.split("::")[-1]), "table/src/lib.rs")
        # the purge does not depend on the import verdict: a stale path that policy rejected is still a stale path of the peer
        # and must go with the others (the is_filtered test belongs to the accepted-count only)
        from ..cfg import Renderer as _R
        for kk in prog.with_closures(k):
            v_ = view(prog, kk)
            for b_, t_ in v_.calls(re.compile(r".*Vec::<T, A>::retain")):
                if "RibEntry" not in t_["f"].get("ga", ""):
                    continue
                txt = repr(_R(v_, depth=8, through_names=True).operand(t_["args"][1], 8))
                for ck in prog.with_closures(k)[1:]:
                    tail = prog.name(ck).split("::" + m + "::", 1)[-1]
                    if tail in txt and not any(prog.name(c2).split("::" + m + "::", 1)[-1].startswith(tail + "::") and prog.name(c2).split("::" + m + "::", 1)[-1] in txt for c2 in prog.with_closures(k)[1:]):
                        if any(t.endswith("RibEntry::is_filtered") for t in fn_tokens(prog, ck, depth=2) if t.startswith("call:")):
                            r.fail(prog.name(k), "purge-skips-filtered", "%s keeps or drops a peer's stale path depending on is_filtered(): a stale path that import policy rejected survives the "
                                   "purge with no timer or End-of-RIB left to remove it" % m, v_.loc(b_))
                        else:
                            r.ok("%s: the purge predicate does not consult the import verdict" % m)


def check_established_reported(prog, r):
    """A session that comes up is reported to the helper machinery (GlobalEffect::GrSessionEstablished) whether or not it negotiated
    graceful restart: that report is what cancels a restart timer left running from the previous session.  If it is sent only when
    GR was negotiated, a peer that comes back *without* GR keeps the old timer, and its expiry purges the routes of the live session."""
    k = prog.one(r"rustybgpd::event::PeerSession::apply_outputs")
    bodies = [view(prog, kk) for kk in prog.with_closures(k)]
    r.analysed(prog.name(k))
    n = 0
    for fv in bodies:
        for bi, si, st in fv.aggregates(re.compile(r"rustybgpd::event::GlobalEffect$"), "GrSessionEstablished"):
            n += 1
            brs = branches(fv, Renderer(fv, depth=12, through_names=True))
            cond = [g for g, l, h in flat_guards(fv, bi, brs, named=True) if {"negotiated_gr", "negotiated_llgr"} & set(expr_fields(g))]
            if cond:
                r.fail(prog.name(k), "established-report-conditional", "GrSessionEstablished is pushed only under %s: a peer that re-establishes without the capability never cancels the restart "
                       "timer of its previous session, and the timer's expiry drops the routes announced on the new one" % show(cond[0], 60), fv.loc(bi))
            else:
                r.ok("apply_outputs: GrSessionEstablished is reported for every established session, with or without GR")
    if n == 0:
        r.unanalysable("apply_outputs: GlobalEffect::GrSessionEstablished is never built", bodies[0].loc())
