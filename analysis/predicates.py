"""Truth tables of small boolean deciders.

`rows(prog, key, classify)` enumerates the entry->return paths of the deep view of a function (closures it calls and the
Option/Result combinators expanded in place, analysis/inline.py; constant flags followed, analysis/paths.py) and turns every
path into (facts, result): facts = {atom: value} for the branch conditions `classify` recognises, result = True / False.
A result that is itself a computed condition (`a && f(x)` ends in `return f(x)`) is split into two rows.
`counterexamples(rows, universe, spec)` compares with a specification given as a Python predicate over total valuations:
every completion of a row's facts over `universe` must give spec(v) == result.  How the function spells the decision (nested
ifs, early returns, match, is_some_and chains, a local helper closure) does not matter."""
import itertools

from .cfg import Renderer, show
from .paths import enumerate_paths, PathLimit
from .util import view_deep, view


def rows(prog, key, classify, deep=True, max_paths=20000):
    fv = view_deep(prog, key) if deep else view(prog, key)
    rend = Renderer(fv, depth=16, through_names=True)
    try:
        paths = enumerate_paths(fv, rend, max_paths=max_paths)
    except PathLimit:
        return None, fv
    out = []
    for conds, blocks, env in paths:
        facts, unknown, ok = {}, [], True
        for br, labels in conds:
            a = classify(br.expr, labels, fv)
            if a is None:
                unknown.append((show(br.expr, 80), tuple(sorted(map(str, labels)))))
                continue
            if a == "skip":
                continue
            name, val = a
            if isinstance(val, (set, frozenset)):
                cur = facts.get(name)
                val = frozenset(val) if cur is None else (cur & frozenset(val))
                if not val:
                    ok = False
                facts[name] = val
                continue
            if name in facts and facts[name] != val:
                ok = False          # contradictory: infeasible path
            facts.setdefault(name, val)
        if not ok:
            continue
        res = env.get((0, ()))
        if res in (0, 1):
            out.append((facts, bool(res), unknown))
            continue
        # Option / Result valued deciders: Some / Ok = true
        vn = env.get((0, ("#variant",)))
        if vn in ("Some", "Ok", "None", "Err"):
            out.append((facts, vn in ("Some", "Ok"), unknown))
            continue
        # computed result: the definition of _0 on this path
        pos = {b: i for i, b in enumerate(blocks)}
        ds = [d for d in fv.defs().get(0, []) if d[0] in pos]
        if not ds:
            out.append((facts, None, unknown))
            continue
        bi, si, st = max(ds, key=lambda d: pos[d[0]])
        cur_e = rend.call_expr(st, 16, bi) if si == "t" else rend.rvalue(st["rv"], 16)
        # follow a copy chain to the definition passed on this path
        hops = 0
        while si != "t" and st["rv"]["r"] == "use" and hops < 6:
            hops += 1
            q = st["rv"]["o"].get("c") or st["rv"]["o"].get("m")
            if q is None or q.get("p"):
                break
            ds2 = [d for d in fv.defs().get(q["l"], []) if d[0] in pos]
            if not ds2:
                break
            bi, si, st = max(ds2, key=lambda d: pos[d[0]])
            cur_e = rend.call_expr(st, 16, bi) if si == "t" else rend.rvalue(st["rv"], 16)
        a = classify(cur_e, frozenset({"true"}), fv)
        if a is None or a == "skip":
            out.append((facts, None, unknown + [("result:" + show(cur_e, 80), ())]))
            continue
        name, val = a
        for v in (True, False):
            if name in facts and facts[name] != (val if v else not val):
                continue
            f2 = dict(facts)
            f2[name] = val if v else (not val)
            out.append((f2, v, unknown))
    return out, fv


def counterexamples(rws, universe, spec, feasible=None, limit=5):
    """universe: list of boolean atom names, or dict atom -> list of values (enum atoms; a row's fact for such an atom is the
    frozenset of values the path allows)."""
    if not isinstance(universe, dict):
        universe = {a: [False, True] for a in universe}
    bad = []
    for facts, res, unknown in rws:
        if res is None:
            bad.append(("undecided-result", facts, unknown))
            continue
        names = list(universe)
        doms = []
        for a in names:
            if a in facts:
                fv_ = facts[a]
                doms.append([x for x in universe[a] if (x in fv_ if isinstance(fv_, (set, frozenset)) else x == fv_)])
            else:
                doms.append(list(universe[a]))
        for vals in itertools.product(*doms):
            v = dict(zip(names, vals))
            if feasible is not None and not feasible(v):
                continue
            if bool(spec(v)) != res:
                bad.append(("mismatch", v, res))
                break
        if len(bad) >= limit:
            break
    return bad
