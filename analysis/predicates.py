"""Truth tables of small boolean deciders.

`rows(prog, key, classify)` enumerates the entry->return paths of the deep view of a function (closures it calls and the
Option/Result combinators expanded in place, analysis/inline.py; constant flags followed, analysis/paths.py) and turns every
path into (facts, result): facts = {atom: value} for the branch conditions `classify` recognises, result = True / False.
A result that is itself a computed condition (`a && f(x)` ends in `return f(x)`) is split into two rows.
`counterexamples(rows, universe, spec)` compares with a specification given as a Python predicate over total valuations:
every completion of a row's facts over `universe` must give spec(v) == result.  How the function spells the decision (nested
ifs, early returns, match, is_some_and chains, a local helper closure) does not matter."""
import itertools

from .cfg import Renderer, show
from .paths import enumerate_paths, PathLimit
from .util import view_deep, view


class NotIn(frozenset):
    """Complement of a label set (an enum atom that is the function's result, on the `false` side)."""
    def __contains__(self, x):
        return not frozenset.__contains__(self, x)


def rows(prog, key, classify, deep=True, max_paths=20000):
    fv = view_deep(prog, key) if deep else view(prog, key)
    rend = Renderer(fv, depth=16, through_names=True)
    try:
        paths = enumerate_paths(fv, rend, max_paths=max_paths)
    except PathLimit:
        return None, fv
    out = []
    for conds, blocks, env in paths:
        facts, unknown, ok = {}, [], True
        for br, labels in conds:
            a = classify(br.expr, labels, fv)
            if a is None:
                unknown.append((show(br.expr, 80), tuple(sorted(map(str, labels)))))
                continue
            if a == "skip":
                continue
            name, val = a
            if isinstance(val, (set, frozenset)):
                cur = facts.get(name)
                val = frozenset(val) if cur is None else (cur & frozenset(val))
                if not val:
                    ok = False
                facts[name] = val
                continue
            if name in facts and facts[name] != val:
                ok = False          # contradictory: infeasible path
            facts.setdefault(name, val)
        if not ok:
            continue
        res = env.get((0, ()))
        if res in (0, 1):
            out.append((facts, bool(res), unknown))
            continue
        # Option / Result valued deciders: Some / Ok = true
        vn = env.get((0, ("#variant",)))
        if vn in ("Some", "Ok", "None", "Err"):
            out.append((facts, vn in ("Some", "Ok"), unknown))
            continue
        # computed result: the definition of _0 on this path, followed through copies and negations
        pos = {b: i for i, b in enumerate(blocks)}
        cur, neg, hops, final = 0, False, 0, None
        while hops < 24:
            hops += 1
            ds = [d for d in fv.defs().get(cur, []) if d[0] in pos]
            if not ds:
                break
            bi, si, st = max(ds, key=lambda d: pos[d[0]])
            if si == "t":
                final = ("expr", rend.call_expr(st, 16, bi))
                break
            rv = st["rv"]
            if rv["r"] == "use":
                o = rv["o"]
                if "k" in o and o["k"].get("v") in (0, 1):
                    final = ("const", bool(o["k"]["v"]))
                    break
                q = o.get("c") or o.get("m")
                if q is not None and not q.get("p"):
                    cur = q["l"]
                    continue
                final = ("expr", rend.rvalue(rv, 16))
                break
            if rv["r"] == "un" and rv.get("op") == "Not":
                q = rv["a"].get("c") or rv["a"].get("m")
                if q is not None and not q.get("p"):
                    neg = not neg
                    cur = q["l"]
                    continue
            final = ("expr", rend.rvalue(rv, 16))
            break
        if final is None:
            out.append((facts, None, unknown))
            continue
        if final[0] == "const":
            out.append((facts, final[1] != neg, unknown))
            continue
        cur_e = final[1]
        a = classify(cur_e, frozenset({"true"}), fv)
        if a is None or a == "skip":
            out.append((facts, None, unknown + [("result:" + show(cur_e, 80), ())]))
            continue
        name, val = a
        for v in (True, False):
            if isinstance(val, (set, frozenset)):
                atom_val = frozenset(val) if v else NotIn(val)
                f2 = dict(facts)
                if name in facts and isinstance(facts[name], (set, frozenset)) and not isinstance(facts[name], NotIn):
                    keep = frozenset(x for x in facts[name] if x in atom_val)
                    if not keep:
                        continue
                    f2[name] = keep
                else:
                    f2[name] = atom_val
                out.append((f2, v != neg, unknown))
                continue
            atom_val = val if v else (not val)
            if name in facts and facts[name] != atom_val:
                continue
            f2 = dict(facts)
            f2[name] = atom_val
            out.append((f2, v != neg, unknown))
    return out, fv


def counterexamples(rws, universe, spec, feasible=None, limit=5):
    """universe: list of boolean atom names, or dict atom -> list of values (enum atoms; a row's fact for such an atom is the
    frozenset of values the path allows)."""
    if not isinstance(universe, dict):
        universe = {a: [False, True] for a in universe}
    bad = []
    for facts, res, unknown in rws:
        if res is None:
            bad.append(("undecided-result", facts, unknown))
            continue
        names = list(universe)
        doms = []
        for a in names:
            if a in facts:
                fv_ = facts[a]
                doms.append([x for x in universe[a] if (x in fv_ if isinstance(fv_, (set, frozenset)) else x == fv_)])
            else:
                doms.append(list(universe[a]))
        for vals in itertools.product(*doms):
            v = dict(zip(names, vals))
            if feasible is not None and not feasible(v):
                continue
            if bool(spec(v)) != res:
                bad.append(("mismatch", v, res))
                break
        if len(bad) >= limit:
            break
    return bad
