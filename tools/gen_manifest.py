#!/usr/bin/env python3
"""Regenerate /verif/MANIFEST.json from the table below (kept next to the rules so they stay in step)."""
import json
import os

VERIF = os.path.dirname(os.path.dirname(os.path.abspath(__file__)))

TECH = {
    "C01": "MIR must-pass-through / pairing, sibling-branch callee-set agreement, control-dependence on Nlri equality for recycled keys, def-use provenance of untruncated dumps",
    "C02": "MIR comparator-chain extraction vs spec order table; sibling agreement (ECMP key, EVPN comparator selection); re-sort-after-write pairing; accumulator width",
    "C03": "MIR abstract interpretation (intervals + guard facts) over every panic site reachable from decoder entry points; loop-progress and frame-consumption path rules",
    "C04": "MIR byte-budget and length-back-patch path rules; narrowing-cast range check; reader/writer table agreement",
    "C05": "MIR control-dependence / edge-dominance of Update::Reach constructions; def-use of treat_as_withdraw; per-attribute validation table extraction vs RFC table",
    "C06": "MIR def-use provenance of NlriChange.current_paths; dominance bracketing of mutations; alloc/dealloc pairing incl. retain-closure idiom",
    "C07": "finite transition-table extraction from Connection handlers and PeerFsm::process (MIR path enumeration) vs RFC 4271 table; collision obligations by edge dominance",
    "C08": "MIR def-use of negotiated hold time; construction-site census of Set*Timer outputs; zero-guard control dependence across FSM and driver",
    "C09": "role-matrix extraction from export_attrs/export_nexthop (switch values per PeerRole arm) vs spec matrix; must-pass-through of filters before sink.reach",
    "C10": "GrState transition-table extraction + graph invariants; def-use of stale/drop family sets; cancel/re-arm pairing",
    "C11": "RestartingDeferral transition-table extraction + invariants; glue must-pass-through",
    "C12": "who-may-call rule on trie query direction (ancestor vs descendant) + guard-set extraction of the classification",
    "C13": "control dependence of rpki_reset on the snapshot phase; PDU handler exhaustiveness; cleanup must-pass-through",
    "C14": "MIR abstract interpretation for panic freedom of policy evaluation; in-use guard control dependence on every map mutation; chaining path rules; option coverage table",
    "C15": "sibling agreement of removal mutators on route_stats / counter updates; guard-set of the limit test and increment",
    "C16": "edge-dominance guard-set of PeerSession::new; field-read coverage of PeerGroup/PeerParams; mask-symmetry of negotiate; capability length table",
    "C17": "constructor-class who-may-call with constant codes; narrowing-cast range check in *_from_api; arm coverage agreement to_api/from_api; compile-fail witness for private fields",
    "C18": "lock-scope rule: subscriber-list loads feeding Adj-RIB-In events must be dominated by the shard lock; register-then-snapshot ordering; notify/mutate compensation",
    "C19": "length back-patch post-dominance; fixed-layout byte-count path invariance; count truncation casts; PDU-count def-use",
    "C20": "def-use pairing of returned next hops into unregister; guard implication for FIB trigger; refcount arithmetic guards",
}

LEVEL = "Static analysis of the type-checked MIR of /repo's working tree: decides the named structural necessary conditions at every enumerated site (see level_note); it does not decide the behavioural property over all inputs/histories."


def main():
    import importlib
    import sys
    sys.path.insert(0, VERIF)
    checks = []
    na = []
    na_reasons = json.load(open(os.path.join(VERIF, "tools", "not_applicable.json")))
    for i in range(1, 21):
        pid = "C%02d" % i
        path = os.path.join(VERIF, "analysis", "rules", pid.lower() + ".py")
        if pid in na_reasons:
            na.append({"property_id": pid, "reason": na_reasons[pid]})
            continue
        if not os.path.exists(path):
            na.append({"property_id": pid, "reason": "check under construction in this round (static rules designed in DESIGN.md §4, not yet armed)"})
            continue
        mod = importlib.import_module("analysis.rules." + pid.lower())
        checks.append({
            "property_id": pid,
            "quick_cmd": "./check %s --tier quick" % pid,
            "thorough_cmd": "./check %s --tier thorough" % pid,
            "evidence_file": "evidence/%s.json" % pid,
            "replay_cmd_template": "./check %s --explain" % pid,
            "engine": "analysis",
            "level_claimed": {"category": "other", "text": LEVEL, "design_ref": "DESIGN.md §4 " + pid},
            "level_note": mod.EXPLANATION + " Trusted: " + "; ".join(mod.ASSUMPTIONS + ["rustc MIR + rbgp-facts export", "spec tables in the rule module"]),
            "technique": "static analysis: " + TECH[pid],
        })
    m = {
        "version": 1,
        "setup_cmd": "python3 tools/setup.py",
        "hooks": {
            "guard": "osrg_rustybgp_verif",
            "enable": "none needed: static analysis reads the unmodified sources (no instrumentation hooks)",
            "baseline_off_cmd": "cd /repo && cargo test --workspace --no-fail-fast --offline",
            "source_commits": [],
            "add_only": True,
        },
        "engines": [
            {"name": "rbgp-facts", "path": "driver/", "serves_properties": [c["property_id"] for c in checks],
             "kind_free_text": "rustc_private driver exporting type-checked MIR (resolved callees, ADTs, constants) as JSON facts"},
            {"name": "analysis", "path": "analysis/", "serves_properties": [c["property_id"] for c in checks],
             "kind_free_text": "python3 rule engine: CFG/dominance/control-dependence, must-pass-through, def-use rendering, abstract interpretation, table extraction"},
        ],
        "checks": checks,
        "not_applicable": na,
        "notes": "Every check is a static analysis over facts re-extracted from /repo's current working tree (cached by source hash). "
                 "Value-level clauses (round trips, convergence over histories, wall-clock timing) are not applicable to this technique and are not claimed; see DESIGN.md §5.",
    }
    with open(os.path.join(VERIF, "MANIFEST.json"), "w") as fh:
        json.dump(m, fh, indent=1)
    print("checks:", [c["property_id"] for c in checks], "n/a:", [x["property_id"] for x in na])


if __name__ == "__main__":
    main()
