#!/bin/bash
# seed_eval.sh <seed-dir> [checks...]: apply /verif/seeded/<id>/patch.diff to /repo, run the checks, undo.
set -u
SD=$1; shift
CHECKS=${@:-"C01 C02 C03 C04 C05 C06 C07 C08 C09 C10 C11 C12 C13 C14 C15 C16 C17 C18 C19 C20"}
cd /verif
git -C /repo diff --quiet || { echo "/repo has local changes"; exit 2; }
git -C /repo apply $(realpath $SD/patch.diff) || { echo "patch does not apply to /repo"; exit 2; }
: > $SD/checks.txt
for c in $CHECKS; do
  ./check $c > /tmp/seed_$c.out 2>&1; rc=$?
  echo "$c exit=$rc $(grep -c '^FAIL' /tmp/seed_$c.out) fail-lines" >> $SD/checks.txt
  if [ $rc -ne 0 ]; then grep -E "^FAIL" -A2 /tmp/seed_$c.out | cut -c1-400 >> $SD/checks.txt; fi
done
git -C /repo checkout -- .
cat $SD/checks.txt | grep -v "exit=0"
