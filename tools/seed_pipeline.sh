#!/bin/bash
# seed_pipeline.sh <property> [offset]: confirm both seeds of /tmp/wt-<property> (full suite), import as <property>-<i+offset>
P=$1; OFF=${2:-0}
cd /verif
for i in 1 2; do
  [ -f /tmp/wt-$P/_seed/patch$i.diff ] || continue
  tools/seed_confirm.sh /tmp/wt-$P $i > /tmp/confirm_${P}_$i.out 2>&1
  grep -E "^build|^suite|^demo|patch does|FAILED$" /tmp/confirm_${P}_$i.out
  tools/seed_import.sh /tmp/wt-$P $P $i $((i+OFF))
done
