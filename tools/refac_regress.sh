#!/bin/bash
# Applies every kept behaviour-preserving change (refactors/<id>/patch.diff) to /repo in turn and runs ALL checks:
# none may report anything.  (Counterpart of seed_regress.sh, which requires every seeded breakage to be reported.)
cd /verif
bad=0; n=0; lim=0
for d in $(ls -d refactors/C??-r* | sort -V); do
  out=$(tools/refac_eval.sh $d/patch.diff $(basename $d) 2>&1 | tail -1)
  echo "$out"
  id=$(basename $d)
  case "$out" in *": 0 check(s) reported") ;; *"does not apply"*) ;; *) if grep -q "\"$id\"" refactors/KNOWN_LIMITS.json; then echo "   (known limit, see refactors/KNOWN_LIMITS.json)"; lim=$((lim+1)); else bad=$((bad+1)); fi;; esac
  n=$((n+1))
done
echo "refactors=$n alarming=$bad known-limits=$lim"
