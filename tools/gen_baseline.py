#!/usr/bin/env python3
"""Writes analysis/specs/baseline_fns.txt: the display names of every fn / method of the workspace crates in the reviewed
tree.  Run by hand after a reviewed change to /repo (a `fix:` commit); never at check time."""
import os, sys
sys.path.insert(0, os.path.dirname(os.path.dirname(os.path.abspath(__file__))))
from analysis import extract, facts
dirs, keys = extract.ensure_facts()
prog = facts.Program(dirs, inline=False)
names = sorted({r["name"] for k, r in prog.ix.items() if r["kind"] in ("fn", "method")})
out = os.path.join(os.path.dirname(os.path.dirname(os.path.abspath(__file__))), "analysis", "specs", "baseline_fns.txt")
with open(out, "w") as fh:
    fh.write("# fn / method names of the reviewed tree; functions not listed here are spliced into their callers (analysis/inline.py)\n")
    for n in names:
        fh.write(n + "\n")
print(len(names), "names ->", out)
