#!/bin/bash
# seed_import.sh <worktree> <property> <i> [n]: keep a confirmed seeded change under /verif/seeded/<property>-<n>/ (n defaults to i)
set -eu
WT=$1; P=$2; I=$3; N=${4:-$3}
D=/verif/seeded/$P-$N
mkdir -p $D
cp $WT/_seed/patch$I.diff $D/patch.diff
[ -f $WT/_seed/demo$I.diff ] && cp $WT/_seed/demo$I.diff $D/demo.diff
cp $WT/_seed/demo$I.md $D/demonstration.md
cp $WT/_seed/meta$I.json $D/meta.json
[ -f $WT/_seed/confirm$I.txt ] && grep -v "^ *Compiling\|^ *Finished\|^warning" $WT/_seed/confirm$I.txt > $D/confirmed.txt
echo imported $D
