"""Interactive helper: `from tools.sh import *` gives prog, view, re."""
import re, sys, json
sys.path.insert(0, '/verif')
from analysis.extract import ensure_facts
from analysis.facts import Program
from analysis.util import view
_r = ensure_facts()
prog = Program(_r[0] if isinstance(_r, tuple) else _r)
