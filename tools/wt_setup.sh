#!/bin/bash
# wt_setup.sh <property>...: scratch worktree /tmp/wt-<property> of /repo HEAD with a warm copy of the target dir
for P in "$@"; do
  git -C /repo worktree add --detach /tmp/wt-$P HEAD > /dev/null 2>&1 || { echo "worktree $P failed"; continue; }
  cp -r /repo/target /tmp/wt-$P/target
  echo "ready /tmp/wt-$P"
done
