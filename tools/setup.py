#!/usr/bin/env python3
"""MANIFEST.setup_cmd: build the fact extractor and run one extraction over /repo (offline)."""
import os
import sys

VERIF = os.path.dirname(os.path.dirname(os.path.abspath(__file__)))
sys.path.insert(0, VERIF)
from analysis import extract  # noqa: E402

os.environ.setdefault("CARGO_NET_OFFLINE", "true")
dirs, keys = extract.ensure_facts()
for c, d in dirs.items():
    print("facts:", c, d)
