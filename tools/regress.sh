#!/bin/bash
# Runs every claimed check on the current /repo tree; prints the ones that do not exit 0.
cd /verif
git -C /repo diff --quiet || echo "WARNING: /repo has uncommitted changes"
bad=0
for c in $(python3 -c "import json;print(' '.join(x['property_id'] for x in json.load(open('MANIFEST.json'))['checks']))"); do
  ./check $c --tier ${1:-quick} > /tmp/regress_$c.out 2>&1; rc=$?
  tail -1 /tmp/regress_$c.out | grep -q "^\[" && summary=$(grep "^\[$c\]" /tmp/regress_$c.out) || summary=""
  if [ $rc -ne 0 ]; then echo "$c exit=$rc $summary"; grep -E "^FAIL" /tmp/regress_$c.out | head -5 | cut -c1-200; bad=1; fi
done
[ $bad -eq 0 ] && echo "all checks exit 0"
