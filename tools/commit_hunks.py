#!/usr/bin/env python3
"""commit_hunks.py <message> <file>:<regex> [...] — stage only the hunks of <file> whose text matches <regex>
(all hunks if the regex is '.') and commit them in /repo."""
import re, subprocess, sys, tempfile
msg = sys.argv[1]
patch = ""
for spec in sys.argv[2:]:
    f, rx = spec.split(":", 1)
    d = subprocess.run(["git", "-C", "/repo", "diff", "-U3", "--", f], capture_output=True, text=True).stdout
    if not d:
        sys.exit("no diff for " + f)
    head, *hunks = re.split(r"(?m)^(?=@@ )", d)
    sel = [h for h in hunks if re.search(rx, h)]
    if not sel:
        sys.exit("no hunk matches %s in %s" % (rx, f))
    patch += head + "".join(sel)
with tempfile.NamedTemporaryFile("w", suffix=".patch", delete=False) as t:
    t.write(patch)
r = subprocess.run(["git", "-C", "/repo", "apply", "--cached", "--recount", t.name], capture_output=True, text=True)
if r.returncode:
    sys.exit(r.stderr)
subprocess.check_call(["git", "-C", "/repo", "commit", "-q", "-m", msg])
print(subprocess.run(["git", "-C", "/repo", "log", "--oneline", "-1"], capture_output=True, text=True).stdout.strip())
