#!/bin/bash
# Re-applies every kept seeded change to /repo in turn and runs the check of its property: each must be reported.
cd /verif
git -C /repo diff --quiet || { echo "/repo has local changes"; exit 2; }
miss=0; n=0
for d in $(ls -d seeded/C??-* | sort -V); do
  s=$(basename $d); p=${s%%-*}
  if ! git -C /repo apply --check $(realpath $d/patch.diff) 2>/dev/null; then echo "$s: patch no longer applies (skipped)"; continue; fi
  git -C /repo apply $(realpath $d/patch.diff)
  ./check $p > /tmp/sr_$s.out 2>&1; rc=$?
  git -C /repo checkout -- .
  n=$((n+1))
  if [ $rc -eq 0 ]; then echo "$s: NOT reported by $p"; miss=$((miss+1)); else echo "$s: reported ($(grep -m1 '^FAIL' /tmp/sr_$s.out | cut -d'|' -f1-3 | cut -c6-120))"; fi
done
echo "seeds=$n missed=$miss"
